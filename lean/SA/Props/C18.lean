/-
  C18 — Address schemes select the documented transport, or are rejected.

  The model (SA.Model.Schemes) interprets the scheme switches, regex sources, group indices, nil guards
  and "+tls" if-chains that go/extract regenerates from the Go source (SA/Gen/C18.lean).  Every theorem
  below is therefore re-proved against what the source says now.

  Spec (hand-written from README.md): `documented`.
-/
import SA.Model.Schemes
import SA.Gen.PkgVars
namespace SA.Props.C18
open SA.Schemes SA.Gen

/-! ## Spec -/

/-- what a scheme resolves to: carrier family, network of the listener/dialer ("" where there is none),
    whether the wire is encrypted, and the secure flag handed to the socketace handshake -/
structure Transport where
  carrier : String
  network : String
  tls : Bool
  secure : Bool
  deriving DecidableEq, Repr

/-- README.md, sections "Channels", "Servers", "Client": (position, scheme, carrier, network, TLS?) -/
def documented : List (Pos × String × String × String × Bool) :=
  [ (.server, "http", "http", "tcp", false), (.server, "https", "http", "tcp", true),
    (.server, "tcp", "sock", "tcp", false), (.server, "tcp+tls", "sock", "tcp", true),
    (.server, "stdin", "stdio", "", false), (.server, "stdin+tls", "stdio", "", true),
    (.server, "unix", "sock", "unix", false), (.server, "unix+tls", "sock", "unix", true),
    (.server, "unixpacket", "sock", "unixpacket", false),
    (.server, "udp", "packet", "udp", false), (.server, "unixgram", "packet", "unixgram", false),
    (.server, "dns+udp", "dns", "udp", false), (.server, "dns+tcp", "dns", "tcp", false),
    (.channel, "tcp", "dial", "tcp", false), (.channel, "unix", "dial", "unix", false),
    (.channel, "unixpacket", "dial", "unixpacket", false),
    (.upstream, "tcp", "sock", "tcp", false), (.upstream, "tcp+tls", "sock", "tcp", true),
    (.upstream, "stdin", "stdio", "", false), (.upstream, "stdin+tls", "stdio", "", true),
    (.upstream, "unix", "sock", "unix", false), (.upstream, "unix+tls", "sock", "unix", true),
    (.upstream, "http", "ws", "tcp", false), (.upstream, "https", "ws", "tcp", true),
    (.upstream, "unixgram", "packet", "unixgram", false), (.upstream, "udp", "packet", "udp", false),
    (.upstream, "dns", "dns", "udp", false),
    (.listener, "tcp", "listen", "tcp", false), (.listener, "unix", "listen", "unix", false),
    (.listener, "stdin", "stdio", "", false) ]

/-- the scheme of an address as a reader of the documentation sees it: the text before the first ':'
    (surrounding white space ignored, case-insensitive) -/
def lexScheme (a : Str) : Option Str :=
  let t := trim a
  if t.contains ':' then some (lower (t.takeWhile (· != ':'))) else none

def base (s : Str) : Str := s.takeWhile (· != '+')

/-- the scheme *says* TLS -/
def lexTls (s : Str) : Bool :=
  hasSuffix s "+tls".toList || base s == "https".toList || base s == "wss".toList

/-- the carrier (and network) the scheme's base word names, per position -/
def lexCarrier (p : Pos) (s : Str) : Option (String × String) :=
  let b := String.ofList (base s)
  if b == "http" || b == "https" || b == "ws" || b == "wss" then
    (match p with | .server => some ("http", "tcp") | .upstream => some ("ws", "tcp") | _ => none)
  else if b == "tcp" || b == "unix" || b == "unixpacket" then
    (match p with
     | .server => some ("sock", b) | .upstream => some ("sock", b)
     | .listener => some ("listen", b) | .channel => some ("dial", b))
  else if b == "stdin" || b == "stdio" then some ("stdio", "")
  else if b == "udp" || b == "udp4" || b == "udp6" then some ("packet", "udp")
  else if b == "unixgram" then some ("packet", "unixgram")
  else if b == "dns" then some ("dns", if containsSub s "+tcp".toList then "tcp" else "udp")
  else if b == "socks" then some ("socks", "")
  else none

/-- a transport is lexically consistent with a scheme: the carrier the base word names, encrypted exactly
    when the scheme says so, and the handshake told the truth about it -/
def consistent (p : Pos) (s : Str) (t : Transport) : Bool :=
  lexCarrier p s == some (t.carrier, t.network) && t.tls == lexTls s && t.secure == t.tls

/-! ## the model's resolution of a scheme / an address -/

/-- scheme → transport, through the position's switch and the constructed object's Startup/Connect -/
def transportOf (p : Pos) (s : Str) : Option Transport :=
  match lookup (tableOf p) s with
  | none => none
  | some ctor =>
    let r := runOf p ctor s
    if r.failed then none else some ⟨r.carrier, String.ofList r.network, r.tls, r.secure⟩

/-- address string → transport (`none` = rejected: url error, unknown scheme, or cannot start) -/
def resolve (restOk : Str → Bool) (p : Pos) (a : Str) : Option Transport :=
  match parseAddress restOk a with
  | .error _ => none
  | .ok s => transportOf p s

/-! ## side conditions on the regenerated facts the model's hand-written matchers rely on -/

theorem C18_gen_regex_sources :
    hasTlsSrc = "\\+tls" ∧ plusEndSrc = "\\+.+$" ∧
    channelRegexSrc = "^([a-z0-9_^/]*)->((tcp|udp|unix|unixgram|unixpacket):(.*))$" := by decide

theorem C18_gen_defaults_are_errors :
    serverSchemesDefaultIsError = true ∧ channelSchemesDefaultIsError = true ∧
    upstreamSchemesDefaultIsError = true ∧ listenerSchemesDefaultIsError = true ∧
    dnsStartupNetsDefaultIsError = true := by decide

/-! ## C18_documented_schemes_ok -/

/-- every documented (position, scheme) yields exactly the documented carrier, network and TLS flag, and
    the socketace handshake is told the same -/
theorem C18_documented_schemes_ok :
    ∀ d ∈ documented, transportOf d.1 d.2.1.toList = some ⟨d.2.2.1, d.2.2.2.1, d.2.2.2.2, d.2.2.2.2⟩ := by
  decide

/-- no scheme is accepted by a parser and then refused (or left without a transport) by Startup/Connect:
    rejection of a scheme is always a configuration-time error -/
theorem C18_accepted_schemes_start :
    (∀ k ∈ keysOf (tableOf .server), (transportOf .server k.toList).isSome) ∧
    (∀ k ∈ keysOf (tableOf .channel), (transportOf .channel k.toList).isSome) ∧
    (∀ k ∈ keysOf (tableOf .upstream), (transportOf .upstream k.toList).isSome) ∧
    (∀ k ∈ keysOf (tableOf .listener), (transportOf .listener k.toList).isSome) := by
  decide

/-! ## from the address to the scheme (all strings) -/

theorem takeWhile_append_stop {p : Char → Bool} :
    ∀ (xs : Str) (c : Char) (ys : Str), (∀ x ∈ xs, p x = true) → p c = false →
      (xs ++ c :: ys).takeWhile p = xs
  | [], c, ys, _, hc => by simp [hc]
  | x :: xs, c, ys, h, hc => by
    have hx : p x = true := h x (by simp)
    have := takeWhile_append_stop xs c ys (fun y hy => h y (by simp [hy])) hc
    simp [hx, this]

/-- getScheme's scan: a non-empty scheme is the text before the first ':' -/
theorem getSchemeAux_spec (whole : Str) :
    ∀ (rem acc s rest : Str), getSchemeAux whole acc rem = some (s, rest) → s ≠ [] →
      (∀ c ∈ acc, c ≠ ':') →
      ∃ pre, s = acc.reverse ++ pre ∧ rem = pre ++ ':' :: rest ∧ ∀ c ∈ pre, c ≠ ':'
  | [], acc, s, rest, h, hs, _ => by
    simp [getSchemeAux] at h
    exact absurd h.1 hs
  | c :: cs, acc, s, rest, h, hs, hacc => by
    unfold getSchemeAux at h
    by_cases h1 : c.isAlpha = true
    · simp only [h1, if_true] at h
      have hc : c ≠ ':' := by intro e; subst e; exact absurd h1 (by decide)
      obtain ⟨pre, e1, e2, e3⟩ := getSchemeAux_spec whole cs (c :: acc) s rest h hs
        (by intro x hx; simp at hx; rcases hx with rfl | hx; exact hc; exact hacc x hx)
      refine ⟨c :: pre, ?_, ?_, ?_⟩
      · simp [e1]
      · simp [e2]
      · intro x hx; simp at hx; rcases hx with rfl | hx; exact hc; exact e3 x hx
    · simp only [h1] at h
      by_cases h2 : (c.isDigit || c == '+' || c == '-' || c == '.') = true
      · simp only [h2, if_true] at h
        have hc : c ≠ ':' := by intro e; subst e; exact absurd h2 (by decide)
        by_cases h3 : acc.isEmpty = true
        · simp only [h3, if_true] at h
          simp at h; exact absurd h.1 hs
        · simp only [h3] at h
          obtain ⟨pre, e1, e2, e3⟩ := getSchemeAux_spec whole cs (c :: acc) s rest h hs
            (by intro x hx; simp at hx; rcases hx with rfl | hx; exact hc; exact hacc x hx)
          refine ⟨c :: pre, ?_, ?_, ?_⟩
          · simp [e1]
          · simp [e2]
          · intro x hx; simp at hx; rcases hx with rfl | hx; exact hc; exact e3 x hx
      · simp only [h2] at h
        by_cases h4 : (c == ':') = true
        · simp only [h4, if_true] at h
          have hc : c = ':' := by simpa using h4
          by_cases h3 : acc.isEmpty = true
          · simp [h3] at h
          · simp only [h3] at h
            simp at h
            refine ⟨[], ?_, ?_, ?_⟩
            · simp [h.1]
            · simp [hc, h.2]
            · intro x hx; simp at hx
        · simp only [h4] at h
          simp at h; exact absurd h.1 hs

/-- an accepted address with a non-empty scheme has exactly that lexical scheme -/
theorem parseAddress_lexScheme (restOk : Str → Bool) (a s : Str)
    (h : parseAddress restOk a = .ok s) (hs : s ≠ []) : lexScheme a = some s := by
  unfold parseAddress at h
  simp only at h
  split at h
  · cases h
  · split at h
    · cases h
    · rename_i s0 rest hg
      split at h
      · have hs' : s = lower s0 := by cases h; rfl
        have hs0 : s0 ≠ [] := by
          intro e; subst e; simp [lower] at hs'; exact hs hs'
        obtain ⟨pre, e1, e2, e3⟩ :=
          getSchemeAux_spec _ _ [] s0 rest hg hs0 (by intro c hc; simp at hc)
        simp at e1
        subst e1
        -- trim a = (s0 ++ ':' :: rest) ++ fragment part
        have hsplit : trim a = (trim a).takeWhile (· != '#') ++ (trim a).dropWhile (· != '#') :=
          (List.takeWhile_append_dropWhile).symm
        rw [e2] at hsplit
        have hne : ∀ x ∈ s0, (x != ':') = true := by
          intro x hx; simpa using e3 x hx
        have htw : (trim a).takeWhile (· != ':') = s0 := by
          rw [hsplit, List.append_assoc]
          exact takeWhile_append_stop s0 ':' _ hne (by decide)
        have hcont : (trim a).contains ':' = true := by
          rw [hsplit]; simp
        unfold lexScheme
        simp only [hcont, if_true, htw, hs']
      · cases h

/-! ## C18_undocumented_consistent_or_error -/

theorem lookup_some_mem :
    ∀ (tbl : List (List String × String)) (s : Str) (c : String),
      lookup tbl s = some c → ∃ k ∈ keysOf tbl, k.toList = s
  | [], s, c, h => by simp [lookup] at h
  | (keys, t) :: rest, s, c, h => by
    unfold lookup at h
    split at h
    · rename_i hany
      simp only [List.any_eq_true] at hany
      obtain ⟨k, hk, he⟩ := hany
      exact ⟨k, by simp [keysOf, hk], by simpa using he⟩
    · obtain ⟨k, hk, he⟩ := lookup_some_mem rest s c h
      refine ⟨k, ?_, he⟩
      simp [keysOf] at hk ⊢
      exact Or.inr hk

/-- over the complete key set of every table: whatever a known scheme resolves to is lexically consistent -/
theorem keys_consistent :
    (∀ k ∈ keysOf (tableOf .server), ∀ t, transportOf .server k.toList = some t → consistent .server k.toList t = true) ∧
    (∀ k ∈ keysOf (tableOf .channel), ∀ t, transportOf .channel k.toList = some t → consistent .channel k.toList t = true) ∧
    (∀ k ∈ keysOf (tableOf .upstream), ∀ t, transportOf .upstream k.toList = some t → consistent .upstream k.toList t = true) ∧
    (∀ k ∈ keysOf (tableOf .listener), ∀ t, transportOf .listener k.toList = some t → consistent .listener k.toList t = true) := by
  have key : ∀ p, (∀ k ∈ keysOf (tableOf p),
      (match transportOf p k.toList with | none => true | some t => consistent p k.toList t) = true) →
      ∀ k ∈ keysOf (tableOf p), ∀ t, transportOf p k.toList = some t → consistent p k.toList t = true := by
    intro p h k hk t ht
    have := h k hk
    rw [ht] at this
    exact this
  refine ⟨key .server (by decide), key .channel (by decide), key .upstream (by decide), key .listener (by decide)⟩

theorem empty_scheme_rejected : ∀ p, transportOf p [] = none := by
  intro p; cases p <;> decide

/-- **for every string** in every position, whatever net/url thinks of the rest: the address is rejected,
    or it has a lexical scheme and the transport is the one that scheme names — the named carrier,
    encrypted exactly when the scheme says TLS, with the handshake told so.  No string silently yields a
    different or an unencrypted transport. -/
theorem C18_undocumented_consistent_or_error (restOk : Str → Bool) (p : Pos) (a : Str) :
    match resolve restOk p a with
    | none => True
    | some t => ∃ s, lexScheme a = some s ∧ consistent p s t = true := by
  unfold resolve
  split
  · trivial
  · rename_i t hres
    split at hres
    · cases hres
    · rename_i s hp
      have hs : s ≠ [] := by
        intro e; subst e; rw [empty_scheme_rejected] at hres; cases hres
      refine ⟨s, parseAddress_lexScheme restOk a s hp hs, ?_⟩
      have hl : ∃ c, lookup (tableOf p) s = some c := by
        unfold transportOf at hres
        split at hres
        · cases hres
        · rename_i c hc; exact ⟨c, hc⟩
      obtain ⟨c, hc⟩ := hl
      obtain ⟨k, hk, he⟩ := lookup_some_mem _ _ _ hc
      subst he
      cases p
      · exact keys_consistent.1 k hk t hres
      · exact keys_consistent.2.1 k hk t hres
      · exact keys_consistent.2.2.1 k hk t hres
      · exact keys_consistent.2.2.2 k hk t hres

/-! ## C18_forms_agree -/

/-- JSON, the server / upstream / listen command line flags and the YAML file reach the same function with the same
    string: the outcome does not depend on the input form (channel flag syntax: next theorem) -/
theorem C18_forms_agree (restOk : Str → Bool) (p : Pos) (k : Kind) (v : Str) (f1 f2 : Form)
    (h : p ≠ .channel ∨ (f1 ≠ .flag ∧ f2 ≠ .flag)) :
    parseOp restOk ⟨p, f1, k, v⟩ = parseOp restOk ⟨p, f2, k, v⟩ := by
  cases p <;> cases f1 <;> cases f2 <;> simp_all [parseOp]

/-- the `name->proto:host` flag builds the channel `unmarshalChannel` builds from
    `{name: name, address: proto://host}` — same switch, same errors -/
theorem C18_forms_agree_channel_flag (restOk : Str → Bool) (v : Str) (g0 name g2 proto host : Str)
    (h : channelRegexMatch v = some [g0, name, g2, proto, host]) :
    parseOp restOk ⟨.channel, .flag, .str, v⟩ =
      unmarshalElem restOk .channel .str (proto ++ "://".toList ++ trimPrefix host "//".toList) name := by
  have e1 : channelFlagViaTable = true := by decide
  have e2 : channelFlagNameIdx = 1 := by decide
  have e3 : channelFlagSchemeIdx = 3 := by decide
  have e4 : channelFlagHostIdx = 4 := by decide
  simp [parseOp, channelFlag, h, e1, e2, e3, e4]


/-! ## names are taken from where the documentation says -/

theorem dispatch_name (p : Pos) (s n : Str) (c : String) (s' n' : Str)
    (h : dispatch p s n = .ok c s' n') : n' = n := by
  unfold dispatch at h
  split at h
  · cases h; rfl
  · split at h
    · cases h
    · cases h; rfl

/-- `--listen <channel>~<listen-url>[~<forward-url>]`: an accepted spec is named by its first part and
    typed by the scheme of its second part, whatever follows (extra `~` parts are ignored, never reinterpreted) -/
theorem C18_listener_parts (restOk : Str → Bool) (v : Str) (c : String) (s n : Str)
    (h : listenerFlag restOk v = .ok c s n) :
    n = (splitOnChar '~' (trim v)).getD 0 [] ∧
    parseAddress restOk ((splitOnChar '~' (trim v)).getD 1 []) = .ok s ∧
    lookup listenerSchemes s = some c := by
  have e0 : listenerNameIdx = 0 := by decide
  have e1 : listenerAddrIdx = 1 := by decide
  unfold listenerFlag at h
  simp only [e0, e1] at h
  split at h
  · cases h
  · split at h
    · split at h
      · cases h
      · rename_i s0 hp
        split at h
        · cases h
        · have hn := dispatch_name _ _ _ _ _ _ h
          have hs : s = s0 ∧ lookup listenerSchemes s0 = some c := by
            unfold dispatch at h
            split at h
            · rename_i ctor hl; cases h; exact ⟨rfl, hl⟩
            · split at h
              · cases h
              · have : defaultIsError .listener = true := by decide
                simp_all
          obtain ⟨rfl, hl⟩ := hs
          exact ⟨hn, hp, hl⟩
    · cases h

/-- `--channel <name>-><protocol>:<address>`: an accepted flag is named by the text before `->` -/
theorem C18_channel_flag_name (restOk : Str → Bool) (v : Str) (c : String) (s n : Str)
    (h : channelFlag restOk v = .ok c s n) : n = v.takeWhile nameChar := by
  have e1 : channelFlagViaTable = true := by decide
  have e2 : channelFlagNameIdx = 1 := by decide
  unfold channelFlag at h
  split at h
  · cases h
  · rename_i g hg
    simp only [e1, e2, if_true] at h
    have hg1 : g.getD 1 [] = v.takeWhile nameChar := by
      unfold channelRegexMatch at hg
      simp only at hg
      split at hg
      · cases hg
      · split at hg
        · cases hg
        · split at hg
          · cases hg; rfl
          · cases hg
    rw [hg1] at h
    unfold unmarshalElem parseAndDispatch at h
    simp only at h
    split at h
    · cases h
    · exact dispatch_name _ _ _ _ _ _ h

/-! ## C18_no_panic_config -/

theorem dispatch_no_panic (p : Pos) (s n : Str) : dispatch p s n ≠ .panic := by
  unfold dispatch; split
  · intro h; cases h
  · split <;> intro h <;> cases h

theorem parseAndDispatch_no_panic (restOk : Str → Bool) (p : Pos) (a n : Str) :
    parseAndDispatch restOk p a n ≠ .panic := by
  unfold parseAndDispatch; split
  · intro h; cases h
  · exact dispatch_no_panic _ _ _

theorem unmarshalElem_no_panic (restOk : Str → Bool) (p : Pos) (k : Kind) (a n : Str) :
    unmarshalElem restOk p k a n ≠ .panic := by
  have g1 : channelNilAddressGuard = true := by decide
  have g2 : channelNonStringGuard = true := by decide
  cases k
  · exact parseAndDispatch_no_panic _ _ _ _
  · simp [unmarshalElem, g1]
  · simp [unmarshalElem, g1, g2]
  · simp [unmarshalElem]

/-- no configuration input — any position, any form, any shape of the list element, any string — makes a
    parser panic -/
theorem C18_no_panic_config (restOk : Str → Bool) (o : Op) : parseOp restOk o ≠ .panic := by
  obtain ⟨p, f, k, v⟩ := o
  cases p
  · exact unmarshalElem_no_panic _ _ _ _ _
  · cases f
    · exact unmarshalElem_no_panic _ _ _ _ _
    · simp only [parseOp, channelFlag]
      split
      · intro h; cases h
      · split
        · exact unmarshalElem_no_panic _ _ _ _ _
        · split <;> intro h <;> cases h
    · exact unmarshalElem_no_panic _ _ _ _ _
  · exact parseAndDispatch_no_panic _ _ _ _
  · simp only [parseOp, listenerFlag]
    split
    · intro h; cases h
    · split
      · split
        · intro h; cases h
        · split
          · intro h; cases h
          · exact dispatch_no_panic _ _ _
      · intro h; cases h

/-! ## non-vacuity -/

-- documented schemes resolve (C18_documented_schemes_ok is not vacuous), through whole addresses
example : resolve (fun _ => true) .server "tcp+tls://0.0.0.0:5000".toList = some ⟨"sock", "tcp", true, true⟩ := by decide
example : resolve (fun _ => true) .upstream " HTTPS://server.example.com/proxy ".toList = some ⟨"ws", "tcp", true, true⟩ := by decide
example : resolve (fun _ => true) .server "dns+tcp://192.168.8.1:53".toList = some ⟨"dns", "tcp", false, false⟩ := by decide
-- neighbours are rejected, not silently downgraded
example : resolve (fun _ => true) .server "tcp+tls+tls://h:1".toList = none := by decide
example : resolve (fun _ => true) .server "tcp+tsl://h:1".toList = none := by decide
example : resolve (fun _ => true) .upstream "stdin".toList = none := by decide
example : resolve (fun _ => true) .channel "tcp+tls://h:1".toList = none := by decide
-- the consistency predicate discriminates: a plain transport is not consistent with a +tls scheme
example : consistent .server "tcp+tls".toList ⟨"sock", "tcp", false, false⟩ = false := by decide
example : consistent .server "tcp+tls".toList ⟨"sock", "tcp", true, false⟩ = false := by decide
example : consistent .server "tcp".toList ⟨"sock", "unix", false, false⟩ = false := by decide
-- the channel flag in its documented form, and the forms agreeing on it
example : parseOp (fun _ => true) ⟨.channel, .flag, .str, "ssh->tcp:127.0.0.1:22".toList⟩
    = .ok "NetworkChannel" "tcp".toList "ssh".toList := by decide
example : parseOp (fun _ => true) ⟨.channel, .flag, .str, "ssh->udp:127.0.0.1:22".toList⟩ = .error .scheme := by decide
example : parseOp (fun _ => true) ⟨.channel, .json, .missing, []⟩ = .error .shape := by decide
example : parseOp (fun _ => true) ⟨.listener, .flag, .str, "ssh~tcp://127.0.0.1:2222~tcp://10.0.0.1:22~x".toList⟩
    = .ok "SocketListener" "tcp".toList "ssh".toList := by decide

/-- **the DNS server listens on the documented network**: for the documented DNS server schemes the run observation the
    model predicts — which the harness compares with what a probe from outside finds listening after `Startup`
    (TCP dial / UDP query against the bound address) — names exactly the documented network: `dns+udp` a UDP
    server, `dns+tcp` a TCP server; and the undocumented relatives follow the lexical rule (`dns` UDP, `dns+tcp+tls`
    TCP with TLS). -/
theorem C18_dns_server_listens_documented :
    (∀ d ∈ documented, d.1 = .server → d.2.2.1 = "dns" →
      runStr .server "NewDnsServer" (runOf .server "NewDnsServer" d.2.1.toList)
        = "dns,dns.ServerDnsListener," ++ d.2.1 ++ ",false," ++ d.2.2.2.1) ∧
    runStr .server "NewDnsServer" (runOf .server "NewDnsServer" "dns".toList) = "dns,dns.ServerDnsListener,dns,false,udp" ∧
    runStr .server "NewDnsServer" (runOf .server "NewDnsServer" "dns+tcp+tls".toList)
      = "dns,dns.ServerDnsListener,dns+tcp,true,tcp-tls" := by decide

end SA.Props.C18

#print axioms SA.Props.C18.C18_gen_regex_sources
#print axioms SA.Props.C18.C18_gen_defaults_are_errors
#print axioms SA.Props.C18.C18_documented_schemes_ok
#print axioms SA.Props.C18.C18_accepted_schemes_start
#print axioms SA.Props.C18.C18_undocumented_consistent_or_error
#print axioms SA.Props.C18.C18_forms_agree
#print axioms SA.Props.C18.C18_forms_agree_channel_flag
#print axioms SA.Props.C18.C18_listener_parts
#print axioms SA.Props.C18.C18_channel_flag_name
#print axioms SA.Props.C18.C18_no_panic_config
#print axioms SA.Props.C18.C18_dns_server_listens_documented

namespace SA.PkgState
/-- **no_hidden_process_state**: the models of this property are functions of their arguments and of the objects they are
    handed; the packages they model keep no package-level variables besides these (regenerated inventory: error
    sentinels, tables, compiled patterns, the two session time-outs).  A new package-level variable — a counter, a cache, a
    scratch buffer, a shared map, a registry — would make later calls depend on earlier ones, or concurrent calls on each
    other, outside anything a per-call comparison of model and code can see. -/
theorem C18_no_hidden_process_state :
    Gen.pkgVarNames_addr = ["HasTls", "PlusEnd"] ∧
    Gen.pkgVarNames_upstream = [] ∧
    Gen.pkgVarNames_listener = [] ∧
    Gen.pkgVarNames_server = ["ChannelRegex"] := by decide
end SA.PkgState

#print axioms SA.PkgState.C18_no_hidden_process_state

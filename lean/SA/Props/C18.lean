import SA.Model.Schemes
namespace SA.Props.C18
open SA.Schemes SA.Gen

theorem C18_placeholder : True := trivial

end SA.Props.C18
#print axioms SA.Props.C18.C18_placeholder

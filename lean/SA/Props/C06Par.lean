/-
  C06, continued — the handshakes of several peers at the same moment.

  Every listener serves each accepted connection on a goroutine of its own; opening handshakes — sessions and
  refusals alike — overlap in one process.  "No byte sequence sent by a client can crash the process" is stated
  per connection; it is a property of the *process* only if a handshake is a function of its own connection: of the
  configuration it was accepted under and of the bytes its peer sends, while any number of other connections, with
  any bytes, are being handled.  (In Go this matters beyond wrong answers: a map written from two goroutines makes
  the runtime abort the whole process with `fatal error: concurrent map writes`, which no `recover` can prevent.)

  In the model this holds by construction (`serverRun` / `clientRun` are functions; a batch is `List.map`), and the
  theorems below put it on the books: the outcome of a member of a batch is its outcome alone whatever stands next
  to it, no member of any batch reaches a panic, every member is segmentation independent, and the `par` op of the
  line protocol is the map of the single ops whatever G and the repetitions.  What ties the statement to the Go code
  is the `par` form of `hs-server` / `hs-client` (go/harness/c06_par.go): G goroutines released together drive
  independent real NewServerConnection / NewClientConnection calls in a child process; a dead child, an outcome or
  a written byte that differs from the same connection handled alone is the failing input.  A package-level header
  map, buffer, Request/Response object or reader shared between connections makes the implementation differ from
  this model on some interleaving; `C06_no_hidden_process_state` (regenerated inventory of package-level variables)
  is the static side of the same statement.
-/
import SA.Props.C06
import SA.Drv.Handshake
namespace SA.Handshake
open SA.Drv.Handshake

/-- one connection in flight on a server: the configuration it was accepted under, what crypto/tls would report,
    and the transport reads its peer's bytes arrive in -/
structure SrvConn where
  cfg : SrvCfg
  tls : B → Bool
  chunks : List B

/-- the server's handling of a batch of connections at the same moment (any interleaving): the model has no state
    a connection could leave behind or share, so it is the list of the single results -/
def serverBatch (cs : List SrvConn) : List SrvResult := cs.map fun c => serverRun c.cfg c.tls c.chunks

structure CliConn where
  secure : Bool
  tls : B → Bool
  chunks : List B

def clientBatch (cs : List CliConn) : List CliResult := cs.map fun c => clientRun c.secure c.tls c.chunks

/-- **batches are pointwise (server).**  The result for the connection at any position of a batch is the result of
    that connection alone — whatever is handled before, after and next to it. -/
theorem C06_batch_pointwise (pre post : List SrvConn) (c : SrvConn) :
    (serverBatch (pre ++ c :: post))[pre.length]? = some (serverRun c.cfg c.tls c.chunks) := by
  simp [serverBatch]

/-- **batches are pointwise (client).** -/
theorem C06_batch_pointwise_client (pre post : List CliConn) (c : CliConn) :
    (clientBatch (pre ++ c :: post))[pre.length]? = some (clientRun c.secure c.tls c.chunks) := by
  simp [clientBatch]

/-- **no batch of byte sequences crashes the server**: whatever bytes any number of clients send at the same
    moment, under whatever segmentation each, no connection's handshake reaches a panic. -/
theorem C06_concurrent_no_panic_server (cs : List SrvConn) : ∀ r ∈ serverBatch cs, r.out ≠ .panic := by
  intro r hr
  obtain ⟨c, _, rfl⟩ := List.mem_map.mp hr
  exact C06_no_panic_server c.cfg c.tls c.chunks

/-- **… nor the client** -/
theorem C06_concurrent_no_panic_client (cs : List CliConn) : ∀ r ∈ clientBatch cs, r.out ≠ .panic := by
  intro r hr
  obtain ⟨c, _, rfl⟩ := List.mem_map.mp hr
  exact C06_no_panic_client c.secure c.tls c.chunks

/-- **every member of a batch is a session, a refusal with one of the listed codes, or a closed connection** — the
    per-connection dichotomy of `C06_else_refused`, for connections handled at the same moment -/
theorem C06_concurrent_else_refused (cs : List SrvConn) : ∀ r ∈ serverBatch cs, SessionOrRefusedOrClosed r := by
  intro r hr
  obtain ⟨c, _, rfl⟩ := List.mem_map.mp hr
  exact C06_else_refused c.cfg c.tls c.chunks

/-- **segmentation independence inside a batch**: re-cutting the transport reads of every member changes no result -/
theorem C06_concurrent_segmentation_independent (cs : List SrvConn) :
    serverBatch cs = serverBatch (cs.map fun c => { c with chunks := [c.chunks.flatten] }) := by
  simp only [serverBatch, List.map_map]
  apply List.map_congr_left
  intro c _
  exact C06_segmentation_independent c.cfg c.tls c.chunks

/-- **the `par` op of the line protocol is the map of the single ops** — independent of the number of goroutines
    and of repetitions (the model the concurrent drive of the real code is compared with) -/
theorem C06_par_op_pointwise (one : List String → String) (g iters : String) (rest : List String)
    (hg : g.toNat?.isSome) (hi : iters.toNat?.isSome)
    (hops : (splitOps rest).all (fun o => !o.isEmpty && o.head? != some "par")) :
    handlePar one ("par" :: g :: iters :: rest) = String.intercalate " ; " ((splitOps rest).map one) := by
  have h1 : g.toNat?.isNone = false := by cases h : g.toNat? <;> simp_all
  have h2 : iters.toNat?.isNone = false := by cases h : iters.toNat? <;> simp_all
  have h3 : (splitOps rest).any (fun o => o.isEmpty || o.head? == some "par") = false := by
    rw [List.any_eq_false]
    intro o ho
    have := List.all_eq_true.mp hops o ho
    simp only [Bool.and_eq_true, Bool.not_eq_eq_eq_not, Bool.not_true, bne_iff_ne, ne_eq] at this
    simp [this.1, this.2]
  simp only [handlePar, handleBatch, h1, h2, h3, Bool.or_self, Bool.false_eq_true, if_false]

/-- the two components are instances -/
theorem C06_par_op_pointwise_server (g iters : String) (rest : List String)
    (hg : g.toNat?.isSome) (hi : iters.toNat?.isSome)
    (hops : (splitOps rest).all (fun o => !o.isEmpty && o.head? != some "par")) :
    handleServer ("par" :: g :: iters :: rest) = String.intercalate " ; " ((splitOps rest).map handleServerOne) :=
  C06_par_op_pointwise handleServerOne g iters rest hg hi hops

theorem C06_par_op_pointwise_client (g iters : String) (rest : List String)
    (hg : g.toNat?.isSome) (hi : iters.toNat?.isSome)
    (hops : (splitOps rest).all (fun o => !o.isEmpty && o.head? != some "par")) :
    handleClient ("par" :: g :: iters :: rest) = String.intercalate " ; " ((splitOps rest).map handleClientOne) :=
  C06_par_op_pointwise handleClientOne g iters rest hg hi hops

-- non-vacuity: a batch of an unparsable request line (refused 400) next to an announce with another method
-- ("GET / H", refused 405): two different results, each the one of its own connection
example :
    (serverBatch [⟨⟨false, .nil⟩, fun _ => false, [[32, 13, 10, 13, 10]]⟩, ⟨⟨false, .nil⟩, fun _ => false, [[71, 69, 84, 32, 47, 32, 72, 13, 10, 13, 10]]⟩]).map (·.out)
      = [.refused 400, .refused 405] := by decide

/-- non-vacuity of the op form: two single ops, one separator -/
example : splitOps ["0", "nil", "eof", "-", "a", ";", "1", "ok", "eof", "-", "b"]
    = [["0", "nil", "eof", "-", "a"], ["1", "ok", "eof", "-", "b"]] := by decide

end SA.Handshake

#print axioms SA.Handshake.C06_batch_pointwise
#print axioms SA.Handshake.C06_batch_pointwise_client
#print axioms SA.Handshake.C06_concurrent_no_panic_server
#print axioms SA.Handshake.C06_concurrent_no_panic_client
#print axioms SA.Handshake.C06_concurrent_else_refused
#print axioms SA.Handshake.C06_concurrent_segmentation_independent
#print axioms SA.Handshake.C06_par_op_pointwise
#print axioms SA.Handshake.C06_par_op_pointwise_server
#print axioms SA.Handshake.C06_par_op_pointwise_client

/-
  C13 ∘ C07 — each session's byte streams contain only its own peer's data.

  The multi-session server model (SA.Model.DnsServer / DnsSessions) holds one InQueue / OutQueue pair per session
  object.  `sessTrace cd dom sid ops` (SA.Model.DnsSessTrace) projects a history onto one session object: the packet
  requests that (a) carry the identifier of the live slot holding `sid`, (b) come from `sid`'s owner address, (c) are
  processed while `sid` is live — and the application Writes on `sid`.

  * `C13_session_queues_own_trace`: after ANY history the queue pair of `sid` is the fold of `qstep` over that trace —
    no other step of the history (other sessions of any address, spoofed identifiers, stale identifiers, closes,
    option changes, expiry, other commands of the owner) reaches it.
  * `C13_answers_own_trace`: the answers to those packet requests are `pktAns` of the same fold, or nothing.
  * `C13_session_refines_queue_endpoint`: `qstep` IS the server end of the two-endpoint model of C07 (`serve`,
    `addChunk` with the regenerated facts `Cfg.gen`).
  * `C13_streams_only_own_peer`: hence, when the owner's packet requests are those of a C07 client (any well-bounded
    two-endpoint history `evs`: losses, duplicates, replays), C07's theorems hold for session `sid` inside the
    multi-session server, whatever the rest of the history does.
  * `C13_stream_bytes_provenance`: unconditionally (owner arbitrary), the released bytes are a concatenation of
    payloads of packets of the trace and every queued chunk is a chunk of a Write of the trace.
-/
import SA.Props.C13
import SA.Props.C07
import SA.Proofs.DnsServerQueues
import SA.Proofs.DnsServerRefine
import SA.Proofs.DnsServerProv

namespace SA.Props.C13
open SA.Go SA.Go.Res SA.DnsServer

/-! ## the queue pair of a session object is a function of its own trace -/

theorem run_trace_from (cd : Codec) (hT : cd.Total) (dom : List Nat) (sid : Nat) : ∀ (ops : List Op) (σ : Srv), Inv σ →
    ((run cd dom σ ops).sess sid).q = (sessTraceFrom cd dom sid σ ops).foldl qstep (σ.sess sid).q
  | [], _, _ => rfl
  | op :: r, σ, hI => by
    show ((run cd dom (step cd dom σ op) r).sess sid).q = _
    rw [run_trace_from cd hT dom sid r _ (inv_step cd hT dom hI op)]
    simp only [sessTraceFrom, List.foldl_append]
    rw [step_q cd hT dom hI op sid]

theorem init_q (sid : Nat) : (Srv.init.sess sid).q = (({} : InQ), ({} : OutQ)) := rfl

/-- **own trace only**: in every history of the multi-session server (messages of any content from any address,
    application Close / Write on any object, clock, pruning), the InQueue / OutQueue of session object `sid` is the
    result of applying, to empty queues, exactly the events of `sessTrace … sid`: the packet requests that carried the
    identifier of `sid`'s live slot, came from `sid`'s owner and were processed while `sid` was live, and the Writes of
    the application on `sid`. -/
theorem C13_session_queues_own_trace (cd : Codec) (hT : cd.Total) (dom : List Nat) (ops : List Op) (sid : Nat) :
    ((run cd dom Srv.init ops).sess sid).q = (sessTrace cd dom sid ops).foldl qstep (({} : InQ), ({} : OutQ)) := by
  rw [← init_q sid]
  exact run_trace_from cd hT dom sid ops _ inv_init

/-- hence two histories that agree on the trace of `sid` leave it with the same queues, whatever else they contain -/
theorem C13_same_trace_same_queues (cd : Codec) (hT : cd.Total) (dom : List Nat) (ops ops' : List Op) (sid sid' : Nat)
    (h : sessTrace cd dom sid ops = sessTrace cd dom sid' ops') :
    ((run cd dom Srv.init ops).sess sid).q = ((run cd dom Srv.init ops').sess sid').q := by
  rw [C13_session_queues_own_trace cd hT, C13_session_queues_own_trace cd hT, h]

/-! ## the answers to the owner's packet requests -/

theorem expectedAns_append : ∀ (l1 l2 : List SEv) (q : QPair),
    expectedAns q (l1 ++ l2) = expectedAns q l1 ++ expectedAns (l1.foldl qstep q) l2
  | [], _, _ => rfl
  | .pkt a p :: r, l2, q => by
    simp only [List.cons_append, expectedAns, List.foldl_cons, qstep]
    rw [expectedAns_append r l2]
  | .wr d cs :: r, l2, q => by
    simp only [List.cons_append, expectedAns, List.foldl_cons]
    rw [expectedAns_append r l2]

theorem pointwise_append {α β : Type} {P : α → β → Prop} : ∀ {l1 l2 : List α} {m1 m2 : List β},
    Pointwise P l1 m1 → Pointwise P l2 m2 → Pointwise P (l1 ++ l2) (m1 ++ m2)
  | [], _, [], _, _, h => h
  | [], _, _ :: _, _, h, _ => by simp [Pointwise] at h
  | _ :: _, _, [], _, h, _ => by simp [Pointwise] at h
  | a :: l1, l2, b :: m1, m2, h, h2 => ⟨h.1, pointwise_append h.2 h2⟩

theorem pointwise_map_right {α β γ : Type} {P : α → γ → Prop} (f : β → γ) : ∀ {l : List α} {m : List β},
    Pointwise P l (m.map f) → Pointwise (fun a b => P a (f b)) l m
  | [], [], _ => trivial
  | [], _ :: _, h => by simp [Pointwise] at h
  | _ :: _, [], h => by simp [Pointwise] at h
  | a :: l, b :: m, h => ⟨h.1, pointwise_map_right f h.2⟩

theorem ans_trace_from (cd : Codec) (hT : cd.Total) (dom : List Nat) (sid : Nat) : ∀ (ops : List Op) (σ : Srv), Inv σ →
    Pointwise (fun a x => a = .drop ∨ a = x) (ansTraceFrom cd dom sid σ ops)
      (expectedAns (σ.sess sid).q (sessTraceFrom cd dom sid σ ops))
  | [], _, _ => trivial
  | op :: r, σ, hI => by
    have ih := ans_trace_from cd hT dom sid r _ (inv_step cd hT dom hI op)
    rw [step_q cd hT dom hI op sid] at ih
    simp only [ansTraceFrom, sessTraceFrom]
    rw [expectedAns_append]
    refine pointwise_append ?_ ih
    cases op with
    | msg m =>
      obtain ⟨σ', a, h, _, _⟩ := onMessage_good cd hT dom hI m
      have hq := onMessage_q cd hT dom hI m h
      cases hp : pktReq cd dom σ m with
      | none => simp only [evOf, hp, expectedAns]; exact trivial
      | some x =>
        obtain ⟨s, ack, pkt⟩ := x
        rw [hp] at hq
        simp only [evOf, hp]
        by_cases hss : s = sid
        · subst hss
          simp only [ite_true, h, expectedAns]
          exact ⟨hq.ans, trivial⟩
        · simp only [hss, ite_false, expectedAns]; exact trivial
    | write s d =>
      simp only [evOf]
      split
      · simp only [expectedAns]; exact trivial
      · exact trivial
    | close s => exact trivial
    | tick dt => exact trivial
    | expire => exact trivial

/-- **answers**: the answers the server gives to the packet requests of the trace of `sid` (the only answers that carry
    bytes of `sid`'s outgoing stream) are, one by one, what `packet` computes from `sid`'s own queues along its own trace
    (`pktAns`), or nothing (dropped by the response wrapping). -/
theorem C13_answers_own_trace (cd : Codec) (hT : cd.Total) (dom : List Nat) (ops : List Op) (sid : Nat) :
    Pointwise (fun a x => a = .drop ∨ a = x) (ansTrace cd dom sid ops)
      (expectedAns (({} : InQ), ({} : OutQ)) (sessTrace cd dom sid ops)) := by
  rw [← init_q sid]
  exact ans_trace_from cd hT dom sid ops _ inv_init

/-! ## the session object is the server end of C07's two-endpoint model -/

theorem seqOk_trace_from (cd : Codec) (hT : cd.Total) (hB : cd.Bytes) (dom : List Nat) (sid : Nat) :
    ∀ (ops : List Op) (σ : Srv), ∀ e ∈ sessTraceFrom cd dom sid σ ops, SeqOk e
  | [], _, e, h => by simp [sessTraceFrom] at h
  | op :: r, σ, e, h => by
    simp only [sessTraceFrom, List.mem_append] at h
    rcases h with h | h
    · cases op with
      | msg m =>
        simp only [evOf] at h
        cases hp : pktReq cd dom σ m with
        | none => simp [hp] at h
        | some x =>
          obtain ⟨s, a, p⟩ := x
          simp only [hp] at h
          split at h
          · simp at h; subst h
            cases p with
            | none => trivial
            | some pp => exact pktReq_bytes cd hT hB dom σ m hp pp rfl
          · simp at h
      | write s d =>
        simp only [evOf] at h
        split at h
        · simp at h; subst h; trivial
        · simp at h
      | close s => simp [evOf] at h
      | tick dt => simp [evOf] at h
      | expire => simp [evOf] at h
    · exact seqOk_trace_from cd hT hB dom sid r _ e h

open SA.Queue in
/-- **refinement**: let `evs` be any history of the two-endpoint model of C07 (starting sequence numbers 0, as for a
    fresh session) without application reads / forged packets at endpoint B, and let the trace of session object `sid`
    in the multi-session history `ops` be what reaches B in `evs` (`bTrace`, ghost fields erased).  Then the queue pair
    of `sid` is endpoint B: same next numbers, same future list, same duplicate / acknowledgement caches, same
    out-queue, and its in-buffer is everything B has released. -/
theorem C13_session_refines_queue_endpoint (cd : Codec) (hT : cd.Total) (hB : cd.Bytes) (dom : List Nat) (ops : List Op)
    (sid : Nat) (mtu : Nat) (evs : List Ev) (hplain : ∀ e ∈ evs, plainB e = true)
    (hpeer : sessTrace cd dom sid ops = (bTrace Cfg.gen mtu (init 0 0) evs).map eraseB) :
    R ((run cd dom Srv.init ops).sess sid).q (runS Cfg.gen mtu (init 0 0) evs).b ∧
    expectedAns (({} : SA.DnsServer.InQ), ({} : SA.DnsServer.OutQ)) (sessTrace cd dom sid ops)
      = (respTrace Cfg.gen (init 0 0).b (bTrace Cfg.gen mtu (init 0 0) evs)).map ansOfResp := by
  have hseq : ∀ x ∈ bTrace Cfg.gen mtu (init 0 0) evs, SeqOk (eraseB x) := by
    intro x hx
    apply seqOk_trace_from cd hT hB dom sid ops Srv.init
    show eraseB x ∈ sessTrace cd dom sid ops
    rw [hpeer]; exact List.mem_map_of_mem hx
  have hsim := trace_sim _ _ _ R_init hseq
  rw [C13_session_queues_own_trace cd hT, hpeer, bstep_run Cfg.gen mtu evs _ hplain]
  exact hsim

open SA.Queue in
/-- **streams only own peer** (C13 composed with C07).  Take ANY history `ops` of the multi-session server and any
    session object `sid`.  Suppose the packet requests that carried `sid`'s identifier from `sid`'s owner while `sid` was
    live, together with the application's Writes on `sid`, are what a C07 client produces: there is a well-bounded
    two-endpoint history `evs` (exchanges delivered, lost either way, duplicated, replayed up to K exchanges late) whose
    B-side trace is `sid`'s trace.  Nothing is assumed about the rest of `ops`.  Then

    1. the bytes released to the reader of `sid`'s connection object are a prefix of the bytes the client application
       wrote (no gap, repeat, reordering — and no byte of any other session or address);
    2. the bytes the client has released are a prefix of the bytes the server application wrote to `sid`'s connection
       object (`writtenOf` the trace) — no byte written to another session's object;
    3. both are equalities once the respective out-queue is empty;
    4. every answer the server gave to those packet requests is the response the C07 endpoint computes, or nothing. -/
theorem C13_streams_only_own_peer (cd : Codec) (hT : cd.Total) (hB : cd.Bytes) (dom : List Nat) (ops : List Op)
    (sid : Nat) (mtu K Bd : Nat) (evs : List Ev) (hwb : WellBounded Cfg.gen mtu K Bd evs)
    (hplain : ∀ e ∈ evs, plainB e = true)
    (hpeer : sessTrace cd dom sid ops = (bTrace Cfg.gen mtu (init 0 0) evs).map eraseB) :
    ((run cd dom Srv.init ops).sess sid).inq.buf <+: (runS Cfg.gen mtu (init 0 0) evs).a.acc ∧
    (runS Cfg.gen mtu (init 0 0) evs).a.inq.rel <+: writtenOf (sessTrace cd dom sid ops) ∧
    ((runS Cfg.gen mtu (init 0 0) evs).a.outq.out = [] →
      ((run cd dom Srv.init ops).sess sid).inq.buf = (runS Cfg.gen mtu (init 0 0) evs).a.acc) ∧
    (((run cd dom Srv.init ops).sess sid).outq.out = [] →
      (runS Cfg.gen mtu (init 0 0) evs).a.inq.rel = writtenOf (sessTrace cd dom sid ops)) ∧
    Pointwise (fun a r => a = .drop ∨ a = ansOfResp r) (ansTrace cd dom sid ops)
      (respTrace Cfg.gen (init 0 0).b (bTrace Cfg.gen mtu (init 0 0) evs)) := by
  obtain ⟨hR, hans⟩ := C13_session_refines_queue_endpoint cd hT hB dom ops sid mtu evs hplain hpeer
  have hsafe := C07_safety 0 0 mtu K Bd evs (by decide) (by decide) hwb
  have hdel := C07_write_ok_delivered 0 0 mtu K Bd evs (by decide) (by decide) hwb
  have hacc : (runS Cfg.gen mtu (init 0 0) evs).b.acc = writtenOf (sessTrace cd dom sid ops) := by
    rw [bstep_run Cfg.gen mtu evs _ hplain, acc_trace, hpeer]
    simp [init, End.acc]
  have hbuf : ((run cd dom Srv.init ops).sess sid).inq.buf = (runS Cfg.gen mtu (init 0 0) evs).b.inq.rel := hR.1.buf
  have hout : ((run cd dom Srv.init ops).sess sid).outq.out = (runS Cfg.gen mtu (init 0 0) evs).b.outq.out.map ofPkt :=
    hR.2.out
  refine ⟨by rw [hbuf]; exact hsafe.1, by rw [← hacc]; exact hsafe.2, ?_, ?_, ?_⟩
  · intro h0; rw [hbuf]; exact hdel.1 h0
  · intro h0
    rw [← hacc]
    apply hdel.2
    rw [hout] at h0
    simpa using h0
  · have h1 := C13_answers_own_trace cd hT dom ops sid
    rw [hans] at h1
    exact pointwise_map_right ansOfResp h1

/-! ## provenance, with no assumption on the peer -/

/-- **provenance** (owner arbitrary, e.g. hostile or buggy): after ANY history, the bytes released to the reader of
    session object `sid` are a concatenation of payloads of packets of `sid`'s own trace (requests that carried its
    identifier, from its owner, while it was live); the packets parked out of order are such payloads; and every chunk
    queued for — hence every chunk ever handed out in an answer to — the owner is a chunk of a Write of the application
    on `sid`.  No byte of a request for another identifier, from another address, or for a stale identifier, and no
    byte written to another connection object, is in `sid`'s queues. -/
theorem C13_stream_bytes_provenance (cd : Codec) (hT : cd.Total) (dom : List Nat) (ops : List Op) (sid : Nat) :
    (∃ L : List (List Nat), ((run cd dom Srv.init ops).sess sid).inq.buf = L.flatten ∧
        ∀ x ∈ L, x ∈ payloadsOf (sessTrace cd dom sid ops)) ∧
    (∀ f ∈ ((run cd dom Srv.init ops).sess sid).inq.future, f.2 ∈ payloadsOf (sessTrace cd dom sid ops)) ∧
    (∀ c ∈ ((run cd dom Srv.init ops).sess sid).outq.out, c.2 ∈ chunksOf (sessTrace cd dom sid ops)) := by
  have h := trace_prov (sessTrace cd dom sid ops) [] [] _ prov_init
  rw [← C13_session_queues_own_trace cd hT dom ops sid] at h
  simp only [List.nil_append] at h
  exact ⟨h.buf, h.fut, h.out⟩

/-! ## non-vacuity: a history with two sessions, a spoofer, a stale identifier and application writes -/

def exDom : List Nat := [116, 46, 99, 111]
def exSfx : List Nat := [46, 116, 46, 99, 111, 46]

/-- oracle codec: what the decoder returns for the four bodies of the history -/
def exTable : List (Nat × List Nat × Option (List Nat)) :=
  [(84, [120], some [0, 16, 0, 0]),               -- "x": version 4096
   (84, [112], some [255, 255, 1, 0, 0, 7, 8]),   -- "p": ack 65535, packet #0 = 07 08
   (84, [113], some [255, 255, 1, 0, 0, 66]),     -- "q": ack 65535, packet #0 = 42
   (84, [114], some [255, 255, 0])]               -- "r": ack 65535, no packet (poll)

def exCodec : Codec := oracleCodec exTable

def vName : List Nat := [118, 97, 97, 97, 120] ++ exSfx
def pName (u b : Nat) : List Nat := [99, 97, 97, 97, 48, 48 + u, b] ++ exSfx

def exOps : List Op :=
  [.msg { addr := 1, qtype := 16, name := vName },          -- address 1 opens session object 0 (id 0)
   .msg { addr := 2, qtype := 16, name := vName },          -- address 2 opens session object 1 (id 1)
   .msg { addr := 3, qtype := 16, name := pName 0 113 },    -- spoofer: id 0 from address 3, payload 42
   .msg { addr := 1, qtype := 16, name := pName 0 112 },    -- owner of 0: packet #0 = 07 08
   .msg { addr := 2, qtype := 16, name := pName 1 113 },    -- owner of 1: packet #0 = 42
   .msg { addr := 2, qtype := 16, name := pName 0 113 },    -- owner of 1 names id 0
   .write 1 [9, 9],                                         -- application writes to object 1
   .write 0 [5, 6, 7],                                      -- application writes to object 0
   .close 1, .tick 200,
   .msg { addr := 2, qtype := 16, name := pName 1 113 },    -- stale identifier 1
   .msg { addr := 1, qtype := 16, name := pName 0 114 }]    -- owner of 0 polls and is handed 05 06 07

/-- the owner of session 0 as a C07 client: write 07 08, one delivered exchange; the server application writes
    05 06 07; one more delivered exchange -/
def exEvs : List SA.Queue.Ev := [.write false [7, 8], .xchg .d, .write true [5, 6, 7], .xchg .d]

theorem exCodec_total : exCodec.Total := fun _ _ => rfl

theorem oracle_bytes (tbl : List (Nat × List Nat × Option (List Nat)))
    (h : (tbl.all fun e => match e.2.2 with | some d => d.all (· < 256) | none => true) = true) :
    (oracleCodec tbl).Bytes := by
  intro c i d hd b hb
  simp only [oracleCodec] at hd
  cases hf : tbl.find? (fun e => e.1 == c && e.2.1 == i) with
  | none => simp [hf] at hd
  | some e =>
    simp only [hf] at hd
    have := List.all_eq_true.mp h e (List.mem_of_find?_eq_some hf)
    rw [hd] at this
    simp only [List.all_eq_true, decide_eq_true_eq] at this
    exact this b hb

theorem exCodec_bytes : exCodec.Bytes := oracle_bytes exTable (by decide)

/-- the trace of session object 0 is the B-side trace of the client history: the spoofed request, the requests of
    the other session's owner (for its own and for this identifier) and the write on the other object are not in it -/
theorem ex_peer : sessTrace exCodec exDom 0 exOps =
    (SA.Queue.bTrace SA.Queue.Cfg.gen SA.Gen.defaultDownstreamFragmentSize (SA.Queue.init 0 0) exEvs).map eraseB := by
  decide +kernel

example : sessTrace exCodec exDom 0 exOps = [.pkt 65535 (some (0, [7, 8])), .wr [5, 6, 7] [[5, 6, 7]], .pkt 65535 none] ∧
    sessTrace exCodec exDom 1 exOps = [.pkt 65535 (some (0, [66])), .wr [9, 9] [[9, 9]]] := by decide +kernel

example : SA.Queue.WellBounded SA.Queue.Cfg.gen SA.Gen.defaultDownstreamFragmentSize 0 1 exEvs := by decide

/-- all hypotheses of `C13_streams_only_own_peer` hold together on this history -/
example := C13_streams_only_own_peer exCodec exCodec_total exCodec_bytes exDom exOps 0 SA.Gen.defaultDownstreamFragmentSize 0 1
  exEvs (by decide) (by decide) ex_peer

/-- and its conclusion is not trivial: session 0 released 07 08 (not the spoofer's 42), session 1 released 42, and the
    chunk 05 06 07 written to object 0 was handed out — in the answer to the owner's poll -/
example : ((run exCodec exDom Srv.init exOps).sess 0).inq.buf = [7, 8] ∧
    ((run exCodec exDom Srv.init exOps).sess 1).inq.buf = [66] ∧
    ((run exCodec exDom Srv.init exOps).sess 0).outq.out = [(0, [5, 6, 7])] ∧
    writtenOf (sessTrace exCodec exDom 0 exOps) = [5, 6, 7] ∧ payloadsOf (sessTrace exCodec exDom 0 exOps) = [[7, 8]] := by
  decide +kernel

example := C13_stream_bytes_provenance exCodec exCodec_total exDom exOps 0
example := C13_same_trace_same_queues exCodec exCodec_total exDom exOps exOps 0 0 rfl

end SA.Props.C13

#print axioms SA.Props.C13.C13_session_queues_own_trace
#print axioms SA.Props.C13.C13_same_trace_same_queues
#print axioms SA.Props.C13.C13_answers_own_trace
#print axioms SA.Props.C13.C13_session_refines_queue_endpoint
#print axioms SA.Props.C13.C13_streams_only_own_peer
#print axioms SA.Props.C13.C13_stream_bytes_provenance

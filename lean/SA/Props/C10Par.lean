/-
  C10, continued — several responses at the same moment.

  The DNS server forms the answer to every query on that query's goroutine; all sessions share the
  downstream codec singletons (`enc.Base32Encoding … enc.RawEncoding`), `wrap.go`'s helpers, the command
  table and the serializers (plain struct values), and a client process may run several tunnel
  connections side by side.  C10 is stated per response; for it to be a property of the running server
  the response path must be a function of the one response also while others are being encoded, wrapped,
  unwrapped and decoded.

  In the model that is true by construction (`roundTrip` is a function, a batch is `List.map`); the
  theorems below put it on the books and combine it with `C10_no_silent_corruption`.  The tie to the Go
  code is the `par` op of the `dnsresp` component (G goroutines released together, the listed responses
  through the real serializer / wrap / Pack / Unpack / unwrap / Decode again and again, every result
  compared with the same response processed alone — which is what this model computes).
-/
import SA.Props.C10
namespace SA.DnsResp
open SA.DnsWire SA.WireCodec SA.DnsReq

/-- one answer in flight -/
structure Answer where
  down : Codec
  t : RRType
  domain : List Nat
  r : Resp

/-- the model of a batch handled concurrently, under any interleaving: the single outcomes -/
def roundTripBatch (b32 : Codec) (as : List Answer) : List Outcome :=
  as.map (fun a => roundTrip b32 a.down a.t a.domain a.r)

/-- **C10, batches are pointwise**: the outcome at any position is the outcome of that response alone,
    whatever stands before and after it -/
theorem C10_batch_pointwise (b32 : Codec) (pre post : List Answer) (a : Answer) :
    (roundTripBatch b32 (pre ++ a :: post))[pre.length]? = some (roundTrip b32 a.down a.t a.domain a.r) := by
  simp [roundTripBatch]

theorem C10_batch_index (b32 : Codec) (as : List Answer) (i : Nat) (h : i < as.length) :
    (roundTripBatch b32 as)[i]? = some (roundTrip b32 as[i].down as[i].t as[i].domain as[i].r) := by
  simp [roundTripBatch, h]

/-- **C10 for concurrent responses**: if every member of a batch meets the hypotheses of
    `C10_no_silent_corruption`, every member's client gets the response sent to it or a reported error —
    never another member's (or any other) response, never a panic. -/
theorem C10_concurrent_no_silent_corruption (b32 : Codec) (hb : b32.Good) (as : List Answer)
    (ha : ∀ a ∈ as, a.down.Good ∧ RespOk a.r ∧ questionOk a.domain = true
        ∧ SA.Bytes (encodeResp b32 a.down a.r)
        ∧ C10_exception a.t (encodeResp b32 a.down a.r) = false
        ∧ (∃ dls, isName a.t = true → DomainOk a.domain dls)
        ∧ C10_countOk a.t a.domain.length (encodeResp b32 a.down a.r).length = true) :
    ∀ i (h : i < as.length), ∃ o, (roundTripBatch b32 as)[i]? = some o ∧
      (match o with
       | .ok _ _ r' => r' = as[i].r
       | .panic => False
       | _ => True) := by
  intro i h
  obtain ⟨hd, hr, hq, hbytes, hexc, ⟨dls, hdom⟩, hcount⟩ := ha as[i] (List.getElem_mem h)
  exact ⟨_, C10_batch_index b32 as i h,
    C10_no_silent_corruption b32 as[i].down hb hd as[i].t as[i].domain dls as[i].r hr hq hbytes hexc hdom hcount⟩

/-- **the `par` op of the line protocol is the map of the single ops**, independent of the number of
    goroutines and repetitions -/
theorem C10_par_op_pointwise (g iters : String) (rest : List String)
    (hg : g.toNat?.isSome) (hi : iters.toNat?.isSome)
    (hops : (splitOps rest).all (fun o => !o.isEmpty && o.head? != some "par")) :
    handle ("par" :: g :: iters :: rest) = String.intercalate " ; " ((splitOps rest).map handleOne) := by
  have h1 : g.toNat?.isNone = false := by cases h : g.toNat? <;> simp_all
  have h2 : iters.toNat?.isNone = false := by cases h : iters.toNat? <;> simp_all
  have h3 : (splitOps rest).any (fun o => o.isEmpty || o.head? == some "par") = false := by
    rw [List.any_eq_false]
    intro o ho
    have := List.all_eq_true.mp hops o ho
    simp only [Bool.and_eq_true, Bool.not_eq_eq_eq_not, Bool.not_true, bne_iff_ne, ne_eq] at this
    simp [this.1, this.2]
  simp only [handle, handleBatch, h1, h2, h3, Bool.or_self, Bool.false_eq_true, if_false]

-- non-vacuity: two users' packets over different record types and codecs, each decoded as sent
example :
    let a1 : Answer := ⟨raw, .txt, [97, 46, 98], .packet none 1 (some (2, [34, 92, 0, 250, 46]))⟩
    let a2 : Answer := ⟨base32, .null, [97, 46, 98], .packet none 7 (some (9, [1, 2, 3]))⟩
    ((roundTripBatch base32 [a1, a2]).map (fun o => match o with | .ok _ _ r => some r | _ => none))
      = [some a1.r, some a2.r] := by decide

end SA.DnsResp

#print axioms SA.DnsResp.C10_batch_pointwise
#print axioms SA.DnsResp.C10_batch_index
#print axioms SA.DnsResp.C10_concurrent_no_silent_corruption
#print axioms SA.DnsResp.C10_par_op_pointwise

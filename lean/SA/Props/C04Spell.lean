/-
  C04, per upstream scheme spelling (model SA.Model.SecSpell, harness go/harness/c04_spell.go): the scheme the user
  wrote, the transport really dialled and what the handshake is told never disagree about encryption.
-/
import SA.Model.SecSpell
namespace SA.Security
open SA.Handshake

/-! ### per scheme SPELLING: what the user wrote, what is dialled, what the handshake is told -/

/-- Bool-valued statement of honesty for one spelling: it is in the switch, and when its Connect does not fail outright
    the `secure` argument (both values of mustSecure) is true only if the transport dialled is TLS, a spelling that says
    TLS dials TLS, and a datagram carrier (udp, dns) never counts as a TLS transport -/
def spellHonest (k : Schemes.Str) : Bool :=
  match Schemes.lookup (Schemes.tableOf .upstream) k with
  | none => false
  | some ctor =>
    let r := Schemes.runOf .upstream ctor k
    r.failed ||
      ((!spellArg ctor r false || r.tls) && (!spellArg ctor r true || r.tls) && (!spellTls k || r.tls) &&
       (!(ctor == "Packet" || ctor == "Dns") || !r.tls))

/-- **for every spelling the upstream parser accepts, the handshake is told "secure" only when the transport really
    dialled is TLS, and a spelling that says TLS (`+tls`, https, wss) dials TLS** (regenerated: the parser's switch,
    the `+tls` chains of every Connect as C18 interprets them, and the class of the `secure` argument). -/
theorem C04_spelling_flag_honest :
    ∀ k ∈ Schemes.keysOf (Schemes.tableOf .upstream), spellHonest k.toList = true := by
  decide

/-- **the handshake part of a cell is safe whenever the flag is honest**: for every combination (datagram carrier,
    non-verifying kind, dialled TLS, flag, server TLS, server certificate, require-security, certificate verdict) with
    `flag → dialled TLS`, `says TLS → dialled TLS` and `datagram → not TLS`, the five clauses hold (complete finite
    table, kernel-evaluated on the rendered handshake messages). -/
theorem C04_cell_safe_of_honest_flag :
    ∀ datagram noVerify dialTls s0 saysTls stls scert must acc : Bool,
      (!s0 || dialTls) = true → (!saysTls || dialTls) = true → (!datagram || !dialTls) = true →
      cellSafe2 saysTls stls scert must (cellCore2 datagram noVerify dialTls s0 stls scert must acc) = true := by
  decide +kernel

/-- **the end-to-end grid over every spelling** (model of the second `seckinds` op form): for every spelling of the
    regenerated upstream switch, server plain / TLS, with / without certificate, require-security, every client
    certificate configuration: (1) require-security => secure, TLS-protected (StartTLS or a TLS record first on the
    wire), echo, payload not in clear; (2) StartTLS offered on an unencrypted carrier => tls + secure; (3) secure =>
    not in clear; (4) secure "underlying" => the first byte on the wire is a TLS record; (5) the spelling says TLS =>
    the first byte on the wire is a TLS record. -/
theorem C04_spelling_grid_never_plaintext :
    ∀ k ∈ Schemes.keysOf (Schemes.tableOf .upstream), ∀ stls scert must insecure ca : Bool,
      cellSafe2 (spellTls k.toList) stls scert must (cellSpell k.toList stls scert must insecure ca) = true := by
  intro k hk stls scert must insecure ca
  have h := C04_spelling_flag_honest k hk
  unfold spellHonest at h
  unfold cellSpell cellSpellAcc
  split at h
  · exact absurd h (by decide)
  · rename_i ctor heq
    simp only [heq]
    split
    · rfl
    · split
      · rfl
      · split
        · rfl
        · rename_i hf
          simp only [Bool.or_eq_true, not_or] at hf
          have hfail : (Schemes.runOf .upstream ctor k.toList).failed = false := by
            cases hx : (Schemes.runOf .upstream ctor k.toList).failed <;> simp_all
          simp only [hfail, Bool.false_or, Bool.and_eq_true] at h
          obtain ⟨⟨⟨h0, h1⟩, h2⟩, h3⟩ := h
          apply C04_cell_safe_of_honest_flag
          · cases must
            · exact h0
            · exact h1
          · exact h2
          · exact h3

/-! ### non-vacuity -/

/-- spellings: https against a TLS server is "underlying" with a TLS record first on the wire; ws against a plain server
    with a certificate negotiates StartTLS; wss against a plain server has no session; `ws+tls` is not a spelling -/
example : cellSpell "https".toList true true true false true = .est .underlying true true false (some true) := by decide +kernel
example : cellSpell "ws".toList false true true false true = .est .tls true true false (some false) := by decide +kernel
example : cellSpell "wss".toList false true true true false = .refused := by decide +kernel
example : cellSpell "ws+tls".toList false true true true false = .badscheme := by decide +kernel
example : cellSafe2 true false true true (.est .underlying true true true (some false)) = false := by decide

end SA.Security

#print axioms SA.Security.C04_spelling_flag_honest
#print axioms SA.Security.C04_cell_safe_of_honest_flag
#print axioms SA.Security.C04_spelling_grid_never_plaintext

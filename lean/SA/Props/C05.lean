/-
  C05 — Peer authentication is enforced as configured.

  Property theorems only; helper lemmas are in SA.Proofs.TlsConfig.  The model
  (SA.Model.TlsConfig) mirrors cert.go / startTls / the upstream kinds and takes the decisive
  shapes of the source from SA.Gen (regenerated on every run), so every theorem below is
  re-checked against what the code says now:

    SA.Gen.serverAuthGuardErrNil   polarity of the guard around `conf.ClientAuth = …`
    SA.Gen.isvSites                every site that sets InsecureSkipVerify
    SA.Gen.startTlsStripsPort      whether startTls names the host without the port
    SA.Gen.socketDialSetsHostname  whether Socket.Connect names the upstream host for tls.Dial
    SA.Gen.pbkdf2Args{Client,Server}, secretDerivation…, pbkdf2KeyLen…

  crypto/tls and crypto/x509 are not modelled.  Their documented contract is the universally
  quantified record `X : X509` (chain building, validity, host-name matching) together with
  `clientAccepts` / `serverAdmits` (verification is skipped iff InsecureSkipVerify; a client
  certificate chaining to ClientCAs is demanded iff ClientAuth = RequireAndVerifyClientCert).
  It is a parameter of the theorems, never an axiom.
-/
import SA.Proofs.TlsConfig
import SA.Gen.PkgVars
namespace SA.TlsConfig

/-! ## 0. the trust anchors a pool starts from (used by every statement about RootCAs / ClientCAs below) -/

/-- the shape the model was written against: the pool assigned to RootCAs / ClientCAs is a function-local
    `x509.NewCertPool()` and receives only the PEM returned by `m.GetCaCertificates()` -/
theorem C05_ca_pool_shape :
    SA.Gen.caPoolStartsEmpty = true ∧ SA.Gen.caPoolInit = ["x509.NewCertPool()"] ∧
    SA.Gen.caPoolPemFrom = ["m.GetCaCertificates()"] ∧ poolSeed = [] := by
  decide

/-! ## 1. verification stays on unless the user chose `insecure` -/

/-- the inventory of InsecureSkipVerify sites is what the model was written against: the option
    in cert.go (set only when the flag is set, on the success path) and the documented stdio
    exception; no other file touches the field. -/
theorem C05_isv_site_inventory :
    SA.Gen.isvSites.map (fun s => (s.1, s.2.1)) =
      [("internal/client/upstream/input_output.go", "InputOutput.Connect"),
       ("internal/util/cert/cert.go", "ClientConfig.GetTlsConfig")] ∧
    SA.Gen.isvSites.lookup "internal/util/cert/cert.go" =
      some ("ClientConfig.GetTlsConfig", "true", "err == nil && m.InsecureSkipVerify") := by
  decide

/-- the inventory of ALL sites that set a verification-affecting field of a `tls.Config`
    (Time, VerifyPeerCertificate, VerifyConnection, InsecureSkipVerify, ClientAuth, RootCAs,
    ClientCAs, ServerName, GetConfigForClient — assignment or composite-literal element, anywhere in
    non-test code) is the list the model mirrors, site by site.  A new site (a clock of its own, a
    verification callback, a second pool assignment, …) breaks this obligation and names itself. -/
theorem C05_verification_field_inventory :
    SA.Gen.tlsVerifFieldSites = modelledVerifFieldSites := by
  decide

/-- hence no code path gives the config a clock of its own, a verification callback or a
    per-connection config: what `InsecureSkipVerify = false` / `RequireAndVerifyClientCert` mean is
    crypto/tls's own procedure evaluated at the wall clock (the `X509` contract of the theorems). -/
theorem C05_no_verification_override :
    ∀ s ∈ SA.Gen.tlsVerifFieldSites,
      s.2.2 ∈ ["InsecureSkipVerify", "ClientAuth", "RootCAs", "ClientCAs", "ServerName"] := by
  rw [C05_verification_field_inventory]; decide

/-- **no session-resumption state**: no site in non-test code gives a `tls.Config` state that lets crypto/tls skip
    the certificate exchange on a later connection - a `ClientSessionCache` that outlives the config (package-level,
    a field of the configuration object, …), fixed or shared session-ticket keys, ticket (un)wrapping callbacks.  The
    only tolerated shapes are a cache created by `tls.NewLRUClientSessionCache` for that one config inside a function
    (it dies with the config, which serves one connection), `nil`, and switching tickets off.  Hence the configs the model hands to crypto/tls carry
    no cache (`genFacts.sessionCache = none`), which is what `C05_history_independent` rests on. -/
theorem C05_session_state_inventory :
    (∀ s ∈ SA.Gen.tlsSessionStateSites,
      (s.2.2.1 = "ClientSessionCache" ∧ (s.2.2.2 = "percall" ∨ s.2.2.2 = "nil")) ∨
      (s.2.2.1 = "SessionTicketsDisabled" ∧ s.2.2.2 = "true")) ∧
    SA.Gen.clientSessionCacheShared = false ∧ genFacts.sessionCache = none := by
  decide

/-- the harness PKI's validity-boundary classes under the reference oracle: a certificate outside
    its validity period at the moment of use (expired 24 h / 60 s / 1 s ago, valid only from 120 s on)
    is refused by a verifying client whatever the carrier, and its holder is not admitted by a server
    that requires client certificates; the short-lived `fresh` certificate is inside its period.
    (Instances of `C05_auth_sound` / `C05_auth_sound_server`; these are the cells the matrix drives.) -/
theorem C05_validity_boundary_table :
    (∀ c ∈ ["expired", "exp1m", "exp1s", "notyet", "cexpired", "cexp1m", "cexp1s", "cnotyet"],
        refX509.validNow c = false) ∧
    (∀ c ∈ ["good", "fresh", "cgood", "cfresh"], refX509.validNow c = true) := by
  decide

/-- for every upstream kind except stdio+tls, the config handed to crypto/tls skips
    verification exactly when the `insecure` option is set -/
theorem C05_verify_on_unless_insecure (k : Kind) (hk : k ≠ .stdioTls) (o : Opts) (conf : TlsCfg)
    (h : clientCfgFor SA.Gen.isvSites k o = .ok conf) : conf.insecureSkipVerify = o.flag := by
  have hf : forcesInsecure SA.Gen.isvSites k = false := by
    cases k <;> first | exact absurd rfl hk | decide
  unfold clientCfgFor at h
  cases hc : clientGetTlsConfig o with
  | err e => simp [hc] at h
  | panic => simp [hc] at h
  | ok c =>
    simp only [hc, hf] at h
    cases h
    exact (client_ok C05_ca_pool_shape.2.2.2 hc).2.1

/-- the documented exception: stdio+tls never verifies -/
theorem C05_stdio_exception (o : Opts) (conf : TlsCfg)
    (h : clientCfgFor SA.Gen.isvSites .stdioTls o = .ok conf) : conf.insecureSkipVerify = true := by
  have hf : forcesInsecure SA.Gen.isvSites .stdioTls = true := by decide
  unfold clientCfgFor at h
  cases hc : clientGetTlsConfig o with
  | err e => simp [hc] at h
  | panic => simp [hc] at h
  | ok c =>
    simp only [hc, hf] at h
    cases h
    rfl

/-- the pool the server certificate is verified against is the configured CA -/
theorem C05_root_pool_is_configured_ca (k : Kind) (o : Opts) (conf : TlsCfg)
    (h : clientCfgFor SA.Gen.isvSites k o = .ok conf) : conf.rootCAs = caPool o := by
  unfold clientCfgFor at h
  cases hc : clientGetTlsConfig o with
  | err e => simp [hc] at h
  | panic => simp [hc] at h
  | ok c =>
    simp only [hc] at h
    split at h <;> cases h <;> exact (client_ok C05_ca_pool_shape.2.2.2 hc).1


/-! ## 1b. which trust anchors end up in the pools handed to crypto/tls

    `RootCAs` (what a verifying client accepts) and `ClientCAs` (what a server demanding client certificates
    admits) must hold the configured CA certificates and NOTHING else: not the operating system's roots, not a
    process-wide or cached pool, not the CAs of another configuration object, not the endpoint's own leaf.  The
    model's pool is `poolSeed ++ configured`, where `poolSeed` comes from the regenerated shape of
    `Config.addCaCertificates` (SA.Gen.caPool…): the theorems below hold because the seed is empty. -/

/-- the CA certificates the `ca-certificate[-file]` option names (specification side: read off the option) -/
def configuredAnchors (o : Opts) : List String :=
  match readSrc o.ca .cafile with
  | .ok (.cas ids) => ids
  | _ => []

/-- what the CA option denotes is exactly the configured certificates: a pool exists iff at least one CA
    certificate is configured, and then it lists those certificates and no other -/
theorem C05_ca_pool_exact (o : Opts) :
    (∀ pool, caPool o = some pool → pool = configuredAnchors o ∧ pool ≠ []) ∧
    (caPool o = none → configuredAnchors o = [] ∨ ∃ e, readSrc o.ca .cafile = .err e) := by
  unfold caPool configuredAnchors
  cases hr : readSrc o.ca .cafile with
  | err e => simp
  | panic => simp
  | ok b =>
    cases b with
    | cas ids =>
      cases ids with
      | nil => simp [parseCAs]
      | cons a as => simp [parseCAs]
    | nil => simp [parseCAs]
    | empty => simp [parseCAs]
    | garbage => simp [parseCAs]
    | cert id => simp [parseCAs]
    | key f e => simp [parseCAs]

/-- **the pools hold exactly the configured anchors**: in every configuration that loads (plain, client, server),
    RootCAs and ClientCAs are the same pool; when a pool is set it lists precisely the configured CA certificates;
    when none is set no CA certificate is configured (crypto/tls then verifies against the system store, its
    documented default). -/
theorem C05_pools_exactly_configured (o : Opts) (c : TlsCfg) (g : Bool)
    (h : configGetTlsConfig o = .ok c ∨ clientGetTlsConfig o = .ok c ∨ serverGetTlsConfig g o = .ok c) :
    c.clientCAs = caPool o ∧
    (∀ pool, c.clientCAs = some pool → pool = configuredAnchors o ∧ pool ≠ []) ∧
    (c.clientCAs = none → configuredAnchors o = []) ∧
    ((configGetTlsConfig o = .ok c ∨ clientGetTlsConfig o = .ok c) → c.rootCAs = c.clientCAs) := by
  have hex := C05_ca_pool_exact o
  have hload : ∃ c0, configGetTlsConfig o = .ok c0 := by
    rcases h with h | h | h
    · exact ⟨c, h⟩
    · obtain ⟨_, _, _, c0, h0, _⟩ := client_ok C05_ca_pool_shape.2.2.2 h; exact ⟨c0, h0⟩
    · obtain ⟨c0, h0, _⟩ := server_ok C05_ca_pool_shape.2.2.2 h; exact ⟨c0, h0⟩
  have hnoerr : ∀ e, readSrc o.ca .cafile ≠ .err e := by
    intro e he
    obtain ⟨c0, h0⟩ := hload
    unfold configGetTlsConfig at h0
    cases hk : getX509KeyPair o with
    | err e' => simp [hk] at h0
    | panic => simp [hk] at h0
    | ok crt =>
      simp only [hk] at h0
      unfold addCaCertificates addCaCertificatesFrom at h0
      simp [he] at h0
  have hcca : c.clientCAs = caPool o := by
    rcases h with h | h | h
    · exact (config_ok C05_ca_pool_shape.2.2.2 h).2.1
    · obtain ⟨_, _, _, c0, h0, _⟩ := client_ok C05_ca_pool_shape.2.2.2 h
      unfold clientGetTlsConfig at h
      simp only [h0] at h
      have := (config_ok C05_ca_pool_shape.2.2.2 h0).2.1
      split at h <;> cases h <;> exact this
    · obtain ⟨_, _, _, hc, _⟩ := server_ok C05_ca_pool_shape.2.2.2 h; exact hc
  refine ⟨hcca, ?_, ?_, ?_⟩
  · intro pool hp; exact hex.1 pool (hcca ▸ hp)
  · intro hn
    rcases hex.2 (hcca ▸ hn) with h0 | ⟨e, he⟩
    · exact h0
    · exact absurd he (hnoerr e)
  · intro h'
    rcases h' with h' | h'
    · rw [(config_ok C05_ca_pool_shape.2.2.2 h').1, (config_ok C05_ca_pool_shape.2.2.2 h').2.1]
    · rw [(client_ok C05_ca_pool_shape.2.2.2 h').1, hcca]

/-- the contract of crypto/x509 chain building this section relies on (a hypothesis, never an axiom): a chain
    accepted against a pool ends in ONE certificate of that pool -/
def Anchored (X : X509) : Prop :=
  ∀ pool c, X.chains (some pool) c = true → ∃ a, a ∈ pool ∧ X.chains (some [a]) c = true

/-! ## 2. the expected server name is the upstream host name, without the port -/

/-- well-formed upstream authority `h:p`: a non-bracketed host and a numeric port -/
def WfHostPort (h p : Name) : Prop := Plain h ∧ h ≠ [] ∧ p.all isDigit = true

/-- every upstream kind that verifies names the server by the host part of its address
    (`r` = whatever the address resolves to) -/
theorem C05_expected_name (k : Kind) (hk : k ≠ .stdioTls) (h p r : Name) (hw : WfHostPort h p) :
    nameFor genFacts k (h ++ ':' :: p) r = h := by
  obtain ⟨hh, hne, hp⟩ := hw
  have hs : genFacts.stripsPort = true := by decide
  have hd : genFacts.setsHostname = true := by decide
  cases k with
  | stdioTls => exact absurd rfl hk
  | startTls =>
    simp only [nameFor, hs]
    exact startTlsName_hostport h p hh (plain_of_digits hp)
  | httpTls => exact urlHostname_hostport h p hh hp
  | socketTls =>
    have he : (urlHostname (h ++ ':' :: p)).isEmpty = false := by
      rw [urlHostname_hostport h p hh hp]
      cases h with
      | nil => exact absurd rfl hne
      | cons _ _ => rfl
    simp only [nameFor, socketTlsName, hd, he, Bool.not_false, Bool.and_self, if_true]
    exact urlHostname_hostport h p hh hp

/-- StartTLS also handles any port text and a host given without port -/
theorem C05_expected_name_starttls (h p : Name) (hh : Plain h) (hp : Plain p) :
    startTlsName SA.Gen.startTlsStripsPort (h ++ ':' :: p) = h ∧
    startTlsName SA.Gen.startTlsStripsPort h = h := by
  have hs : SA.Gen.startTlsStripsPort = true := by decide
  rw [hs]
  refine ⟨startTlsName_hostport h p hh hp, ?_⟩
  have : splitHostPort h = none := by
    simp [splitHostPort, splitLastColon_none (fun c hc => (hh c hc).1)]
  simp [startTlsName, this]

/-! ## 3. the client-certificate requirement -/

/-- `require-client-cert` puts RequireAndVerifyClientCert and the configured CA pool into the
    server's TLS config (and nothing else does) -/
theorem C05_client_cert_required (o : Opts) (conf : TlsCfg)
    (h : serverGetTlsConfig SA.Gen.serverAuthGuardErrNil o = .ok conf) :
    (o.flag = true → conf.clientAuth = .requireAndVerifyClientCert ∧ conf.clientCAs = caPool o) ∧
    (o.flag = false → conf.clientAuth = .noClientCert) := by
  have hg : SA.Gen.serverAuthGuardErrNil = true := by decide
  obtain ⟨c0, _, _, hca, hauth⟩ := server_ok C05_ca_pool_shape.2.2.2 h
  rw [hg] at hauth
  constructor
  · intro hf; simp [hauth, hf, hca]
  · intro hf; simp [hauth, hf]

/-- the guard itself can no longer crash: ServerConfig.GetTlsConfig panics only where
    Config.GetTlsConfig already does -/
theorem C05_server_config_panic_free (o : Opts)
    (h : serverGetTlsConfig SA.Gen.serverAuthGuardErrNil o = .panic) : configGetTlsConfig o = .panic := by
  have hg : SA.Gen.serverAuthGuardErrNil = true := by decide
  rw [hg] at h
  unfold serverGetTlsConfig at h
  cases hc : configGetTlsConfig o with
  | panic => rfl
  | err e => simp [hc] at h
  | ok c =>
    simp only [hc] at h
    split at h <;> cases h

/-! ## 4. sessions, under the crypto/tls + crypto/x509 contract -/

/-- **soundness (client side)**: with verification on, a session is established only with a
    server whose certificate chains to the configured CA, is valid, and matches the upstream host
    name — for every verifying upstream kind, every option set, every oracle. -/
theorem C05_auth_sound (X : X509) (k : Kind) (hk : k ≠ .stdioTls) (h p r : Name) (hw : WfHostPort h p)
    (co so : Opts) (hins : co.flag = false)
    (he : established X genFacts k (h ++ ':' :: p) r co so = true) :
    ∃ scfg peer, serverGetTlsConfig SA.Gen.serverAuthGuardErrNil so = .ok scfg ∧ scfg.certs.head? = some peer ∧
      X.chains (caPool co) peer = true ∧ X.validNow peer = true ∧ X.matchesName h peer = true := by
  unfold established at he
  cases hc : clientCfgFor genFacts.sites k co with
  | err e => simp [hc] at he
  | panic => simp [hc] at he
  | ok ccfg =>
    cases hs : serverGetTlsConfig genFacts.guardErrNil so with
    | err e => simp [hc, hs] at he
    | panic => simp [hc, hs] at he
    | ok scfg =>
      simp only [hc, hs] at he
      cases hp : scfg.certs.head? with
      | none => simp [hp] at he
      | some peer =>
        simp only [hp, Bool.and_eq_true] at he
        have hisv : ccfg.insecureSkipVerify = false := by
          rw [C05_verify_on_unless_insecure k hk co ccfg hc, hins]
        have hroot : ccfg.rootCAs = caPool co := C05_root_pool_is_configured_ca k co ccfg hc
        have hname := C05_expected_name k hk h p r hw
        have h1 := he.1
        simp only [clientAccepts, hisv, Bool.false_or, hroot, hname, Bool.and_eq_true] at h1
        exact ⟨scfg, peer, hs, hp, h1.1.1.2, h1.1.2, h1.2⟩

/-- **soundness (server side)**: a server configured to require client certificates admits
    only a client presenting a valid certificate that chains to the server's configured CA —
    every carrier (also stdio+tls), whatever the client's `insecure` flag. -/
theorem C05_auth_sound_server (X : X509) (k : Kind) (hostport r : Name) (co so : Opts) (hreq : so.flag = true)
    (he : established X genFacts k hostport r co so = true) :
    ∃ ccfg c, clientCfgFor SA.Gen.isvSites k co = .ok ccfg ∧ ccfg.certs.head? = some c ∧
      X.chains (caPool so) c = true ∧ X.validNow c = true := by
  unfold established at he
  cases hc : clientCfgFor genFacts.sites k co with
  | err e => simp [hc] at he
  | panic => simp [hc] at he
  | ok ccfg =>
    cases hs : serverGetTlsConfig genFacts.guardErrNil so with
    | err e => simp [hc, hs] at he
    | panic => simp [hc, hs] at he
    | ok scfg =>
      simp only [hc, hs] at he
      cases hp : scfg.certs.head? with
      | none => simp [hp] at he
      | some peer =>
        simp only [hp, Bool.and_eq_true] at he
        have hr := (C05_client_cert_required so scfg hs).1 hreq
        have h2 := he.2
        simp only [serverAdmits, hr.1, hr.2] at h2
        cases hcc : ccfg.certs.head? with
        | none => simp [hcc] at h2
        | some c =>
          simp only [hcc, Bool.and_eq_true] at h2
          exact ⟨ccfg, c, hc, hcc, h2.1, h2.2⟩

/-- **completeness**: a client (verification on or off) does establish the session with a
    server whose certificate chains to the client's configured CA, is valid and matches the
    upstream host name, provided the server's own requirement on the client is met. -/
theorem C05_auth_complete (X : X509) (k : Kind) (hk : k ≠ .stdioTls) (h p r : Name) (hw : WfHostPort h p)
    (co so : Opts) (ccfg scfg : TlsCfg) (peer : String)
    (hc : clientGetTlsConfig co = .ok ccfg) (hs : configGetTlsConfig so = .ok scfg)
    (hpeer : scfg.certs.head? = some peer)
    (hchain : X.chains (caPool co) peer = true) (hvalid : X.validNow peer = true)
    (hmatch : X.matchesName h peer = true)
    (hcli : so.flag = false ∨
      ∃ c, ccfg.certs.head? = some c ∧ X.chains (caPool so) c = true ∧ X.validNow c = true) :
    established X genFacts k (h ++ ':' :: p) r co so = true := by
  have hf : forcesInsecure genFacts.sites k = false := by
    cases k <;> first | exact absurd rfl hk | decide
  have hg : genFacts.guardErrNil = true := by decide
  have hname := C05_expected_name k hk h p r hw
  have hcc := client_ok C05_ca_pool_shape.2.2.2 hc
  have hsc := config_ok C05_ca_pool_shape.2.2.2 hs
  unfold established
  simp only [clientCfgFor, hc, hf, serverGetTlsConfig, hs, hg, Bool.true_and]
  cases hfl : so.flag with
  | false =>
    simp [hpeer, clientAccepts, serverAdmits, hname, hcc.1, hchain, hvalid, hmatch, hsc.2.2.2.1, hw.2.1]
  | true =>
    rcases hcli with hno | ⟨c, hcert, hch, hv⟩
    · rw [hfl] at hno; cases hno
    · simp [hpeer, clientAccepts, serverAdmits, hname, hcc.1, hchain, hvalid, hmatch, hcert, hsc.2.1, hch, hv, hw.2.1]

/-! ## 4b. host forms outside `WfHostPort`: port-only, IPv6 literals, trailing dot, upper case, userinfo

    `C05_auth_sound` speaks about `h:p` with a plain non-empty `h`.  For EVERY authority string whatsoever the model
    derives one name per kind (`nameFor`); a verified session exists only if that derived name is non-empty and the
    certificate matches it - there is no host form for which verification is silently switched off. -/

/-- **soundness for any host form**: whatever the upstream authority looks like, a session established with
    verification on means the server certificate chains to the configured CA, is valid, and matches the name the kind
    derives from the authority - which is not the empty string. -/
theorem C05_auth_sound_any_host (X : X509) (k : Kind) (hk : k ≠ .stdioTls) (hostport r : Name)
    (co so : Opts) (hins : co.flag = false)
    (he : established X genFacts k hostport r co so = true) :
    nameFor genFacts k hostport r ≠ [] ∧
    ∃ scfg peer, serverGetTlsConfig SA.Gen.serverAuthGuardErrNil so = .ok scfg ∧ scfg.certs.head? = some peer ∧
      X.chains (caPool co) peer = true ∧ X.validNow peer = true ∧
      X.matchesName (nameFor genFacts k hostport r) peer = true := by
  unfold established at he
  cases hc : clientCfgFor genFacts.sites k co with
  | err e => simp [hc] at he
  | panic => simp [hc] at he
  | ok ccfg =>
    cases hs : serverGetTlsConfig genFacts.guardErrNil so with
    | err e => simp [hc, hs] at he
    | panic => simp [hc, hs] at he
    | ok scfg =>
      simp only [hc, hs] at he
      cases hp : scfg.certs.head? with
      | none => simp [hp] at he
      | some peer =>
        simp only [hp, Bool.and_eq_true] at he
        have hisv : ccfg.insecureSkipVerify = false := by
          rw [C05_verify_on_unless_insecure k hk co ccfg hc, hins]
        have hroot : ccfg.rootCAs = caPool co := C05_root_pool_is_configured_ca k co ccfg hc
        have h1 := he.1
        simp only [clientAccepts, hisv, Bool.false_or, hroot, Bool.and_eq_true] at h1
        refine ⟨?_, scfg, peer, hs, hp, h1.1.1.2, h1.1.2, h1.2⟩
        intro hempty
        have := h1.1.1.1
        simp [hempty] at this

/-- **a port-only upstream (`tcp://:9000`, `udp://:9000`, `ws://:8080/ws`, `wss://:443`, `tcp+tls://:9000`) has no
    name to match: with verification on no session is established**, for every oracle, option set and port, whatever
    the certificate of the server. -/
theorem C05_port_only_refused (X : X509) (k : Kind) (hk : k ≠ .stdioTls) (p : Name) (hp : p.all isDigit = true)
    (co so : Opts) (hins : co.flag = false) :
    established X genFacts k (':' :: p) (':' :: p) co so = false := by
  cases he : established X genFacts k (':' :: p) (':' :: p) co so with
  | false => rfl
  | true =>
    have hne := (C05_auth_sound_any_host X k hk (':' :: p) (':' :: p) co so hins he).1
    exfalso
    apply hne
    have hs : genFacts.stripsPort = true := by decide
    have hd : genFacts.setsHostname = true := by decide
    have hplain : Plain p := plain_of_digits hp
    cases k with
    | stdioTls => exact absurd rfl hk
    | startTls =>
      have := startTlsName_hostport [] p (by simp [Plain]) hplain
      simpa [nameFor, hs] using this
    | httpTls =>
      have := urlHostname_hostport [] p (by simp [Plain]) hp
      simpa [nameFor] using this
    | socketTls =>
      have hu : urlHostname (':' :: p) = [] := by
        have := urlHostname_hostport [] p (by simp [Plain]) hp
        simpa using this
      have hdl : dialHostname (':' :: p) = [] := by
        have := splitLastColon_append [] p (fun c hc => (hplain c hc).1)
        simp only [List.nil_append] at this
        simp [dialHostname, this]
      simp [nameFor, socketTlsName, hu, hdl]

/-- the name each kind derives for the host forms outside `WfHostPort` (what crypto/tls is asked to verify), and
    the reference oracle's reading of them: brackets are dropped by SplitHostPort / Hostname(), a zone stays in the
    name (and is no host name), upper case and a trailing dot are kept (x509 ignores them), a port-only authority
    gives the empty name -/
theorem C05_host_form_names :
    startTlsName SA.Gen.startTlsStripsPort ":9000".toList = [] ∧
    nameFor genFacts .socketTls ":9000".toList ":9000".toList = [] ∧
    nameFor genFacts .httpTls ":8080".toList ":8080".toList = [] ∧
    startTlsName SA.Gen.startTlsStripsPort "[::1]:443".toList = "::1".toList ∧
    nameFor genFacts .socketTls "[::1]:443".toList "[::1]:443".toList = "::1".toList ∧
    startTlsName SA.Gen.startTlsStripsPort "[::1%lo]:443".toList = "::1%lo".toList ∧
    startTlsName SA.Gen.startTlsStripsPort "::1:443".toList = "::1:443".toList ∧
    startTlsName SA.Gen.startTlsStripsPort "LOCALHOST.:443".toList = "LOCALHOST.".toList ∧
    refX509.matchesName "LOCALHOST.".toList "good" = true ∧ refX509.matchesName "::1".toList "good" = true ∧
    refX509.matchesName "[::ffff:127.0.0.1]".toList "iponly" = true ∧ refX509.matchesName "::1".toList "iponly" = false ∧
    refX509.matchesName "::1%lo".toList "good" = false ∧ refX509.matchesName "::1:443".toList "good" = false ∧
    refX509.matchesName "127.0.0.1.".toList "good" = false ∧ refX509.matchesName [] "good" = false := by
  decide

/-- non-vacuity: a verifying client against the `untrusted` (foreign CA) server at a port-only upstream is refused,
    the insecure client is served; `[::1]` with the good certificate is established -/
example : established refX509 genFacts .startTls ":4443".toList ":4443".toList
    { ca := ⟨none, some (.cas ["A"])⟩ } { cert := ⟨none, some (.cert "untrusted")⟩, key := ⟨none, some (.key "untrusted" .plain)⟩ } = false := by decide
example : established refX509 genFacts .startTls ":4443".toList ":4443".toList
    { ca := ⟨none, some (.cas ["A"])⟩, flag := true } { cert := ⟨none, some (.cert "untrusted")⟩, key := ⟨none, some (.key "untrusted" .plain)⟩ } = true := by decide
example : established refX509 genFacts .startTls "[::1]:4443".toList "[::1]:4443".toList
    { ca := ⟨none, some (.cas ["A"])⟩ } { cert := ⟨none, some (.cert "good")⟩, key := ⟨none, some (.key "good" .plain)⟩ } = true := by decide

/-! ## 4c. acceptance only via a configured trust anchor -/

/-- **acceptance only via a configured anchor (client side)**: for every authority string, every verifying kind,
    every option set that configures a CA and every oracle whose chains end in an anchor of the pool given: a
    session established with verification on means the server certificate chains to ONE OF THE CONFIGURED CA
    CERTIFICATES (and is valid and matches the derived name).  No other anchor - system root, cached pool,
    another object's CA - can have vouched for it. -/
theorem C05_auth_sound_configured_anchor (X : X509) (hX : Anchored X) (k : Kind) (hk : k ≠ .stdioTls)
    (hostport r : Name) (co so : Opts) (hins : co.flag = false) (hca : configuredAnchors co ≠ [])
    (he : established X genFacts k hostport r co so = true) :
    ∃ scfg peer a, serverGetTlsConfig SA.Gen.serverAuthGuardErrNil so = .ok scfg ∧ scfg.certs.head? = some peer ∧
      a ∈ configuredAnchors co ∧ X.chains (some [a]) peer = true ∧ X.validNow peer = true ∧
      X.matchesName (nameFor genFacts k hostport r) peer = true := by
  obtain ⟨_, scfg, peer, hs, hp, hch, hv, hm⟩ := C05_auth_sound_any_host X k hk hostport r co so hins he
  cases hpool : caPool co with
  | none =>
    rcases (C05_ca_pool_exact co).2 hpool with h0 | ⟨e, he'⟩
    · exact absurd h0 hca
    · exfalso; revert hca; unfold configuredAnchors; simp [he']
  | some pool =>
    rw [hpool] at hch
    obtain ⟨a, ha, hcha⟩ := hX pool peer hch
    have := ((C05_ca_pool_exact co).1 pool hpool).1
    exact ⟨scfg, peer, a, hs, hp, this ▸ ha, hcha, hv, hm⟩

/-- **acceptance only via a configured anchor (server side)**: a server that requires client certificates and
    configures a CA admits only a client whose certificate chains to one of the server's configured CA
    certificates - every carrier, whatever the client configures -/
theorem C05_auth_sound_server_configured_anchor (X : X509) (hX : Anchored X) (k : Kind) (hostport r : Name)
    (co so : Opts) (hreq : so.flag = true) (hca : configuredAnchors so ≠ [])
    (he : established X genFacts k hostport r co so = true) :
    ∃ ccfg c a, clientCfgFor SA.Gen.isvSites k co = .ok ccfg ∧ ccfg.certs.head? = some c ∧
      a ∈ configuredAnchors so ∧ X.chains (some [a]) c = true ∧ X.validNow c = true := by
  obtain ⟨ccfg, c, hc, hcc, hch, hv⟩ := C05_auth_sound_server X k hostport r co so hreq he
  cases hpool : caPool so with
  | none =>
    rcases (C05_ca_pool_exact so).2 hpool with h0 | ⟨e, he'⟩
    · exact absurd h0 hca
    · exfalso; revert hca; unfold configuredAnchors; simp [he']
  | some pool =>
    rw [hpool] at hch
    obtain ⟨a, ha, hcha⟩ := hX pool c hch
    have := ((C05_ca_pool_exact so).1 pool hpool).1
    exact ⟨ccfg, c, a, hc, hcc, this ▸ ha, hcha, hv⟩

/-- the reference oracle of the harness PKI satisfies the chain contract -/
theorem C05_ref_oracle_anchored : Anchored refX509 := by
  intro pool c h
  simp only [refX509] at h ⊢
  cases hl : certTable.lookup c with
  | none => simp [hl] at h
  | some a =>
    simp only [hl, List.contains_iff_mem] at h
    exact ⟨a.signer, h, by simp⟩

/-- the harness cells with a peer certified by the system CA S (configured nowhere): refused wherever a CA is
    configured on the verifying side, accepted exactly where none is (nil pool = the system store) -/
theorem C05_system_anchor_table :
    -- verifying client with CA A / CA B configured, server certified by S: refused; no CA configured: established
    established refX509 genFacts .startTls "server.test:4443".toList [] { ca := caSrcOf "A" } (leafSrc "sys" {}) = false ∧
    established refX509 genFacts .socketTls "localhost:4443".toList "127.0.0.1:4443".toList { ca := caSrcOf "B" } (leafSrc "sys" {}) = false ∧
    established refX509 genFacts .startTls "server.test:4443".toList [] { ca := caSrcOf "-" } (leafSrc "sys" {}) = true ∧
    established refX509 genFacts .startTls "server.test:4443".toList [] { ca := caSrcOf "-" } (leafSrc "good" {}) = false ∧
    -- server demanding client certificates with CA A configured, client certified by S: refused; CA-less server: admitted
    established refX509 genFacts .startTls "server.test:4443".toList [] (leafSrc "csys" { ca := caSrcOf "A" })
      (leafSrc "good" { ca := caSrcOf "A", flag := true }) = false ∧
    established refX509 genFacts .stdioTls [] [] (leafSrc "csys" { ca := caSrcOf "A" })
      (leafSrc "good" { ca := caSrcOf "A", flag := true }) = false ∧
    established refX509 genFacts .startTls "server.test:4443".toList [] (leafSrc "csys" { ca := caSrcOf "A" })
      (leafSrc "good" { ca := caSrcOf "-", flag := true }) = true ∧
    -- the two sides are configured with different CAs: each verifies by ITS OWN
    established refX509 genFacts .startTls "server.test:4443".toList [] (leafSrc "cgood" { ca := caSrcOf "A" })
      (leafSrc "good" { ca := caSrcOf "B", flag := true }) = false ∧
    established refX509 genFacts .startTls "server.test:4443".toList [] (leafSrc "cforeign" { ca := caSrcOf "A" })
      (leafSrc "good" { ca := caSrcOf "B", flag := true }) = true ∧
    established refX509 genFacts .startTls "server.test:4443".toList [] { ca := caSrcOf "A" }
      (leafSrc "untrusted" { ca := caSrcOf "B" }) = false := by
  decide

/-- the configuration `addCaCertificates` would build from a pool that already holds `seed` -/
def seededCfg (seed : List String) (o : Opts) : TlsCfg :=
  match addCaCertificatesFrom seed o {} with
  | .ok c => c
  | _ => {}

/-- **witness: a pool seeded with foreign anchors**.  Had the pool started from the system store (seed = [S])
    instead of `x509.NewCertPool()`, a client configured with CA A would accept a server certified by S and a
    server demanding client certificates with CA A would admit a client certified by S - with the empty seed both
    are refused.  Likewise a pool carried over from another configuration object (seed = [B]) accepts B's
    certificates.  (Reproduced on the real code: notes/C05.md, round 5.) -/
theorem C05_witness_seeded_pool_accepts_foreign :
    let o : Opts := { ca := caSrcOf "A" }
    clientAccepts refX509 { seededCfg sysAnchors o with serverName := "server.test".toList } "sys" = true ∧
    serverAdmits refX509 { seededCfg sysAnchors o with clientAuth := .requireAndVerifyClientCert } (some "csys") = true ∧
    clientAccepts refX509 { seededCfg ["B"] o with serverName := "server.test".toList } "untrusted" = true ∧
    serverAdmits refX509 { seededCfg ["B"] o with clientAuth := .requireAndVerifyClientCert } (some "cforeign") = true ∧
    clientAccepts refX509 { seededCfg [] o with serverName := "server.test".toList } "sys" = false ∧
    serverAdmits refX509 { seededCfg [] o with clientAuth := .requireAndVerifyClientCert } (some "csys") = false ∧
    clientAccepts refX509 { seededCfg [] o with serverName := "server.test".toList } "untrusted" = false ∧
    clientAccepts refX509 { seededCfg [] o with serverName := "server.test".toList } "good" = true ∧
    (seededCfg sysAnchors o).rootCAs = some ["S", "A"] ∧ (seededCfg [] o).rootCAs = some ["A"] := by
  decide

-- non-vacuity: the hypotheses of the anchor theorems are satisfiable (CA A configured, session established)
example : configuredAnchors { ca := caSrcOf "A" } = ["A"] ∧ configuredAnchors { ca := caSrcOf "-" } = [] ∧
    configuredAnchors { ca := ⟨some (some (.cas ["A", "B"])), some (.cas ["B"])⟩ } = ["A", "B"] := by decide
example : established refX509 genFacts .startTls "server.test:4443".toList [] (leafSrc "cgood" { ca := caSrcOf "A" })
    (leafSrc "good" { ca := caSrcOf "A", flag := true }) = true := by decide

/-! ## 5. the UDP shared secret -/

/-- both ends derive the cipher key by the same function of the password: identical pbkdf2
    argument lists and identical derivation of `pass`/`salt` (for every KDF and hash) -/
theorem C05_udp_secret_symmetric
    (kdf : List Nat → List Nat → String → String → List Nat) (sha : List Nat → List Nat) (pw : List Nat) :
    udpKey SA.Gen.pbkdf2ArgsClient kdf sha pw = udpKey SA.Gen.pbkdf2ArgsServer kdf sha pw ∧
    (udpKey SA.Gen.pbkdf2ArgsServer kdf sha pw).isSome = true ∧
    SA.Gen.secretDerivationClient = SA.Gen.secretDerivationServer ∧
    SA.Gen.pbkdf2KeyLenClient = SA.Gen.pbkdf2KeyLenServer ∧
    SA.Gen.cipherArgClient = "key" ∧ SA.Gen.cipherArgServer = "key" := by
  have ha : SA.Gen.pbkdf2ArgsClient = SA.Gen.pbkdf2ArgsServer := by decide
  refine ⟨by rw [ha], ?_, by decide, by decide, by decide, by decide⟩
  simp [udpKey, SA.Gen.pbkdf2ArgsServer]

/-- an endpoint protected by a secret never runs without the cipher (it is encrypted, or it
    does not start at all) — for every key length the source may name -/
theorem C05_udp_fail_closed (keyLen : Nat) (pw : List Nat) (hpw : pw ≠ []) :
    udpStart keyLen (some pw) ≠ .plain := by
  unfold udpStart
  cases pw with
  | nil => exact absurd rfl hpw
  | cons a as =>
    simp only [List.isEmpty_cons, Bool.false_eq_true, if_false]
    split <;> simp

/-- a protected server admits only clients whose key equals its own, i.e. (when the key
    derivation does not collide on the two passwords) clients holding the same secret -/
theorem C05_udp_admits_same_secret (keyLenS keyLenC : Nat) (keyOf : List Nat → Option (List Nat))
    (pwS : List Nat) (pwC : Option (List Nat)) (hpw : pwS ≠ [])
    (hinj : ∀ b, keyOf pwS = keyOf b → pwS = b)
    (h : udpAdmits keyLenS keyLenC keyOf (some pwS) pwC = true) : pwC = some pwS := by
  unfold udpAdmits at h
  have hs := C05_udp_fail_closed keyLenS pwS hpw
  cases hS : udpStart keyLenS (some pwS) with
  | plain => exact absurd hS hs
  | errAesKey => simp [hS] at h
  | encrypted =>
    cases hC : udpStart keyLenC pwC with
    | plain => simp [hS, hC] at h
    | errAesKey => simp [hS, hC] at h
    | encrypted =>
      cases pwC with
      | none => simp [hS, hC] at h
      | some b =>
        simp only [hS, hC, Bool.and_eq_true, beq_iff_eq] at h
        rw [hinj b h.2]

/-! ## 6. histories: fail-over lists, reconnects, several upstream kinds through ONE manager

    `Upstreams.open` tries every upstream of the list with the same certificate manager, a lost
    session is re-opened with it, and every upstream kind writes into the `*tls.Config` it gets
    (Socket.Connect: ServerName when empty; startTls: ServerName; stdin+tls: InsecureSkipVerify).
    `runHist` threads the manager's state through the attempts; whether that state can carry
    anything is the regenerated fact SA.Gen.getTlsConfigFreshPerCall. -/

/-- **history independence**: whatever was attempted before by this process (other hosts, other kinds, the SAME
    server endpoint under another configuration - another CA, another or no client certificate, verification off -,
    failed or established, through the one configuration object or through an object of its own, from any state of
    the object and whatever session tickets crypto/tls holds), what attempt `i` hands to crypto/tls and whether it
    is established are those of the attempt made alone — a function of the client options IN FORCE FOR THAT ATTEMPT
    and of upstream `i` only.  Holds for the fail-over walk and for connect / disconnect / connect.  Rests on two
    regenerated facts: every GetTlsConfig call builds a new object, and no session cache outlives a config. -/
theorem C05_history_independent (X : X509) (failover : Bool) (ss : List Step) (m : Mgr) (ts : List Ticket)
    (i : Nat) (out : Outcome)
    (h : (runHist X genFacts SA.Gen.getTlsConfigFreshPerCall failover ss m ts)[i]? = some (some out)) :
    ∃ s, ss[i]? = some s ∧ out = alone X genFacts s.co s.att := by
  have hf : SA.Gen.getTlsConfigFreshPerCall = true := by decide
  rw [hf] at h
  exact runHist_fresh X genFacts C05_session_state_inventory.2.2 failover ss m ts i out h

/-- without fail-over every attempt of the history is made -/
theorem C05_history_seq (X : X509) (ss : List Step) (m : Mgr) (ts : List Ticket) :
    runHist X genFacts SA.Gen.getTlsConfigFreshPerCall false ss m ts = ss.map (fun s => some (alone X genFacts s.co s.att)) := by
  have hf : SA.Gen.getTlsConfigFreshPerCall = true := by decide
  rw [hf]
  exact runHist_seq_fresh X genFacts C05_session_state_inventory.2.2 ss m ts

/-- the config an attempt hands to crypto/tls, for a verifying kind with a well-formed `h:p`:
    it names `h` and skips verification exactly when the option says so — at every position of
    every history -/
theorem C05_history_config (X : X509) (failover : Bool) (ss : List Step) (m : Mgr) (ts : List Ticket)
    (i : Nat) (out : Outcome) (co : Opts) (nm : Bool) (a : Attempt) (c : TlsCfg) (h p : Name) (hw : WfHostPort h p)
    (hr : (runHist X genFacts SA.Gen.getTlsConfigFreshPerCall failover ss m ts)[i]? = some (some out))
    (ha : ss[i]? = some ⟨co, nm, a⟩) (hk : a.kind ≠ .stdioTls) (hhp : a.hostport = h ++ ':' :: p) (hc : out.cfg = some c) :
    effName a.kind a.hostport a.resolved c = h ∧ c.insecureSkipVerify = co.flag ∧ c.rootCAs = caPool co := by
  obtain ⟨a', ha', hout⟩ := C05_history_independent X failover ss m ts i out hr
  rw [ha] at ha'
  cases ha'
  subst hout
  simp only [alone, attemptOn, mgrGet, if_true] at hc
  split at hc
  · cases hcl : clientGetTlsConfig co with
    | err e => simp [hcl] at hc
    | panic => simp [hcl] at hc
    | ok c0 =>
      simp only [hcl, Option.some.injEq] at hc
      have hok := client_ok C05_ca_pool_shape.2.2.2 hcl
      have hkw := kindWrites_fresh genFacts a.kind a.hostport a.resolved c0 hok.2.2.1
      have hfi : forcesInsecure genFacts.sites a.kind = false := by
        cases hkk : a.kind <;> first | exact absurd hkk hk | decide
      simp only [hfi, Bool.false_eq_true, if_false] at hkw
      rw [hc] at hkw
      have hname := C05_expected_name a.kind hk h p a.resolved hw
      have h1 := congrArg TlsCfg.serverName hkw.1
      have h2 := congrArg TlsCfg.insecureSkipVerify hkw.1
      have h3 := congrArg TlsCfg.rootCAs hkw.1
      simp only at h1 h2 h3
      rw [hhp]
      rw [hhp] at h1
      exact ⟨h1.trans hname, h2.trans hok.2.1, h3.trans hok.1⟩
  · simp at hc

/-- **soundness per attempt**: at any position of any history through one manager, with
    verification on, a session is established only with a server whose certificate chains to the
    configured CA, is valid, and matches the host name of THIS upstream -/
theorem C05_history_auth_sound (X : X509) (failover : Bool) (ss : List Step) (m : Mgr) (ts : List Ticket)
    (i : Nat) (out : Outcome) (co : Opts) (nm : Bool) (a : Attempt) (h p : Name) (hw : WfHostPort h p)
    (hr : (runHist X genFacts SA.Gen.getTlsConfigFreshPerCall failover ss m ts)[i]? = some (some out))
    (ha : ss[i]? = some ⟨co, nm, a⟩) (hk : a.kind ≠ .stdioTls) (hhp : a.hostport = h ++ ':' :: p)
    (hins : co.flag = false) (hest : out.est = true) :
    a.up = true ∧
    ∃ scfg peer, serverGetTlsConfig SA.Gen.serverAuthGuardErrNil a.so = .ok scfg ∧ scfg.certs.head? = some peer ∧
      X.chains (caPool co) peer = true ∧ X.validNow peer = true ∧ X.matchesName h peer = true := by
  obtain ⟨a', ha', hout⟩ := C05_history_independent X failover ss m ts i out hr
  rw [ha] at ha'
  cases ha'
  rw [hout, alone_est, Bool.and_eq_true, hhp] at hest
  exact ⟨hest.1, C05_auth_sound X a.kind hk h p a.resolved hw co a.so hins hest.2⟩

/-- **completeness per attempt**: every attempt that is made — at any position of any history — to
    a reachable server whose certificate is acceptable for THIS upstream's host name (and whose own
    requirement on the client is met) is established -/
theorem C05_history_auth_complete (X : X509) (failover : Bool) (ss : List Step) (m : Mgr) (ts : List Ticket)
    (i : Nat) (out : Outcome) (co : Opts) (nm : Bool) (a : Attempt) (h p : Name) (hw : WfHostPort h p)
    (hr : (runHist X genFacts SA.Gen.getTlsConfigFreshPerCall failover ss m ts)[i]? = some (some out))
    (ha : ss[i]? = some ⟨co, nm, a⟩) (hk : a.kind ≠ .stdioTls) (hhp : a.hostport = h ++ ':' :: p) (hup : a.up = true)
    (ccfg scfg : TlsCfg) (peer : String)
    (hc : clientGetTlsConfig co = .ok ccfg) (hs : configGetTlsConfig a.so = .ok scfg)
    (hpeer : scfg.certs.head? = some peer)
    (hchain : X.chains (caPool co) peer = true) (hvalid : X.validNow peer = true)
    (hmatch : X.matchesName h peer = true)
    (hcli : a.so.flag = false ∨
      ∃ c, ccfg.certs.head? = some c ∧ X.chains (caPool a.so) c = true ∧ X.validNow c = true) :
    out.est = true := by
  obtain ⟨a', ha', hout⟩ := C05_history_independent X failover ss m ts i out hr
  rw [ha] at ha'
  cases ha'
  rw [hout, alone_est, hup, Bool.true_and, hhp]
  exact C05_auth_complete X a.kind hk h p a.resolved hw co a.so ccfg scfg peer hc hs hpeer hchain hvalid hmatch hcli

/-! ## witnesses: the three defects found (kernel-checked on the model with the *other* value
    of the regenerated fact; each reproduced on the real code, see notes/C05.md) -/

/-- with the guard as it was (`err != nil`) a server with require-client-cert configured
    gets ClientAuth = NoClientCert … -/
theorem C05_witness_inverted_guard :
    ¬ (∀ o conf, serverGetTlsConfig false o = .ok conf → o.flag = true →
        conf.clientAuth = .requireAndVerifyClientCert) := by
  intro h
  have := h { flag := true } {} (by decide) rfl
  cases this

/-- … and admits a client that presents no certificate at all -/
theorem C05_witness_inverted_guard_admits :
    established refX509 { genFacts with guardErrNil := false } .startTls "server.test:4443".toList "server.test:4443".toList
      { ca := ⟨none, some (.cas ["A"])⟩ }
      (leafSrc "good" { ca := ⟨none, some (.cas ["A"])⟩, flag := true }) = true := by
  decide

/-- … and crashes when the configuration is unreadable -/
theorem C05_witness_inverted_guard_panics :
    serverGetTlsConfig false { ca := ⟨some none, none⟩, flag := true } = .panic := by decide

/-- with ServerName = cc.host (port included) the name handed to the verifier is not the host … -/
theorem C05_witness_port_in_name :
    startTlsName false "example.com:443".toList ≠ "example.com".toList := by decide

/-- … so a correctly certified server is refused on every StartTLS carrier -/
theorem C05_witness_port_in_name_refuses :
    established refX509 { genFacts with stripsPort := false } .startTls "server.test:4443".toList "server.test:4443".toList
      { ca := ⟨none, some (.cas ["A"])⟩ } (leafSrc "good" {}) = false := by
  decide

/-- when Socket.Connect leaves the name to tls.Dial, the resolved address is verified instead of
    the host name: a server certified for its DNS name only is refused -/
theorem C05_witness_resolved_name_refuses :
    established refX509 { genFacts with setsHostname := false } .socketTls "localhost:4443".toList "127.0.0.1:4443".toList
      { ca := ⟨none, some (.cas ["A"])⟩ } (leafSrc "nameonly" {}) = false := by
  decide


/-! ### what a manager that hands out the same object again would do (the other value of
    SA.Gen.getTlsConfigFreshPerCall; reproduced on the real code with such a manager, notes/C05.md) -/

/-- tcp+tls://localhost, up, presenting `backupCert` -/
def sharedWitnessBackup (backupCert : String) : Attempt :=
  { kind := .socketTls, hostport := "localhost:4443".toList, resolved := "127.0.0.1:4443".toList, up := true, so := leafSrc backupCert {} }

/-- the fail-over list [tcp+tls://127.0.0.1 (down), tcp+tls://localhost] -/
def sharedWitnessList (backupCert : String) : List Attempt :=
  [{ kind := .socketTls, hostport := "127.0.0.1:4443".toList, resolved := "127.0.0.1:4443".toList, up := false, so := leafSrc "good" {} },
   sharedWitnessBackup backupCert]

/-- the name of the first (failed) attempt sticks: a CA-signed certificate for 127.0.0.1 only is
    accepted for the upstream named `localhost` … -/
theorem C05_witness_shared_config_accepts_other_host :
    (runHist refX509 genFacts false true (stepsOf { ca := ⟨none, some (.cas ["A"])⟩ } (sharedWitnessList "iponly")) none []).map
        (Option.map (fun r => (r.est, r.cfg.map (·.serverName)))) =
      [some (false, some "127.0.0.1".toList), some (true, some "127.0.0.1".toList)] ∧
    (alone refX509 genFacts { ca := ⟨none, some (.cas ["A"])⟩ } (sharedWitnessBackup "iponly")).est = false := by
  decide

/-- … and the server properly certified for `localhost` is refused -/
theorem C05_witness_shared_config_refuses_certified :
    (runHist refX509 genFacts false true (stepsOf { ca := ⟨none, some (.cas ["A"])⟩ } (sharedWitnessList "nameonly")) none []).map
        (Option.map (·.est)) = [some false, some false] ∧
    (alone refX509 genFacts { ca := ⟨none, some (.cas ["A"])⟩ } (sharedWitnessBackup "nameonly")).est = true := by
  decide

/-- a stdin+tls attempt switches verification off for every later attempt: an untrusted server is accepted -/
theorem C05_witness_shared_config_stdio_leaks :
    (runHist refX509 genFacts false false (stepsOf { ca := ⟨none, some (.cas ["A"])⟩ }
        [{ kind := .stdioTls, hostport := [], resolved := [], up := true, so := leafSrc "good" {} },
         { kind := .startTls, hostport := "server.test:4443".toList, resolved := [], up := true, so := leafSrc "untrusted" {} }]) none []).map
        (Option.map (fun r => (r.est, r.cfg.map (·.insecureSkipVerify)))) =
      [some (true, some true), some (true, some true)] := by
  decide

/-! ### what a session cache that outlives the config would do (the other value of SA.Gen.clientSessionCacheShared;
    reproduced on the real code with `conf.ClientSessionCache = <package-level cache>` in ClientConfig.GetTlsConfig,
    notes/C05.md round 6) -/

/-- the facts of the code, except that client configs carry one process-wide session cache -/
def cacheFacts : Facts := { genFacts with sessionCache := some 0 }

/-- tcp+tls://localhost reaching the server instance `inst` (certificate `good`, CA A, client certificate required or not) -/
def sameEndpoint (req : Bool) (inst : String) (k : Kind := .socketTls) : Attempt :=
  { kind := k, hostport := "localhost:4443".toList, resolved := "127.0.0.1:4443".toList, up := true,
    so := leafSrc "good" { ca := caSrcOf "A", flag := req }, inst := inst }

/-- (a) the trusted CA is replaced between connect and reconnect: the client configured with CA B only still
    completes a session with the server certified by CA A - alone it is refused; without such a cache it is refused
    in the history as well -/
theorem C05_witness_session_cache_replaced_ca :
    (runHist refX509 cacheFacts true false
        [⟨{ ca := caSrcOf "A" }, false, sameEndpoint false "s"⟩, ⟨{ ca := caSrcOf "B" }, false, sameEndpoint false "s"⟩] none []).map
        (Option.map (·.est)) = [some true, some true] ∧
    (alone refX509 cacheFacts { ca := caSrcOf "B" } (sameEndpoint false "s")).est = false ∧
    (runHist refX509 { genFacts with sessionCache := none } true false
        [⟨{ ca := caSrcOf "A" }, false, sameEndpoint false "s"⟩, ⟨{ ca := caSrcOf "B" }, false, sameEndpoint false "s"⟩] none []).map
        (Option.map (·.est)) = [some true, some false] := by
  decide

/-- (b) a second configuration object of the same process, configured with a foreign CA, gets in as well -/
theorem C05_witness_session_cache_second_object :
    (runHist refX509 cacheFacts true false
        [⟨{ ca := caSrcOf "A" }, true, sameEndpoint false "s"⟩, ⟨{ ca := caSrcOf "B" }, true, sameEndpoint false "s"⟩] none []).map
        (Option.map (·.est)) = [some true, some true] := by
  decide

/-- (c) a client without a certificate is admitted by a server that requires one, once a client of the same process
    holding a valid certificate was admitted -/
theorem C05_witness_session_cache_no_client_cert :
    (runHist refX509 cacheFacts true false
        [⟨leafSrc "cgood" { ca := caSrcOf "A" }, false, sameEndpoint true "s"⟩, ⟨{ ca := caSrcOf "A" }, false, sameEndpoint true "s"⟩] none []).map
        (Option.map (·.est)) = [some true, some true] ∧
    (alone refX509 cacheFacts { ca := caSrcOf "A" } (sameEndpoint true "s")).est = false := by
  decide

/-- … while the first connection of any configuration, a restarted server (new ticket keys), a StartTLS carrier
    (server config per connection) and the order insecure → verifying are decided afresh even with such a cache -/
theorem C05_witness_session_cache_limits :
    (runHist refX509 cacheFacts true false [⟨{ ca := caSrcOf "B" }, false, sameEndpoint false "s"⟩] none []).map
        (Option.map (·.est)) = [some false] ∧
    (runHist refX509 cacheFacts true false
        [⟨{ ca := caSrcOf "A" }, false, sameEndpoint false "s"⟩, ⟨{ ca := caSrcOf "B" }, false, sameEndpoint false "s'"⟩] none []).map
        (Option.map (·.est)) = [some true, some false] ∧
    (runHist refX509 cacheFacts true false
        [⟨{ ca := caSrcOf "A" }, false, sameEndpoint false "s" .startTls⟩, ⟨{ ca := caSrcOf "B" }, false, sameEndpoint false "s" .startTls⟩] none []).map
        (Option.map (·.est)) = [some true, some false] ∧
    (runHist refX509 cacheFacts true false
        [⟨{ ca := caSrcOf "B", flag := true }, false, sameEndpoint false "s"⟩, ⟨{ ca := caSrcOf "B" }, false, sameEndpoint false "s"⟩] none []).map
        (Option.map (·.est)) = [some true, some false] := by
  decide

/-! ## non-vacuity -/

-- the hypotheses of the theorems are satisfiable, and the conclusions are what the real code shows
example : WfHostPort "server.test".toList "4443".toList := by
  refine ⟨?_, by decide, by decide⟩
  intro c hc
  revert c
  decide

example : clientCfgFor SA.Gen.isvSites .startTls { ca := ⟨none, some (.cas ["A"])⟩, flag := true }
    = .ok { rootCAs := some ["A"], clientCAs := some ["A"], insecureSkipVerify := true } := by decide

example : serverGetTlsConfig SA.Gen.serverAuthGuardErrNil (leafSrc "good" { ca := ⟨none, some (.cas ["A"])⟩, flag := true })
    = .ok { certs := ["good"], rootCAs := some ["A"], clientCAs := some ["A"], clientAuth := .requireAndVerifyClientCert } := by
  decide

-- established and refused cells of the matrix (reference oracle)
example : established refX509 genFacts .startTls "server.test:4443".toList "server.test:4443".toList
    { ca := ⟨none, some (.cas ["A"])⟩ } (leafSrc "good" {}) = true := by decide
example : established refX509 genFacts .startTls "server.test:4443".toList "server.test:4443".toList
    { ca := ⟨none, some (.cas ["A"])⟩ } (leafSrc "untrusted" {}) = false := by decide
example : established refX509 genFacts .socketTls "localhost:4443".toList "127.0.0.1:4443".toList
    { ca := ⟨none, some (.cas ["A"])⟩ } (leafSrc "nameonly" {}) = true := by decide
example : established refX509 genFacts .startTls "server.test:4443".toList []
    { ca := ⟨none, some (.cas ["A"])⟩ } (leafSrc "good" { ca := ⟨none, some (.cas ["A"])⟩, flag := true }) = false := by decide
example : established refX509 genFacts .startTls "server.test:4443".toList []
    (leafSrc "cgood" { ca := ⟨none, some (.cas ["A"])⟩ }) (leafSrc "good" { ca := ⟨none, some (.cas ["A"])⟩, flag := true }) = true := by
  decide
example : established refX509 genFacts .startTls "server.test:4443".toList []
    (leafSrc "cforeign" { ca := ⟨none, some (.cas ["A"])⟩ }) (leafSrc "good" { ca := ⟨none, some (.cas ["A"])⟩, flag := true }) = false := by
  decide
-- histories: a fail-over walk that reaches the properly certified backup, one that refuses the
-- backup certified for another host, and a stdin+tls attempt that leaves a later verifying attempt alone
example : (runHist refX509 genFacts SA.Gen.getTlsConfigFreshPerCall true
    (stepsOf { ca := ⟨none, some (.cas ["A"])⟩ } (sharedWitnessList "nameonly")) none []).map (Option.map (·.est)) = [some false, some true] := by decide
example : (runHist refX509 genFacts SA.Gen.getTlsConfigFreshPerCall true
    (stepsOf { ca := ⟨none, some (.cas ["A"])⟩ } (sharedWitnessList "iponly")) none []).map (Option.map (·.est)) = [some false, some false] := by decide
example : (runHist refX509 genFacts SA.Gen.getTlsConfigFreshPerCall true
    (stepsOf { ca := ⟨none, some (.cas ["A"])⟩ } ((sharedWitnessList "good").reverse)) none []).map (Option.map (·.est)) = [some true, none] := by decide
example : (runHist refX509 genFacts SA.Gen.getTlsConfigFreshPerCall false (stepsOf { ca := ⟨none, some (.cas ["A"])⟩ }
    [{ kind := .stdioTls, hostport := [], resolved := [], up := true, so := leafSrc "good" {} },
     { kind := .startTls, hostport := "server.test:4443".toList, resolved := [], up := true, so := leafSrc "untrusted" {} }]) none []).map
    (Option.map (·.est)) = [some true, some false] := by decide
-- the same endpoint, configuration changed between the attempts (code's facts): CA A then B then A; certificate then none
example : (runHist refX509 genFacts SA.Gen.getTlsConfigFreshPerCall false
    [⟨{ ca := caSrcOf "A" }, false, sameEndpoint false "s"⟩, ⟨{ ca := caSrcOf "B" }, true, sameEndpoint false "s"⟩,
     ⟨{ ca := caSrcOf "A" }, false, sameEndpoint false "s"⟩] none []).map (Option.map (·.est)) = [some true, some false, some true] := by decide
example : (runHist refX509 genFacts SA.Gen.getTlsConfigFreshPerCall false
    [⟨leafSrc "cgood" { ca := caSrcOf "A" }, false, sameEndpoint true "s"⟩, ⟨{ ca := caSrcOf "A" }, false, sameEndpoint true "s"⟩] none []).map
    (Option.map (·.est)) = [some true, some false] := by decide
-- IPv6 literal in brackets
example : startTlsName SA.Gen.startTlsStripsPort "[2001:db8::1]:8443".toList = "2001:db8::1".toList := by decide
-- UDP: a protected endpoint and two clients
example : udpAdmits 32 32 (fun pw => some pw) (some [1, 2]) (some [1, 2]) = true := by decide
example : udpAdmits 32 32 (fun pw => some pw) (some [1, 2]) (some [1, 3]) = false := by decide
example : udpAdmits 32 32 (fun pw => some pw) (some [1, 2]) none = false := by decide

/-- what the source says today about the key handed to AES: `false` = the 64-byte key is rejected
    by aes.NewCipher, a password-protected UDP endpoint does not start on either side (fail-closed) -/
def C05_udp_protected_endpoint_can_start : Bool :=
  aesKeyOk SA.Gen.pbkdf2KeyLenServer && aesKeyOk SA.Gen.pbkdf2KeyLenClient

end SA.TlsConfig

#print axioms SA.TlsConfig.C05_isv_site_inventory
#print axioms SA.TlsConfig.C05_verify_on_unless_insecure
#print axioms SA.TlsConfig.C05_stdio_exception
#print axioms SA.TlsConfig.C05_root_pool_is_configured_ca
#print axioms SA.TlsConfig.C05_expected_name
#print axioms SA.TlsConfig.C05_expected_name_starttls
#print axioms SA.TlsConfig.C05_client_cert_required
#print axioms SA.TlsConfig.C05_server_config_panic_free
#print axioms SA.TlsConfig.C05_auth_sound
#print axioms SA.TlsConfig.C05_auth_sound_server
#print axioms SA.TlsConfig.C05_auth_complete
#print axioms SA.TlsConfig.C05_udp_secret_symmetric
#print axioms SA.TlsConfig.C05_udp_fail_closed
#print axioms SA.TlsConfig.C05_udp_admits_same_secret
#print axioms SA.TlsConfig.C05_witness_inverted_guard
#print axioms SA.TlsConfig.C05_witness_inverted_guard_admits
#print axioms SA.TlsConfig.C05_witness_inverted_guard_panics
#print axioms SA.TlsConfig.C05_witness_port_in_name
#print axioms SA.TlsConfig.C05_witness_port_in_name_refuses
#print axioms SA.TlsConfig.C05_witness_resolved_name_refuses
#print axioms SA.TlsConfig.C05_history_independent
#print axioms SA.TlsConfig.C05_history_seq
#print axioms SA.TlsConfig.C05_history_config
#print axioms SA.TlsConfig.C05_history_auth_sound
#print axioms SA.TlsConfig.C05_history_auth_complete
#print axioms SA.TlsConfig.C05_witness_shared_config_accepts_other_host
#print axioms SA.TlsConfig.C05_witness_shared_config_refuses_certified
#print axioms SA.TlsConfig.C05_witness_shared_config_stdio_leaks
#print axioms SA.TlsConfig.C05_verification_field_inventory
#print axioms SA.TlsConfig.C05_session_state_inventory
#print axioms SA.TlsConfig.C05_witness_session_cache_replaced_ca
#print axioms SA.TlsConfig.C05_witness_session_cache_second_object
#print axioms SA.TlsConfig.C05_witness_session_cache_no_client_cert
#print axioms SA.TlsConfig.C05_witness_session_cache_limits
#print axioms SA.TlsConfig.C05_no_verification_override
#print axioms SA.TlsConfig.C05_validity_boundary_table
#print axioms SA.TlsConfig.C05_auth_sound_any_host
#print axioms SA.TlsConfig.C05_port_only_refused
#print axioms SA.TlsConfig.C05_host_form_names
#print axioms SA.TlsConfig.C05_ca_pool_shape
#print axioms SA.TlsConfig.C05_ca_pool_exact
#print axioms SA.TlsConfig.C05_pools_exactly_configured
#print axioms SA.TlsConfig.C05_auth_sound_configured_anchor
#print axioms SA.TlsConfig.C05_auth_sound_server_configured_anchor
#print axioms SA.TlsConfig.C05_ref_oracle_anchored
#print axioms SA.TlsConfig.C05_system_anchor_table
#print axioms SA.TlsConfig.C05_witness_seeded_pool_accepts_foreign

namespace SA.PkgState
/-- **no_hidden_process_state**: the models of this property are functions of their arguments and of the objects they are
    handed; the packages they model keep no package-level variables besides these (regenerated inventory: error
    sentinels, tables, compiled patterns, the two session time-outs).  A new package-level variable — a counter, a cache, a
    scratch buffer, a shared map, a registry — would make later calls depend on earlier ones, or concurrent calls on each
    other, outside anything a per-call comparison of model and code can see. -/
theorem C05_no_hidden_process_state :
    Gen.pkgVarNames_cert = [] := by decide
end SA.PkgState

#print axioms SA.PkgState.C05_no_hidden_process_state

/-
  C05 — Peer authentication is enforced as configured.

  Property theorems only; helper lemmas are in SA.Proofs.TlsConfig.  The model
  (SA.Model.TlsConfig) mirrors cert.go / startTls / the upstream kinds and takes the decisive
  shapes of the source from SA.Gen (regenerated on every run), so every theorem below is
  re-checked against what the code says now:

    SA.Gen.serverAuthGuardErrNil   polarity of the guard around `conf.ClientAuth = …`
    SA.Gen.isvSites                every site that sets InsecureSkipVerify
    SA.Gen.startTlsStripsPort      whether startTls names the host without the port
    SA.Gen.socketDialSetsHostname  whether Socket.Connect names the upstream host for tls.Dial
    SA.Gen.pbkdf2Args{Client,Server}, secretDerivation…, pbkdf2KeyLen…

  crypto/tls and crypto/x509 are not modelled.  Their documented contract is the universally
  quantified record `X : X509` (chain building, validity, host-name matching) together with
  `clientAccepts` / `serverAdmits` (verification is skipped iff InsecureSkipVerify; a client
  certificate chaining to ClientCAs is demanded iff ClientAuth = RequireAndVerifyClientCert).
  It is a parameter of the theorems, never an axiom.
-/
import SA.Proofs.TlsConfig
namespace SA.TlsConfig

/-! ## 1. verification stays on unless the user chose `insecure` -/

/-- the inventory of InsecureSkipVerify sites is what the model was written against: the option
    in cert.go (set only when the flag is set, on the success path) and the documented stdio
    exception; no other file touches the field. -/
theorem C05_isv_site_inventory :
    SA.Gen.isvSites.map (fun s => (s.1, s.2.1)) =
      [("internal/client/upstream/input_output.go", "InputOutput.Connect"),
       ("internal/util/cert/cert.go", "ClientConfig.GetTlsConfig")] ∧
    SA.Gen.isvSites.lookup "internal/util/cert/cert.go" =
      some ("ClientConfig.GetTlsConfig", "true", "err == nil && m.InsecureSkipVerify") := by
  decide

/-- for every upstream kind except stdio+tls, the config handed to crypto/tls skips
    verification exactly when the `insecure` option is set -/
theorem C05_verify_on_unless_insecure (k : Kind) (hk : k ≠ .stdioTls) (o : Opts) (conf : TlsCfg)
    (h : clientCfgFor SA.Gen.isvSites k o = .ok conf) : conf.insecureSkipVerify = o.flag := by
  have hf : forcesInsecure SA.Gen.isvSites k = false := by
    cases k <;> first | exact absurd rfl hk | decide
  unfold clientCfgFor at h
  cases hc : clientGetTlsConfig o with
  | err e => simp [hc] at h
  | panic => simp [hc] at h
  | ok c =>
    simp only [hc, hf] at h
    cases h
    exact (client_ok hc).2.1

/-- the documented exception: stdio+tls never verifies -/
theorem C05_stdio_exception (o : Opts) (conf : TlsCfg)
    (h : clientCfgFor SA.Gen.isvSites .stdioTls o = .ok conf) : conf.insecureSkipVerify = true := by
  have hf : forcesInsecure SA.Gen.isvSites .stdioTls = true := by decide
  unfold clientCfgFor at h
  cases hc : clientGetTlsConfig o with
  | err e => simp [hc] at h
  | panic => simp [hc] at h
  | ok c =>
    simp only [hc, hf] at h
    cases h
    rfl

/-- the pool the server certificate is verified against is the configured CA -/
theorem C05_root_pool_is_configured_ca (k : Kind) (o : Opts) (conf : TlsCfg)
    (h : clientCfgFor SA.Gen.isvSites k o = .ok conf) : conf.rootCAs = caPool o := by
  unfold clientCfgFor at h
  cases hc : clientGetTlsConfig o with
  | err e => simp [hc] at h
  | panic => simp [hc] at h
  | ok c =>
    simp only [hc] at h
    split at h <;> cases h <;> exact (client_ok hc).1

/-! ## 2. the expected server name is the upstream host name, without the port -/

/-- well-formed upstream authority `h:p`: a non-bracketed host and a numeric port -/
def WfHostPort (h p : Name) : Prop := Plain h ∧ h ≠ [] ∧ p.all isDigit = true

/-- every upstream kind that verifies names the server by the host part of its address
    (`r` = whatever the address resolves to) -/
theorem C05_expected_name (k : Kind) (hk : k ≠ .stdioTls) (h p r : Name) (hw : WfHostPort h p) :
    nameFor genFacts k (h ++ ':' :: p) r = h := by
  obtain ⟨hh, hne, hp⟩ := hw
  have hs : genFacts.stripsPort = true := by decide
  have hd : genFacts.setsHostname = true := by decide
  cases k with
  | stdioTls => exact absurd rfl hk
  | startTls =>
    simp only [nameFor, hs]
    exact startTlsName_hostport h p hh (plain_of_digits hp)
  | httpTls => exact urlHostname_hostport h p hh hp
  | socketTls =>
    have he : (urlHostname (h ++ ':' :: p)).isEmpty = false := by
      rw [urlHostname_hostport h p hh hp]
      cases h with
      | nil => exact absurd rfl hne
      | cons _ _ => rfl
    simp only [nameFor, socketTlsName, hd, he, Bool.not_false, Bool.and_self, if_true]
    exact urlHostname_hostport h p hh hp

/-- StartTLS also handles any port text and a host given without port -/
theorem C05_expected_name_starttls (h p : Name) (hh : Plain h) (hp : Plain p) :
    startTlsName SA.Gen.startTlsStripsPort (h ++ ':' :: p) = h ∧
    startTlsName SA.Gen.startTlsStripsPort h = h := by
  have hs : SA.Gen.startTlsStripsPort = true := by decide
  rw [hs]
  refine ⟨startTlsName_hostport h p hh hp, ?_⟩
  have : splitHostPort h = none := by
    simp [splitHostPort, splitLastColon_none (fun c hc => (hh c hc).1)]
  simp [startTlsName, this]

/-! ## 3. the client-certificate requirement -/

/-- `require-client-cert` puts RequireAndVerifyClientCert and the configured CA pool into the
    server's TLS config (and nothing else does) -/
theorem C05_client_cert_required (o : Opts) (conf : TlsCfg)
    (h : serverGetTlsConfig SA.Gen.serverAuthGuardErrNil o = .ok conf) :
    (o.flag = true → conf.clientAuth = .requireAndVerifyClientCert ∧ conf.clientCAs = caPool o) ∧
    (o.flag = false → conf.clientAuth = .noClientCert) := by
  have hg : SA.Gen.serverAuthGuardErrNil = true := by decide
  obtain ⟨c0, _, _, hca, hauth⟩ := server_ok h
  rw [hg] at hauth
  constructor
  · intro hf; simp [hauth, hf, hca]
  · intro hf; simp [hauth, hf]

/-- the guard itself can no longer crash: ServerConfig.GetTlsConfig panics only where
    Config.GetTlsConfig already does -/
theorem C05_server_config_panic_free (o : Opts)
    (h : serverGetTlsConfig SA.Gen.serverAuthGuardErrNil o = .panic) : configGetTlsConfig o = .panic := by
  have hg : SA.Gen.serverAuthGuardErrNil = true := by decide
  rw [hg] at h
  unfold serverGetTlsConfig at h
  cases hc : configGetTlsConfig o with
  | panic => rfl
  | err e => simp [hc] at h
  | ok c =>
    simp only [hc] at h
    split at h <;> cases h

/-! ## 4. sessions, under the crypto/tls + crypto/x509 contract -/

/-- **soundness (client side)**: with verification on, a session is established only with a
    server whose certificate chains to the configured CA, is valid, and matches the upstream host
    name — for every verifying upstream kind, every option set, every oracle. -/
theorem C05_auth_sound (X : X509) (k : Kind) (hk : k ≠ .stdioTls) (h p r : Name) (hw : WfHostPort h p)
    (co so : Opts) (hins : co.flag = false)
    (he : established X genFacts k (h ++ ':' :: p) r co so = true) :
    ∃ scfg peer, serverGetTlsConfig SA.Gen.serverAuthGuardErrNil so = .ok scfg ∧ scfg.certs.head? = some peer ∧
      X.chains (caPool co) peer = true ∧ X.validNow peer = true ∧ X.matchesName h peer = true := by
  unfold established at he
  cases hc : clientCfgFor genFacts.sites k co with
  | err e => simp [hc] at he
  | panic => simp [hc] at he
  | ok ccfg =>
    cases hs : serverGetTlsConfig genFacts.guardErrNil so with
    | err e => simp [hc, hs] at he
    | panic => simp [hc, hs] at he
    | ok scfg =>
      simp only [hc, hs] at he
      cases hp : scfg.certs.head? with
      | none => simp [hp] at he
      | some peer =>
        simp only [hp, Bool.and_eq_true] at he
        have hisv : ccfg.insecureSkipVerify = false := by
          rw [C05_verify_on_unless_insecure k hk co ccfg hc, hins]
        have hroot : ccfg.rootCAs = caPool co := C05_root_pool_is_configured_ca k co ccfg hc
        have hname := C05_expected_name k hk h p r hw
        have h1 := he.1
        simp only [clientAccepts, hisv, Bool.false_or, hroot, hname, Bool.and_eq_true] at h1
        exact ⟨scfg, peer, hs, hp, h1.1.1, h1.1.2, h1.2⟩

/-- **soundness (server side)**: a server configured to require client certificates admits
    only a client presenting a valid certificate that chains to the server's configured CA —
    every carrier (also stdio+tls), whatever the client's `insecure` flag. -/
theorem C05_auth_sound_server (X : X509) (k : Kind) (hostport r : Name) (co so : Opts) (hreq : so.flag = true)
    (he : established X genFacts k hostport r co so = true) :
    ∃ ccfg c, clientCfgFor SA.Gen.isvSites k co = .ok ccfg ∧ ccfg.certs.head? = some c ∧
      X.chains (caPool so) c = true ∧ X.validNow c = true := by
  unfold established at he
  cases hc : clientCfgFor genFacts.sites k co with
  | err e => simp [hc] at he
  | panic => simp [hc] at he
  | ok ccfg =>
    cases hs : serverGetTlsConfig genFacts.guardErrNil so with
    | err e => simp [hc, hs] at he
    | panic => simp [hc, hs] at he
    | ok scfg =>
      simp only [hc, hs] at he
      cases hp : scfg.certs.head? with
      | none => simp [hp] at he
      | some peer =>
        simp only [hp, Bool.and_eq_true] at he
        have hr := (C05_client_cert_required so scfg hs).1 hreq
        have h2 := he.2
        simp only [serverAdmits, hr.1, hr.2] at h2
        cases hcc : ccfg.certs.head? with
        | none => simp [hcc] at h2
        | some c =>
          simp only [hcc, Bool.and_eq_true] at h2
          exact ⟨ccfg, c, hc, hcc, h2.1, h2.2⟩

/-- **completeness**: a client (verification on or off) does establish the session with a
    server whose certificate chains to the client's configured CA, is valid and matches the
    upstream host name, provided the server's own requirement on the client is met. -/
theorem C05_auth_complete (X : X509) (k : Kind) (hk : k ≠ .stdioTls) (h p r : Name) (hw : WfHostPort h p)
    (co so : Opts) (ccfg scfg : TlsCfg) (peer : String)
    (hc : clientGetTlsConfig co = .ok ccfg) (hs : configGetTlsConfig so = .ok scfg)
    (hpeer : scfg.certs.head? = some peer)
    (hchain : X.chains (caPool co) peer = true) (hvalid : X.validNow peer = true)
    (hmatch : X.matchesName h peer = true)
    (hcli : so.flag = false ∨
      ∃ c, ccfg.certs.head? = some c ∧ X.chains (caPool so) c = true ∧ X.validNow c = true) :
    established X genFacts k (h ++ ':' :: p) r co so = true := by
  have hf : forcesInsecure genFacts.sites k = false := by
    cases k <;> first | exact absurd rfl hk | decide
  have hg : genFacts.guardErrNil = true := by decide
  have hname := C05_expected_name k hk h p r hw
  have hcc := client_ok hc
  have hsc := config_ok hs
  unfold established
  simp only [clientCfgFor, hc, hf, serverGetTlsConfig, hs, hg, Bool.true_and]
  cases hfl : so.flag with
  | false =>
    simp [hpeer, clientAccepts, serverAdmits, hname, hcc.1, hchain, hvalid, hmatch, hsc.2.2.2.1]
  | true =>
    rcases hcli with hno | ⟨c, hcert, hch, hv⟩
    · rw [hfl] at hno; cases hno
    · simp [hpeer, clientAccepts, serverAdmits, hname, hcc.1, hchain, hvalid, hmatch, hcert, hsc.2.1, hch, hv]

/-! ## 5. the UDP shared secret -/

/-- both ends derive the cipher key by the same function of the password: identical pbkdf2
    argument lists and identical derivation of `pass`/`salt` (for every KDF and hash) -/
theorem C05_udp_secret_symmetric
    (kdf : List Nat → List Nat → String → String → List Nat) (sha : List Nat → List Nat) (pw : List Nat) :
    udpKey SA.Gen.pbkdf2ArgsClient kdf sha pw = udpKey SA.Gen.pbkdf2ArgsServer kdf sha pw ∧
    (udpKey SA.Gen.pbkdf2ArgsServer kdf sha pw).isSome = true ∧
    SA.Gen.secretDerivationClient = SA.Gen.secretDerivationServer ∧
    SA.Gen.pbkdf2KeyLenClient = SA.Gen.pbkdf2KeyLenServer ∧
    SA.Gen.cipherArgClient = "key" ∧ SA.Gen.cipherArgServer = "key" := by
  have ha : SA.Gen.pbkdf2ArgsClient = SA.Gen.pbkdf2ArgsServer := by decide
  refine ⟨by rw [ha], ?_, by decide, by decide, by decide, by decide⟩
  simp [udpKey, SA.Gen.pbkdf2ArgsServer]

/-- an endpoint protected by a secret never runs without the cipher (it is encrypted, or it
    does not start at all) — for every key length the source may name -/
theorem C05_udp_fail_closed (keyLen : Nat) (pw : List Nat) (hpw : pw ≠ []) :
    udpStart keyLen (some pw) ≠ .plain := by
  unfold udpStart
  cases pw with
  | nil => exact absurd rfl hpw
  | cons a as =>
    simp only [List.isEmpty_cons, Bool.false_eq_true, if_false]
    split <;> simp

/-- a protected server admits only clients whose key equals its own, i.e. (when the key
    derivation does not collide on the two passwords) clients holding the same secret -/
theorem C05_udp_admits_same_secret (keyLenS keyLenC : Nat) (keyOf : List Nat → Option (List Nat))
    (pwS : List Nat) (pwC : Option (List Nat)) (hpw : pwS ≠ [])
    (hinj : ∀ b, keyOf pwS = keyOf b → pwS = b)
    (h : udpAdmits keyLenS keyLenC keyOf (some pwS) pwC = true) : pwC = some pwS := by
  unfold udpAdmits at h
  have hs := C05_udp_fail_closed keyLenS pwS hpw
  cases hS : udpStart keyLenS (some pwS) with
  | plain => exact absurd hS hs
  | errAesKey => simp [hS] at h
  | encrypted =>
    cases hC : udpStart keyLenC pwC with
    | plain => simp [hS, hC] at h
    | errAesKey => simp [hS, hC] at h
    | encrypted =>
      cases pwC with
      | none => simp [hS, hC] at h
      | some b =>
        simp only [hS, hC, Bool.and_eq_true, beq_iff_eq] at h
        rw [hinj b h.2]

/-! ## witnesses: the three defects found (kernel-checked on the model with the *other* value
    of the regenerated fact; each reproduced on the real code, see notes/C05.md) -/

/-- with the guard as it was (`err != nil`) a server with require-client-cert configured
    gets ClientAuth = NoClientCert … -/
theorem C05_witness_inverted_guard :
    ¬ (∀ o conf, serverGetTlsConfig false o = .ok conf → o.flag = true →
        conf.clientAuth = .requireAndVerifyClientCert) := by
  intro h
  have := h { flag := true } {} (by decide) rfl
  cases this

/-- … and admits a client that presents no certificate at all -/
theorem C05_witness_inverted_guard_admits :
    established refX509 { genFacts with guardErrNil := false } .startTls "server.test:4443".toList "server.test:4443".toList
      { ca := ⟨none, some (.cas ["A"])⟩ }
      (leafSrc "good" { ca := ⟨none, some (.cas ["A"])⟩, flag := true }) = true := by
  decide

/-- … and crashes when the configuration is unreadable -/
theorem C05_witness_inverted_guard_panics :
    serverGetTlsConfig false { ca := ⟨some none, none⟩, flag := true } = .panic := by decide

/-- with ServerName = cc.host (port included) the name handed to the verifier is not the host … -/
theorem C05_witness_port_in_name :
    startTlsName false "example.com:443".toList ≠ "example.com".toList := by decide

/-- … so a correctly certified server is refused on every StartTLS carrier -/
theorem C05_witness_port_in_name_refuses :
    established refX509 { genFacts with stripsPort := false } .startTls "server.test:4443".toList "server.test:4443".toList
      { ca := ⟨none, some (.cas ["A"])⟩ } (leafSrc "good" {}) = false := by
  decide

/-- when Socket.Connect leaves the name to tls.Dial, the resolved address is verified instead of
    the host name: a server certified for its DNS name only is refused -/
theorem C05_witness_resolved_name_refuses :
    established refX509 { genFacts with setsHostname := false } .socketTls "localhost:4443".toList "127.0.0.1:4443".toList
      { ca := ⟨none, some (.cas ["A"])⟩ } (leafSrc "nameonly" {}) = false := by
  decide

/-! ## non-vacuity -/

-- the hypotheses of the theorems are satisfiable, and the conclusions are what the real code shows
example : WfHostPort "server.test".toList "4443".toList := by
  refine ⟨?_, by decide, by decide⟩
  intro c hc
  revert c
  decide

example : clientCfgFor SA.Gen.isvSites .startTls { ca := ⟨none, some (.cas ["A"])⟩, flag := true }
    = .ok { rootCAs := some ["A"], clientCAs := some ["A"], insecureSkipVerify := true } := by decide

example : serverGetTlsConfig SA.Gen.serverAuthGuardErrNil (leafSrc "good" { ca := ⟨none, some (.cas ["A"])⟩, flag := true })
    = .ok { certs := ["good"], rootCAs := some ["A"], clientCAs := some ["A"], clientAuth := .requireAndVerifyClientCert } := by
  decide

-- established and refused cells of the matrix (reference oracle)
example : established refX509 genFacts .startTls "server.test:4443".toList "server.test:4443".toList
    { ca := ⟨none, some (.cas ["A"])⟩ } (leafSrc "good" {}) = true := by decide
example : established refX509 genFacts .startTls "server.test:4443".toList "server.test:4443".toList
    { ca := ⟨none, some (.cas ["A"])⟩ } (leafSrc "untrusted" {}) = false := by decide
example : established refX509 genFacts .socketTls "localhost:4443".toList "127.0.0.1:4443".toList
    { ca := ⟨none, some (.cas ["A"])⟩ } (leafSrc "nameonly" {}) = true := by decide
example : established refX509 genFacts .startTls "server.test:4443".toList []
    { ca := ⟨none, some (.cas ["A"])⟩ } (leafSrc "good" { ca := ⟨none, some (.cas ["A"])⟩, flag := true }) = false := by decide
example : established refX509 genFacts .startTls "server.test:4443".toList []
    (leafSrc "cgood" { ca := ⟨none, some (.cas ["A"])⟩ }) (leafSrc "good" { ca := ⟨none, some (.cas ["A"])⟩, flag := true }) = true := by
  decide
example : established refX509 genFacts .startTls "server.test:4443".toList []
    (leafSrc "cforeign" { ca := ⟨none, some (.cas ["A"])⟩ }) (leafSrc "good" { ca := ⟨none, some (.cas ["A"])⟩, flag := true }) = false := by
  decide
-- IPv6 literal in brackets
example : startTlsName SA.Gen.startTlsStripsPort "[2001:db8::1]:8443".toList = "2001:db8::1".toList := by decide
-- UDP: a protected endpoint and two clients
example : udpAdmits 32 32 (fun pw => some pw) (some [1, 2]) (some [1, 2]) = true := by decide
example : udpAdmits 32 32 (fun pw => some pw) (some [1, 2]) (some [1, 3]) = false := by decide
example : udpAdmits 32 32 (fun pw => some pw) (some [1, 2]) none = false := by decide

/-- what the source says today about the key handed to AES: `false` = the 64-byte key is rejected
    by aes.NewCipher, a password-protected UDP endpoint does not start on either side (fail-closed) -/
def C05_udp_protected_endpoint_can_start : Bool :=
  aesKeyOk SA.Gen.pbkdf2KeyLenServer && aesKeyOk SA.Gen.pbkdf2KeyLenClient

end SA.TlsConfig

#print axioms SA.TlsConfig.C05_isv_site_inventory
#print axioms SA.TlsConfig.C05_verify_on_unless_insecure
#print axioms SA.TlsConfig.C05_stdio_exception
#print axioms SA.TlsConfig.C05_root_pool_is_configured_ca
#print axioms SA.TlsConfig.C05_expected_name
#print axioms SA.TlsConfig.C05_expected_name_starttls
#print axioms SA.TlsConfig.C05_client_cert_required
#print axioms SA.TlsConfig.C05_server_config_panic_free
#print axioms SA.TlsConfig.C05_auth_sound
#print axioms SA.TlsConfig.C05_auth_sound_server
#print axioms SA.TlsConfig.C05_auth_complete
#print axioms SA.TlsConfig.C05_udp_secret_symmetric
#print axioms SA.TlsConfig.C05_udp_fail_closed
#print axioms SA.TlsConfig.C05_udp_admits_same_secret
#print axioms SA.TlsConfig.C05_witness_inverted_guard
#print axioms SA.TlsConfig.C05_witness_inverted_guard_admits
#print axioms SA.TlsConfig.C05_witness_inverted_guard_panics
#print axioms SA.TlsConfig.C05_witness_port_in_name
#print axioms SA.TlsConfig.C05_witness_port_in_name_refuses
#print axioms SA.TlsConfig.C05_witness_resolved_name_refuses

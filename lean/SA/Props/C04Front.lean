/-
  C04, whatever the peer answers to the dial (model SA.Model.SecFront, harness go/harness/c04_front.go): the `secure`
  flag the handshake is given describes the carrier that is in use at the moment of the handshake.
-/
import SA.Model.SecFront
import SA.Props.C04Spell
namespace SA.Security
open SA.Handshake

/-- **the flag is computed for the carrier in use** (regenerated from every upstream Connect): a kind whose `secure`
    argument can be anything but the literal `false` opens its carrier at most once on every path to the handshake —
    no redirect followed, no fall-back dial, no retry loop between computing the flag and NewClientConnection — and
    does not assign the flag after the dial.  (The dns kind retries name servers in a loop; it always passes `false`.) -/
theorem C04_flag_computed_for_the_carrier_in_use :
    Gen.c04DialPaths.map (fun r => r.1) = Gen.c04SecureArgs.map (fun r => r.1) ∧
    ∀ r ∈ Gen.c04DialPaths, secureArgClass r.1 = "false" ∨ (r.2.1 ≤ 1 ∧ r.2.2 = false) := by
  decide

/-- … in the form the model uses: no kind that may say "secure" re-dials -/
theorem C04_no_redial : ∀ r ∈ Gen.c04DialPaths, secureArgClass r.1 = "false" ∨ redials r.1 = false := by
  decide

/-- the two kinds the front-end sweep drives do not re-dial -/
theorem redials_http : redials "http" = false := by decide
theorem redials_socket : redials "socket" = false := by decide

/-- **the server's `secure` flag comes from its own listener** (regenerated from every call of AcceptConnection /
    NewServerConnection under internal/, `Gen.c04ServerSecureArgs`, and from every write of a `secure` field in those
    packages, `Gen.c04ServerSecureWrites`): each of the server kinds socket, http, packet, stdio and AcceptConnection
    itself has a call site; at every call site the `secure` argument is the literal `false`, or the receiver's `secure`
    field / a local of `Startup`, or AcceptConnection's own parameter handed on untouched; every write of such a field is
    `<receiver>.secure = true` directly under a test of the endpoint's OWN configured scheme, or `= false`, inside a
    `Startup` method.  No term derived from the request (a header, `r.TLS`, `r.URL`, a subprotocol), from the peer's
    handshake messages or from a password reaches the argument.  Consequence (last clause): a server kind whose own
    listener is not TLS never tells the handshake that the carrier is secure. -/
theorem C04_server_secure_flag_from_own_listener :
    (∀ k ∈ serverKinds, ∃ r ∈ Gen.c04ServerSecureArgs, r.1 = k) ∧
    (∀ r ∈ Gen.c04ServerSecureArgs,
      r.2.2.2.2 = "false" ∨ r.2.2.2.2 = "ownSchemeField" ∨ r.2.2.2.2 = "ownSchemeVar" ∨
        (r.2.2.2.2 = "paramPassThrough" ∧ r.1 = "accept")) ∧
    (∀ w ∈ Gen.c04ServerSecureWrites, w.2.2.2 = "ok") ∧
    (∀ r ∈ Gen.c04ServerSecureArgs, srvFlag r.1 false = false) := by
  decide

/-- in the form the model uses -/
theorem srvFlag_http_plain : srvFlag "http" false = false := by decide

/-- **a rewritten opening request changes nothing**: for every spelling of the regenerated upstream switch behind a
    front-end that relays to the real plain server and rewrites the client's opening HTTP request (any header, the
    request URL, subprotocol names - the model does not even look at what was rewritten, because by
    `C04_server_secure_flag_from_own_listener` nothing the request says reaches the `secure` argument), server with /
    without certificate, require-security, every client certificate configuration: the five clauses hold, and the
    server's own view is right - it advertises StartTLS exactly when it owns a certificate (its carrier is plain). -/
theorem C04_inject_grid_never_plaintext :
    ∀ k ∈ Schemes.keysOf (Schemes.tableOf .upstream), ∀ (stls scert must insecure ca : Bool),
      cellSafe2 (spellTls k.toList) false scert must (cellFront k.toList .inject stls scert must insecure ca) = true ∧
      (srvAdvert k.toList scert = none ∨ srvAdvert k.toList scert = some scert) := by
  decide +kernel

/-- **why the fact matters (kernel-checked counter-example)**: a websocket server that takes the word of the request
    for "the carrier is encrypted" (flag true on its plain listener) does not advertise StartTLS although it owns a
    certificate, and the honest client completes a plaintext session, payload in clear - clause (2) fails; the relay
    reads `srv=nostls`.  This is the cell the harness reproduces on such code (`ws inj:xfp 0 1 0 …`). -/
theorem C04_inject_claimed_secure_witness :
    cellFrontWith2 redials (fun _ _ => true) "ws".toList .inject false true false true false
      = .est .none false true true (some false) ∧
    cellSafe2 false false true false
      (cellFrontWith2 redials (fun _ _ => true) "ws".toList .inject false true false true false) = false ∧
    srvAdvertWith (fun _ _ => true) "ws".toList true = some false ∧
    srvFlagOf [("http", "http_server.go", "HttpServer.EndpointHandler", "ws.secure || r.Header.Get(\"X-Forwarded-Proto\") == \"https\"", "other")]
      "http" false = true := by
  decide +kernel

/-- **the front-end sweep is safe**: for every spelling of the regenerated upstream switch, every answer of the
    front-end (relay, 3xx to a plain or to a TLS location, redirect loop, 200 / 404, TLS refused), server plain / TLS,
    with / without certificate, require-security and every client certificate configuration, the five clauses of the
    monitor hold on the carrier that carries the session: (1) require-security => secure, TLS-protected, echo, payload
    not in clear; (2) StartTLS offered on an unencrypted carrier => tls + secure; (3) secure => not in clear;
    (4) secure "underlying" => a TLS record first on the wire; (5) the spelling says TLS => a TLS record first on the
    wire.  Proved from `C04_flag_computed_for_the_carrier_in_use` (no second dial: every answer but a relay is no
    session) and `C04_spelling_grid_never_plaintext`. -/
theorem C04_front_grid_never_plaintext :
    ∀ k ∈ Schemes.keysOf (Schemes.tableOf .upstream), ∀ (f : Front) (stls scert must insecure ca : Bool),
      cellSafe2 (spellTls k.toList) (finalStls f stls) scert must (cellFront k.toList f stls scert must insecure ca) = true := by
  intro k hk f stls scert must insecure ca
  by_cases hinj : f = .inject
  · subst hinj
    exact (C04_inject_grid_never_plaintext k hk stls scert must insecure ca).1
  unfold cellFront cellFrontWith cellFrontWith2
  split
  · rfl
  · rename_i ctor _
    split
    · rfl
    · have hk' : redials (kindOfCtor ctor) = true → False := by
        rename_i hfk
        intro h
        simp only [frontKind, Bool.not_eq_true', Bool.or_eq_false_iff, not_and, Bool.not_eq_false] at hfk
        by_cases h1 : (ctor == "Http") = true
        · have : ctor = "Http" := by simpa using h1
          subst this
          exact absurd h (by decide)
        · have h2 := hfk (by simpa using h1)
          simp only [Bool.and_eq_true] at h2
          have : ctor = "Socket" := by simpa using h2.1
          subst this
          exact absurd h (by decide)
      cases f with
      | pass => exact C04_spelling_grid_never_plaintext k hk stls scert must insecure ca
      | tlsdrop =>
        simp only [finalStls]
        split
        · rfl
        · split
          · exact C04_spelling_grid_never_plaintext k hk false scert must insecure ca
          · first
            | rfl
            | (split
               · rename_i h; exact absurd h hk'
               · rfl)
      | loop => rfl
      | status => rfl
      | inject => exact absurd rfl hinj
      | srvpw => rfl
      | redirect t =>
        simp only [finalStls]
        split
        · rfl
        · split
          · rfl
          · first
            | rfl
            | (split
               · rename_i h; exact absurd h hk'
               · rfl)

/-- **why the fact matters (kernel-checked counter-example)**: a websocket Connect that follows the redirect with the
    flag it computed for the configured URL turns `wss://` + require-security + a front-end answering
    `301 Location: ws://…` into a session the client reports secure ("underlying") on a carrier dialled in plain text,
    payload in clear — clauses (1), (3), (4), (5) all fail.  This is the cell the harness reproduces on such code. -/
theorem C04_front_redial_witness :
    cellFrontWith (fun _ => true) "wss".toList (.redirect false) false true true false true
      = .est .underlying true true true (some false) ∧
    cellSafe2 true false true true
      (cellFrontWith (fun _ => true) "wss".toList (.redirect false) false true true false true) = false := by
  decide +kernel

/-- the same for a fall-back to plain text after a TLS failure (websocket and tcp socket upstreams) -/
theorem C04_front_fallback_witness :
    cellSafe2 true false true true
      (cellFrontWith (fun _ => true) "tcp+tls".toList .tlsdrop false true true false true) = false ∧
    cellSafe2 true false false true
      (cellFrontWith (fun _ => true) "https".toList .tlsdrop false false true true false) = false := by
  decide +kernel

/-! ### non-vacuity -/
example : cellFront "wss".toList (.redirect false) false true true false true = .refused := by decide +kernel
example : cellFront "ws".toList .tlsdrop false true true false true = .est .tls true true false (some false) := by decide +kernel
example : cellFront "https".toList .pass true true true false true = .est .underlying true true false (some true) := by decide +kernel
example : cellFront "udp".toList .pass false false false true false = .noserver := by decide +kernel
example : redialsOf [("http", 3, false)] "http" = true := by decide
example : cellFront "ws".toList .inject false true false true false = .est .tls true true false (some false) := by decide +kernel
example : cellFront "http".toList .inject false true true false false = .refused := by decide +kernel
example : srvAdvert "ws".toList true = some true ∧ srvAdvert "ws".toList false = some false := by decide +kernel
example : cellFront "wss".toList .inject false true true false true = .noserver := by decide +kernel
example : srvFlagOf [] "http" false = true := by decide
example : redialsOf [("http", 1, true)] "http" = true := by decide

end SA.Security

#print axioms SA.Security.C04_flag_computed_for_the_carrier_in_use
#print axioms SA.Security.C04_no_redial
#print axioms SA.Security.C04_server_secure_flag_from_own_listener
#print axioms SA.Security.C04_inject_grid_never_plaintext
#print axioms SA.Security.C04_inject_claimed_secure_witness
#print axioms SA.Security.C04_front_grid_never_plaintext
#print axioms SA.Security.C04_front_redial_witness
#print axioms SA.Security.C04_front_fallback_witness

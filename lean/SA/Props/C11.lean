/-
  C11 — DNS auto-negotiation only settles on parameters that work.

  Property theorems only; helper lemmas are in SA.Proofs.DnsHandshake.  The model
  (SA.Model.DnsHandshake) is the client's Handshake as a function of an abstract path oracle
  `Oracle = Probe → Out`; the theorems quantify over EVERY oracle (every path behaviour, including ones
  no simulated path produces), every tunnel domain length, and — where stated for a general `cfg` —
  every configuration with the stated shape.  `Cfg.gen` is the configuration regenerated from the
  source on every run; the side conditions on it are discharged by evaluation against those facts.

  * C11_terminates            the repaired handshake never runs out of fuel and makes at most 136 queries
  * C11_terminates_search     the fragment size search: ≤ 13 rounds, ≤ 39 queries (decreasing measure: range)
  * C11_witness_loop          the search as found has a reachable fixed point: it never ends
  * C11_failure_reported      no record type passes its test ⇒ the result is ErrConnectionFailed
  * C11_success_sound_partial success ⇒ every parameter was justified by a probe that passed, in the
                              client state it is then used in
  * C11_fragment_probe_monotone a passed fragment probe implies that smaller data answers fit (given
                              monotone packing) — hypothesis-level link to C10
  * C11_witness_raw_inverted / C11_witness_mismatch_accepted   the two selection defects as found
-/
import SA.Proofs.DnsHandshake
import SA.Gen.PkgVars
namespace SA.DnsHandshake

/-! ### side conditions on the regenerated facts -/

theorem gen_halving : Halving Cfg.gen := ⟨by decide, by decide⟩
theorem gen_halves : Cfg.gen.fragHalvesEveryRound = true := by decide
theorem gen_raw : Cfg.gen.rawOnSuccess = true := by decide
theorem gen_assigned : Cfg.gen.downAlwaysAssigned = true := by decide
theorem gen_mismatch : Cfg.gen.downMismatchIsError = true := by decide

/-- the two repairs that are not part of the decision logic are present in the source: the fragment
    size probe is padded to the longest question (so that `C11_fragment_probe_monotone`'s hypothesis
    "probed with the maximal name length" describes the code), and an answer without data is rejected
    before it is indexed (so that no probe outcome is a client panic). -/
theorem C11_repairs_in_source :
    SA.Gen.C11.fragProbePadded = true ∧ SA.Gen.C11.emptyAnswerChecked = true ∧
    SA.Gen.C11.fragClampsStep = true := by decide

/-! ### termination -/

/-- Fragment size search of any configuration with the repaired shape (range halved every round, loop
    stops at range 0): if the initial range is below 2^k and the model's fuel is at least k, the search
    ends by itself after at most k rounds and fragTries·k queries, whatever the path answers. -/
theorem C11_terminates_search_general (cfg : Cfg) (hc : Halving cfg) (hh : cfg.fragHalvesEveryRound = true)
    (k : Nat) (hk : (FS.init cfg).range < 2 ^ k) (hf : k ≤ fragFuel cfg) (O : Oracle) (st : St) :
    (fragSearch O cfg st).1 ≠ .outOfFuel ∧ (fragSearch O cfg st).2.length ≤ cfg.fragTries * k := by
  unfold fragSearch
  simp only [hh, if_true]
  exact fragLoop_bounded O cfg hc st k _ _ hk hf

theorem C11_terminates_search (O : Oracle) (st : St) :
    (fragSearch O Cfg.gen st).1 ≠ .outOfFuel ∧ (fragSearch O Cfg.gen st).2.length ≤ 39 :=
  C11_terminates_search_general Cfg.gen gen_halving gen_halves 13 (by decide) (by decide) O st

/-- bound on the queries of a whole handshake, given a bound F on the fragment search -/
def hsBound (cfg : Cfg) (F : Nat) : Nat :=
  cfg.typeRounds * cfg.typeOrder.length + cfg.versionTries + cfg.ednsTries + upBudget cfg cfg.upOrder
    + cfg.setUpTries + (cfg.downTestTries * cfg.downOrder.length + cfg.downTestTries) + cfg.setDownTries
    + cfg.lazyTries + F + cfg.switchTries

set_option hygiene false in
local macro "len6" : term =>
  `(Nat.add_le_add (Nat.add_le_add (Nat.add_le_add (Nat.add_le_add (Nat.add_le_add h1 h2) (ednsPhase_len _ _ _))
      (upDetect_len _ _ _ _)) (setUpPhase_len _ _ _ _)) (downDetect_len _ _ _))
set_option hygiene false in
local macro "len9" : term =>
  `(Nat.add_le_add (Nat.add_le_add (Nat.add_le_add len6 (setDownPhase_len _ _ _ _)) (lazyPhase_len _ _ _ _)) (hF _))

theorem handshake_len (cfg : Cfg) (O : Oracle) (dom F : Nat) (hF : ∀ st, (fragSearch O cfg st).2.length ≤ F) :
    (handshake cfg O dom).2.length ≤ hsBound cfg F := by
  unfold handshake hsBound
  have h1 := typeDetect_len O cfg
  split
  · rename_i t1 he
    rw [he] at h1
    exact Nat.le_trans h1 (by omega)
  · rename_i q t1 he
    rw [he] at h1
    dsimp only at h1 ⊢
    split
    · rename_i t2 he2
      have h2 := versionPhase_len O cfg { q := q }
      rw [he2] at h2
      simp only [List.length_append]
      exact Nat.le_trans (Nat.add_le_add h1 h2) (by omega)
    · rename_i t2 he2
      have h2 := versionPhase_len O cfg { q := q }
      rw [he2] at h2
      dsimp only at h2
      split
      · simp only [List.length_append]
        exact Nat.le_trans len6 (by omega)
      · split
        · simp only [List.length_append]; exact Nat.le_trans len9 (by omega)
        · simp only [List.length_append]; exact Nat.le_trans len9 (by omega)
        · split
          · simp only [List.length_append]; exact Nat.le_trans len9 (by omega)
          · split
            · simp only [List.length_append]; exact Nat.le_trans len9 (by omega)
            · split <;>
                (simp only [List.length_append]
                 exact Nat.le_trans (Nat.add_le_add len9 (switchPhase_len _ _ _ _)) (by omega))

theorem handshake_fuel (cfg : Cfg) (O : Oracle) (dom : Nat) (hF : ∀ st, (fragSearch O cfg st).1 ≠ .outOfFuel) :
    (handshake cfg O dom).1 ≠ .outOfFuel := by
  unfold handshake
  split
  · simp
  · dsimp only
    split
    · simp
    · split
      · simp
      · split
        · rename_i st h; exact absurd h (hF _)
        · simp
        · split
          · simp
          · split
            · simp
            · split <;> simp

/-- **terminates**: for every path oracle and every domain the repaired Handshake ends by itself — the
    model never runs out of fuel — after at most 136 queries; the bound does not depend on the path. -/
theorem C11_terminates (O : Oracle) (dom : Nat) :
    (handshake Cfg.gen O dom).1 ≠ .outOfFuel ∧ (handshake Cfg.gen O dom).2.length ≤ 136 := by
  refine ⟨handshake_fuel Cfg.gen O dom (fun st => (C11_terminates_search O st).1), ?_⟩
  have h := handshake_len Cfg.gen O dom 39 (fun st => (C11_terminates_search O st).2)
  have e : hsBound Cfg.gen 39 = 136 := by decide
  omega

/-! ### the search as found never ends -/

/-- a path on which every fragment probe is lost (e.g. CNAME only: no answer can carry 768 bytes) -/
def lossy : Oracle := fun _ => .t

/-- **witness_loop**: in the shape as found, from the initial state (proposal 768) a lost probe leaves
    the search state unchanged while the loop condition still holds — `round s = s` — hence the search
    is out of fuel for every fuel: Handshake never returns.  Reproduces on the real code (before the
    repair): corpus/C11/paths.ops, CNAME-only path and answer size limit 1500. -/
theorem C11_witness_loop (st : St) :
    fragCont Cfg.asFound (FS.init Cfg.asFound) = true ∧
    (oldInner lossy Cfg.asFound st Cfg.asFound.fragTries (FS.init Cfg.asFound)).1 = (FS.init Cfg.asFound, false) ∧
    ∀ fuel, (oldLoop lossy Cfg.asFound st fuel (FS.init Cfg.asFound)).1 = .outOfFuel := by
  have hc : fragCont Cfg.asFound (FS.init Cfg.asFound) = true := by decide
  have hi : (oldInner lossy Cfg.asFound st Cfg.asFound.fragTries (FS.init Cfg.asFound)).1 = (FS.init Cfg.asFound, false) := by
    have : Cfg.asFound.fragTries = 2 + 1 := by decide
    rw [this]; unfold oldInner; simp [lossy]
  refine ⟨hc, hi, ?_⟩
  intro fuel
  induction fuel with
  | zero => unfold oldLoop; simp [hc]
  | succ n ih =>
    unfold oldLoop
    simp only [hc, if_true]
    rw [hi]
    simpa using ih

/-- the same path under the repaired shape: the search ends (with no usable size) -/
example (st : St) : (fragSearch lossy Cfg.gen st).1 ≠ .outOfFuel := (C11_terminates_search lossy st).1

/-! ### failure is reported -/

/-- **failure_reported**: if no record type passes its query type test, the handshake returns
    ErrConnectionFailed (any configuration, any other behaviour of the path). -/
theorem C11_failure_reported (cfg : Cfg) (O : Oracle) (dom : Nat) (hno : ∀ q, O (typeProbe cfg q) ≠ .k) :
    (handshake cfg O dom).1 = .err .connfailed := by
  have h := typeRoundsLoop_none O cfg hno cfg.typeRounds
  unfold handshake
  split
  · rfl
  · rename_i q t1 he
    unfold typeDetect at he
    rw [he] at h
    simp at h

/-- non-vacuity: a path that answers nothing at all; 24 queries, as observed on the real code -/
example : handshake Cfg.gen lossy 11 = (.err .connfailed, (handshake Cfg.gen lossy 11).2) ∧
    (handshake Cfg.gen lossy 11).2.length = 24 := by decide

/-! ### success is justified by probes -/

/-- what a successful negotiation guarantees about the oracle (= about the path, as probed) -/
structure Justified (cfg : Cfg) (O : Oracle) (p : Params) : Prop where
  /-- the selected record type passed the query type test -/
  typeOk : O (typeProbe cfg p.q) = .k
  /-- the version exchange over that type succeeded -/
  versionOk : O (({ q := p.q } : St).probe .v) = .k
  /-- an upstream codec other than Base32: all its test patterns came back unchanged, and the server
      acknowledged the switch -/
  upOk : p.up ≠ .b32 →
    (∀ i, i < cfg.patternCount p.up → O (({ q := p.q, edns := p.edns } : St).probe (.z p.up i)) = .k) ∧
    O (({ q := p.q, edns := p.edns, up := some p.up } : St).probe (.oUp p.up)) = .k
  /-- a downstream codec other than Base32 on a type where it is not forced: its download check came
      back intact over the selected type with the selected upstream codec, and the server acknowledged -/
  downOk : p.q ∉ cfg.downRawTypes → p.down ≠ .b32 →
    O (({ q := p.q, edns := p.edns, up := some p.up } : St).probe (.y p.down)) = .k ∧
    O (({ q := p.q, edns := p.edns, up := some p.up, down := some p.down } : St).probe (.oDown p.down false)) = .k
  /-- the fragment size: the probe of size downfrag + header passed with exactly the negotiated type and
      codecs, that size is at least fragSmall, and the server acknowledged the setting -/
  fragOk : p.downfrag ≠ 0 →
    O (({ q := p.q, edns := p.edns, up := some p.up, down := some p.down, lzy := p.lzy } : St).probe (.r (p.downfrag + cfg.fragHeader))) = .k ∧
    O (({ q := p.q, edns := p.edns, up := some p.up, down := some p.down, lzy := p.lzy } : St).probe (.oFrag p.downfrag)) = .k ∧
    cfg.fragSmall ≤ p.downfrag + cfg.fragHeader

/-- **success_sound (partial)**: for every configuration with the repaired selection logic, every oracle
    and domain: if Handshake reports success with parameters p, every probe behind p passed. -/
theorem C11_success_sound_partial (cfg : Cfg) (hh : cfg.fragHalvesEveryRound = true) (hr : cfg.rawOnSuccess = true)
    (ha : cfg.downAlwaysAssigned = true) (hm : cfg.downMismatchIsError = true) (hhd : cfg.fragHeader ≤ cfg.fragSmall)
    (O : Oracle) (dom : Nat) (p : Params) (tr : List Probe)
    (h : handshake cfg O dom = (.ok p, tr)) : Justified cfg O p := by
  unfold handshake at h
  split at h
  · simp at h
  · rename_i q t1 he
    have hq := typeDetect_sound O cfg q (by rw [he])
    dsimp only at h
    split at h
    · simp at h
    · rename_i t2 he2
      have hv := versionPhase_sound O cfg { q := q } (by rw [he2])
      split at h
      · simp at h
      · rename_i d0 hd0
        split at h
        · simp at h
        · simp at h
        · rename_i s hs
          split at h
          · simp at h
          · split at h
            · simp at h
            · rename_i hnone hsmall
              -- the search result: max is a size whose probe passed
              unfold fragSearch at hs
              simp only [hh, if_true] at hs
              have hmax := fragLoop_max O cfg _ _ (FS.init cfg) s (Or.inl rfl) hs
              have hpos : s.max ≠ 0 := by omega
              have hk := hmax.resolve_left hpos
              have hadd : s.max - cfg.fragHeader + cfg.fragHeader = s.max := by omega
              split at h
              · simp at h
              · rename_i hsw
                simp at h
                obtain ⟨hp, _⟩ := h
                subst hp
                refine ⟨hq, hv, ?_, ?_, ?_⟩
                · intro hup
                  dsimp only at hup ⊢
                  have := setUpPhase_sound O cfg _ _ hup
                  refine ⟨?_, ?_⟩
                  · have hud := hup
                    rw [this.1] at hud
                    have hs2 := upDetect_sound O cfg _ _ hud
                    rw [this.1]; exact hs2
                  · rw [this.1]; exact this.2
                · intro hq' hdn
                  dsimp only at hq' hdn ⊢
                  have := setDownPhase_sound O cfg _ _ hdn
                  have hd : d0 ≠ .b32 := by rw [← this.1]; exact hdn
                  refine ⟨?_, ?_⟩
                  · rw [this.1]; exact downDetect_sound O cfg hr ha hm _ d0 hd0 hq' hd
                  · rw [this.1]; exact this.2
                · intro _
                  refine ⟨?_, switchPhase_set O cfg _ _ hsw, by simp only; omega⟩
                  simp only [hadd]; exact hk
              · simp at h
                obtain ⟨hp, _⟩ := h
                subst hp
                refine ⟨hq, hv, ?_, ?_, ?_⟩
                · intro hup
                  dsimp only at hup ⊢
                  have := setUpPhase_sound O cfg _ _ hup
                  refine ⟨?_, ?_⟩
                  · have hud := hup
                    rw [this.1] at hud
                    have hs2 := upDetect_sound O cfg _ _ hud
                    rw [this.1]; exact hs2
                  · rw [this.1]; exact this.2
                · intro hq' hdn
                  dsimp only at hq' hdn ⊢
                  have := setDownPhase_sound O cfg _ _ hdn
                  have hd : d0 ≠ .b32 := by rw [← this.1]; exact hdn
                  refine ⟨?_, ?_⟩
                  · rw [this.1]; exact downDetect_sound O cfg hr ha hm _ d0 hd0 hq' hd
                  · rw [this.1]; exact this.2
                · intro hne; exact absurd rfl hne

/-- the statement for the configuration in the source today -/
theorem C11_success_sound_gen (O : Oracle) (dom : Nat) (p : Params) (tr : List Probe)
    (h : handshake Cfg.gen O dom = (.ok p, tr)) : Justified Cfg.gen O p :=
  C11_success_sound_partial Cfg.gen gen_halves gen_raw gen_assigned gen_mismatch (by decide) O dom p tr h

/-- What `success_sound` would need in full strength (kept visible; NOT proved, and false for a general
    oracle): that the probes which passed imply that every payload of every size up to the negotiated
    fragment sizes is carried unchanged.  Missing links: (1) the upstream patterns cover the codec's
    alphabet (C08 tables) and the path's character map is pointwise; (2) DownloadCodecCheck (48 bytes)
    exercises neither '"', ';', '\\' nor most byte values, so a passed download check says nothing about
    them (C10's region); (3) nothing probes the upstream fragment size; the repaired fragment probe
    covers it only through the padded question.  On the simulated path family these are closed by the
    end-to-end monitor of the `dnshs` component, not by proof. -/
def C11_full : Prop :=
  ∀ (O : Oracle) (dom : Nat) (p : Params) (tr : List Probe), handshake Cfg.gen O dom = (.ok p, tr) →
    ∀ (carries : Params → List Nat → Prop) (payload : List Nat), carries p payload

/-- **fragment probe ⇒ capability (iii)**, at the level of hypotheses: if the packed answer size is
    monotone in the length of the question name and of the encoded payload (C10's packing), a probe of
    payload size f that fitted the limit with a question of the maximal length implies that a data
    answer with at most f − header payload bytes fits with any question.  `probeRaw f = f + 5`
    (status, 4-byte size, f bytes), `packetRaw d = d + 5` (status, ack, seq, d bytes). -/
theorem C11_fragment_probe_monotone (size : Nat → Nat → Nat) (limit nameMax : Nat)
    (mono : ∀ n n' l l', n ≤ n' → l ≤ l' → size n l ≤ size n' l')
    (f : Nat) (hprobe : size nameMax (f + 5) ≤ limit)
    (name d : Nat) (hn : name ≤ nameMax) (hd : d + 2 ≤ f) : size name (d + 5) ≤ limit :=
  Nat.le_trans (mono name nameMax (d + 5) (f + 5) hn (by omega)) hprobe

/-! ### the two selection defects as found (kernel-checked witnesses; both reproduce on the real code
    before the repairs, corpus/C11/paths.ops) -/

/-- a TXT-only path that is transparent: every probe over TXT passes -/
def txtClean : Oracle := fun pr => if pr.q = .txt then .k else .t

/-- as found: Base128 works and the Raw test passes ⇒ no downstream encoder is assigned at all; the Go
    code then dereferences nil in SetEncodingDownstream (model: panic) -/
theorem C11_witness_raw_inverted : (handshake Cfg.asFound txtClean 11).1 = .panic := by decide

/-- repaired: the same path negotiates TXT / Base128 / Raw -/
example : ∃ p tr, handshake Cfg.gen txtClean 11 = (.ok p, tr) ∧ p.q = .txt ∧ p.down = .raw := by
  refine ⟨_, _, rfl, ?_, ?_⟩ <;> decide

/-- a TXT-only path whose answers come back with the right length but changed content for every codec
    except Base32 (e.g. answers are lower-cased) -/
def txtFolded : Oracle := fun pr =>
  if pr.q = .txt then
    match pr.cmd with
    | .y .b32 => .k
    | .y _ => .c
    | .r _ => match pr.down with
      | some .b32 => .k
      | _ => .c
    | _ => .k
  else .t

/-- as found: a corrupted test reply counts as success, the densest codec is selected and the handshake
    fails at the fragment probe although Base32 works on this path -/
theorem C11_witness_mismatch_accepted :
    (handshake { Cfg.gen with downMismatchIsError := false } txtFolded 11).1 = .err .corrupt := by decide

/-- repaired: the same path settles on Base32 downstream and succeeds -/
example : ∃ p tr, handshake Cfg.gen txtFolded 11 = (.ok p, tr) ∧ p.down = .b32 := by
  refine ⟨_, _, rfl, ?_⟩; decide

end SA.DnsHandshake

#print axioms SA.DnsHandshake.C11_repairs_in_source
#print axioms SA.DnsHandshake.C11_terminates
#print axioms SA.DnsHandshake.C11_terminates_search
#print axioms SA.DnsHandshake.C11_terminates_search_general
#print axioms SA.DnsHandshake.C11_witness_loop
#print axioms SA.DnsHandshake.C11_failure_reported
#print axioms SA.DnsHandshake.C11_success_sound_partial
#print axioms SA.DnsHandshake.C11_success_sound_gen
#print axioms SA.DnsHandshake.C11_fragment_probe_monotone
#print axioms SA.DnsHandshake.C11_witness_raw_inverted
#print axioms SA.DnsHandshake.C11_witness_mismatch_accepted

namespace SA.PkgState
/-- **no_hidden_process_state**: the models of this property are functions of their arguments and of the objects they are
    handed; the packages they model keep no package-level variables besides these (regenerated inventory: error
    sentinels, tables, compiled patterns, the two session time-outs).  A new package-level variable — a counter, a cache, a
    scratch buffer, a shared map, a registry — would make later calls depend on earlier ones, or concurrent calls on each
    other, outside anything a per-call comparison of model and code can see. -/
theorem C11_no_hidden_process_state :
    Gen.pkgVarNames_dns = ["ConnectionTimeout", "ErrConnectionFailed", "ErrHandshakeNotCompleted", "OldConnectionTimeout"] := by decide
end SA.PkgState

#print axioms SA.PkgState.C11_no_hidden_process_state

/-
  C11, continued — probe-then-COMMIT under a path that fails at the commit (round 9: failure handling).

  `C11_success_sound_partial` is about a static path: the same probe always has the same outcome.  A real path loses
  single datagrams.  The decisive moment is the set-options exchange that makes the server adopt the probed value: if
  that one exchange fails and the client carries on as if nothing had happened, Handshake reports success while the
  server still uses its default (for the fragment size: 1534-byte fragments the path may not carry).

  Over the model SA.Model.DnsCommit, with the shape of the four commit functions regenerated from the source:

  * `C11_commit_frag_reports_failure` — SwitchFragmentSize as in the source: for EVERY schedule of lost queries / lost
    answers / acknowledged attempts and every probed value, if the function returns nil then client and server both
    hold the probed value.  (Not covered, and named: the server-error branch and five recognised time-outs return nil
    with the default in force - `C11_witness_commit_frag_server_error`; neither is reachable on the simulated family.)
  * `C11_commit_codec_query_lost_sound` — codec / lazy commits: for every schedule of LOST QUERIES and acknowledged
    attempts both ends agree afterwards (the client falls back to what the server still uses).
  * `C11_witness_commit_error_swallowed` — the same loop with "communication error ⇒ log and return nil" (the
    single-exit tidy-up whose `return err` resolves to a fresh variable): one lost query ⇒ nil although the server cuts
    its default size.
  * `C11_witness_commit_codec_answer_lost` — as found: a lost ANSWER of a codec switch leaves the server on the new
    codec and the client on Base32, and the function returns nil.
-/
import SA.Model.DnsCommit
namespace SA.DnsCommit

def lossy (fs : List Fate) : Prop := ∀ f ∈ fs, f = .ok ∨ f = .ql ∨ f = .al
def queryLossOnly (fs : List Fate) : Prop := ∀ f ∈ fs, f = .ok ∨ f = .ql

/-- the regenerated shapes are the ones the theorems below are about -/
theorem C11_commit_shapes_in_source :
    Shape.gen "SwitchFragmentSize" = { tries := 5, commErr := .retErr, srvErr := .retNil, holdsReq := false } ∧
    Shape.gen "SetEncodingUpstream" = { tries := 5, commErr := .retNil, srvErr := .retNil, holdsReq := true } ∧
    Shape.gen "SetEncodingDownstream" = { tries := 5, commErr := .retNil, srvErr := .retNil, holdsReq := true } ∧
    Shape.gen "AutodetectLazyMode" = { tries := 5, commErr := .fallThrough, srvErr := .fallThrough, holdsReq := true } := by
  decide

/-- a commit loop that returns the error of a failed exchange and adopts the value only on acknowledgement: nil ⇒ both
    ends hold the requested value — for every schedule of losses, every number of tries ≥ 1, every value -/
theorem C11_commit_sound_general (sh : Shape) (hc : sh.commErr = .retErr) (hh : sh.holdsReq = false)
    (req dflt : String) (k : Nat) (fs : List Fate) (hl : lossy fs) (st : St) (r : St)
    (h : loop { shape := sh, req := req, dflt := dflt } (k + 1) fs st = (.nil, r)) :
    r.cv = req ∧ r.sv = req := by
  rcases fs with _ | ⟨f, t⟩
  · simp [loop, hh] at h; subst h; exact ⟨rfl, rfl⟩
  · cases f
    · simp [loop, hh] at h; subst h; exact ⟨rfl, rfl⟩
    · simp [loop, hc] at h
    · simp [loop, hh, hc] at h
    · rcases hl .srvErr (by simp) with h1 | h1 | h1 <;> cases h1
    · rcases hl .tmo (by simp) with h1 | h1 | h1 <;> cases h1

theorem C11_commit_frag_reports_failure (req : String) (fs : List Fate) (hl : lossy fs) (r : St)
    (h : run { shape := Shape.gen "SwitchFragmentSize", req := req, dflt := dfltOfStep "oFrag" } fs = (.nil, r)) :
    r.cv = req ∧ r.sv = req := by
  have hs := C11_commit_shapes_in_source.1
  unfold run at h
  simp only [hs] at h
  exact C11_commit_sound_general _ rfl rfl req _ 4 fs hl _ r h

/-- codec / lazy commits (client holds the value, falls back on failure): lost queries only ⇒ both ends agree -/
theorem C11_commit_agree_general (sh : Shape) (hh : sh.holdsReq = true) (hc : sh.commErr = .retNil ∨ sh.commErr = .fallThrough)
    (req dflt : String) :
    ∀ (k : Nat) (fs : List Fate), queryLossOnly fs → ∀ (st r : St) (ret : Ret), st.sv = dflt →
      loop { shape := sh, req := req, dflt := dflt } k fs st = (ret, r) → ret = .nil ∧ r.cv = r.sv := by
  intro k
  induction k with
  | zero =>
    intro fs _ st r ret hsv h
    simp [loop, failClient, hh] at h
    obtain ⟨h1, h2⟩ := h
    subst h2; exact ⟨h1.symm, by simp [hsv]⟩
  | succ k ih =>
    intro fs hl st r ret hsv h
    rcases fs with _ | ⟨f, t⟩
    · simp [loop, hh] at h; obtain ⟨h1, h2⟩ := h; subst h2; exact ⟨h1.symm, rfl⟩
    · have htail : queryLossOnly t := fun f hf => hl f (List.mem_cons_of_mem _ hf)
      cases f
      · simp [loop, hh] at h; obtain ⟨h1, h2⟩ := h; subst h2; exact ⟨h1.symm, rfl⟩
      · rcases hc with hc | hc
        · simp [loop, hc, failClient, hh] at h
          obtain ⟨h1, h2⟩ := h; subst h2; exact ⟨h1.symm, by simp [hsv]⟩
        · simp [loop, hc] at h
          exact ih t htail _ r ret (by simp [failClient, hh, hsv]) h
      · rcases hl .al (by simp) with h1 | h1 <;> cases h1
      · rcases hl .srvErr (by simp) with h1 | h1 <;> cases h1
      · rcases hl .tmo (by simp) with h1 | h1 <;> cases h1

theorem C11_commit_codec_query_lost_sound (fn : String)
    (hfn : fn = "SetEncodingUpstream" ∨ fn = "SetEncodingDownstream" ∨ fn = "AutodetectLazyMode")
    (req dflt : String) (fs : List Fate) (hl : queryLossOnly fs) (ret : Ret) (r : St)
    (h : run { shape := Shape.gen fn, req := req, dflt := dflt } fs = (ret, r)) : ret = .nil ∧ r.cv = r.sv := by
  obtain ⟨_, h2, h3, h4⟩ := C11_commit_shapes_in_source
  unfold run at h
  rcases hfn with hfn | hfn | hfn <;> subst hfn
  · exact C11_commit_agree_general _ (by rw [h2]) (by rw [h2]; exact Or.inl rfl) req dflt _ fs hl _ r ret rfl h
  · exact C11_commit_agree_general _ (by rw [h3]) (by rw [h3]; exact Or.inl rfl) req dflt _ fs hl _ r ret rfl h
  · exact C11_commit_agree_general _ (by rw [h4]) (by rw [h4]; exact Or.inr rfl) req dflt _ fs hl _ r ret rfl h

/-- the tidy-up that swallows the communication error: one lost query, nil returned, the server still cuts 1534 -/
theorem C11_witness_commit_error_swallowed :
    run { shape := { tries := 5, commErr := .retNil, srvErr := .retNil, holdsReq := false }, req := "478", dflt := "1534" } [.ql]
      = (.nil, { cv := "0", sv := "1534", n := 1 }) := by decide

/-- as found: the server-error branch of SwitchFragmentSize returns the (nil) transport error -/
theorem C11_witness_commit_frag_server_error :
    run { shape := Shape.gen "SwitchFragmentSize", req := "478", dflt := "1534" } [.srvErr]
      = (.nil, { cv := "0", sv := "1534", n := 1 }) := by decide

/-- as found: a lost ANSWER of the upstream codec switch: server on Base128, client back on Base32, nil returned -/
theorem C11_witness_commit_codec_answer_lost :
    run { shape := Shape.gen "SetEncodingUpstream", req := "b128", dflt := "b32" } [.al]
      = (.nil, { cv := "b32", sv := "b128", n := 1 }) := by decide

/-- non-vacuity: an acknowledged commit returns nil with the value at both ends; a lost one returns an error -/
example : run { shape := Shape.gen "SwitchFragmentSize", req := "478", dflt := "1534" } []
    = (.nil, { cv := "478", sv := "478", n := 1 }) := by decide
example : (run { shape := Shape.gen "SwitchFragmentSize", req := "478", dflt := "1534" } [.ql]).1 = .err := by decide
example : lossy [.ql, .al, .ok] := by intro f hf; simp at hf; rcases hf with h | h | h <;> simp [h]
example : run { shape := Shape.gen "AutodetectLazyMode", req := "1", dflt := "0" } [.ql]
    = (.nil, { cv := "0", sv := "0", n := 2 }) := by decide

end SA.DnsCommit

#print axioms SA.DnsCommit.C11_commit_shapes_in_source
#print axioms SA.DnsCommit.C11_commit_sound_general
#print axioms SA.DnsCommit.C11_commit_frag_reports_failure
#print axioms SA.DnsCommit.C11_commit_agree_general
#print axioms SA.DnsCommit.C11_commit_codec_query_lost_sound
#print axioms SA.DnsCommit.C11_witness_commit_error_swallowed
#print axioms SA.DnsCommit.C11_witness_commit_frag_server_error
#print axioms SA.DnsCommit.C11_witness_commit_codec_answer_lost

/-
C16, direct route taken = the upstreams are not touched, however the direct connection ends.
Model: SA.Model.DirectEnd (HandleConnection over the regenerated return values of ConnectDirectly and
the policy model).  Correspondence: component `poldirect`.
-/
import SA.Model.DirectEnd

namespace SA.DirectEnd
open SA.Policy

/-- The regenerated fact: `ConnectDirectly` returns false iff the dial failed; with a successful dial the
    piping runs and the answer is true however the piping ends. (Breaks when the source changes.) -/
theorem C16_direct_returns :
    Gen.c16DirectReturns = [("dial-failed", "false", false), ("pipe-clean", "true", true), ("pipe-error", "true", true)]
    ∧ DFacts.current = DFacts.intended := by decide

/-- For the code as it is, in EVERY state of the shared upstreams (session intact, lost, none, even a
    blocked mutex), for every upstream list and every policy facts: a local connection whose forward
    address accepts the dial is served by it and — however the direct connection ends: closed or reset,
    by either side — the upstreams are not touched: the shared state is unchanged (no dial, no physical
    connection opened or closed) and no logical connection is opened. -/
theorem C16_direct_end_leaves_upstreams (F : Facts) (c : Cfg) (sh : Sh) (e : End) :
    let r := handleConn DFacts.current F c sh true e
    r.who = .direct ∧ r.sh = sh ∧ r.logical = 0 ∧ r.touched sh = false := by
  have h : DFacts.current = DFacts.intended := C16_direct_returns.2
  rw [h]
  cases e <;> simp [handleConn, connectDirectly, pathOf, End.isError, DFacts.intended, Res.touched]

/-- General form: whenever `ConnectDirectly` answers true on the path taken, nothing is touched. -/
theorem C16_direct_taken_untouched (D : DFacts) (F : Facts) (c : Cfg) (sh : Sh) (dialOk : Bool) (e : End)
    (h : connectDirectly D (pathOf dialOk e) = true) :
    (handleConn D F c sh dialOk e).sh = sh ∧ (handleConn D F c sh dialOk e).logical = 0 := by
  simp [handleConn, h]

/-- …and only an unreachable forward address sends the connection to the upstreams: then HandleConnection
    is exactly the policy's `connect` without forward address (ordered fail-over, reuse, reconnect:
    C16_ordered_failover, C16_reuse, C16_reconnect_after_loss apply). -/
theorem C16_direct_unreachable_falls_back (F : Facts) (c : Cfg) (sh : Sh) (e : End) :
    let r := handleConn DFacts.current F c sh false e
    let k := connect F { c with fwd := .absent } sh true
    r.sh = k.1 ∧ r.who = k.2.1 ∧ r.carrier = k.2.2 := by
  have h : DFacts.current = DFacts.intended := C16_direct_returns.2
  rw [h]
  simp [handleConn, connectDirectly, pathOf, DFacts.intended]

/-- The whole `poldirect` history: with the current code no direct event of any history over any list
    changes the shared state. -/
theorem C16_direct_events_inert (F : Facts) (c : Cfg) (m : Sim) (ch : Char) (e : End) (he : endOf ch = some e) :
    (simEvent DFacts.current F c m ch).map (fun m' => m'.sh) = some m.sh := by
  have h := (C16_direct_end_leaves_upstreams F c m.sh e).2.1
  simp only [simEvent, he]
  simpa using h

/-- Witness of the seeded behaviour (error handling of dial and piping "unified" into one
    `if err != nil { …; return false }`): one usable upstream, nothing stored; the forward target serves
    the local connection and then resets it — the finished connection is taken to the upstreams:
    upstream 0 is dialled, a physical connection is held and a logical connection is opened.  A clean
    end and a refused dial behave as before, which is why nothing else notices. -/
theorem C16_witness_unified_error_branch :
    let c := Cfg.simple false .ok [.okPlain]
    let r := handleConn DFacts.unified Facts.current c Sh.init true .targetReset
    r.who = .direct ∧ r.sh.dials = [0] ∧ held r.sh = 1 ∧ r.logical = 1 ∧ r.touched Sh.init = true
    ∧ (handleConn DFacts.unified Facts.current c Sh.init true .appReset).logical = 1
    ∧ (handleConn DFacts.unified Facts.current c Sh.init true .targetClose).sh = Sh.init
    ∧ (handleConn DFacts.unified Facts.current c Sh.init true .appClose).sh = Sh.init
    ∧ (handleConn DFacts.intended Facts.current c Sh.init true .targetReset).sh = Sh.init := by decide

/-- With an intact session the unified branch dials nothing — only the logical connection shows. -/
theorem C16_witness_unified_on_intact_session :
    let c := Cfg.simple false .ok [.okPlain]
    let s1 := (connect Facts.current { c with fwd := .absent } Sh.init true).1
    let r := handleConn DFacts.unified Facts.current c s1 true .targetReset
    s1.stored = some 0 ∧ r.sh = s1 ∧ r.logical = 1 ∧ r.touched s1 = true
    ∧ (handleConn DFacts.intended Facts.current c s1 true .targetReset).logical = 0 := by decide

-- non-vacuity: the hypothesis of C16_direct_taken_untouched is met by the current code on every ending,
-- and the fall-back really dials
example : ∀ e : End, connectDirectly DFacts.current (pathOf true e) = true := by intro e; cases e <;> decide
example : (handleConn DFacts.current Facts.current (Cfg.simple false .ok [.refused, .okPlain]) Sh.init false .appClose).sh.dials = [0, 1] := by decide
example : endOf 'r' = some .targetReset := rfl

end SA.DirectEnd

#print axioms SA.DirectEnd.C16_direct_returns
#print axioms SA.DirectEnd.C16_direct_end_leaves_upstreams
#print axioms SA.DirectEnd.C16_direct_taken_untouched
#print axioms SA.DirectEnd.C16_direct_unreachable_falls_back
#print axioms SA.DirectEnd.C16_direct_events_inert
#print axioms SA.DirectEnd.C16_witness_unified_error_branch
#print axioms SA.DirectEnd.C16_witness_unified_on_intact_session

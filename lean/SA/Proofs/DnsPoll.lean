/-
  SA.Proofs.DnsPoll — the poll loop of the goroutine `ClientDnsConnection.Handshake` starts
  (`pollBody`, `pollLoop` of SA.Model.DnsWrites) on a healthy path.

  * With `pollArg = 0` (`dc.SendAndReceive(dc.out.NextChunk())`) one turn is the two SA.Queue events
    `.xchg .ql` (`NextChunk` → `cleanAckedChunks`) and `.xchg .d` (the delivered exchange): `pollBody_healthy`;
    with `pollStops = 0` `n` turns are `pollEvs n`, a write-free continuation with `n` delivered exchanges:
    `pollLoop_healthy`, `pollEvs_ok`, `pollEvs_count` — so `C07_eventual_delivery_lossy` applies.
  * With `pollArg = 1` (`dc.SendAndReceive(nil)`) a turn on a healthy path is `bareXchg … true true`, whatever
    the bookkeeping fields of the core are: `pollBody_bare`, `pollLoop_bare_fix` (a state that one bare exchange
    maps to itself stays put for every number of turns).
-/
import SA.Proofs.DnsWrites
import SA.Proofs.QueueLive
namespace SA.DnsWrites
open SA.Queue

/-- the SA.Queue events of `n` turns of the loop on a healthy path -/
def pollEvs : Nat → List Ev
  | 0 => []
  | n + 1 => Ev.xchg .ql :: Ev.xchg .d :: pollEvs n

theorem pollEvs_ok (K : Nat) : ∀ n, (pollEvs n).all (tailOk K) = true
  | 0 => rfl
  | n + 1 => by simp [pollEvs, tailOk, pollEvs_ok K n]

theorem pollEvs_count : ∀ n, (pollEvs n).countP isD = n
  | 0 => rfl
  | n + 1 => by simp [pollEvs, isD, List.countP_cons, pollEvs_count n]

/-- the path is healthy: the script is used up and the default fate is `ok` -/
def Core.Healthy (c : Core) : Prop := c.fates = [] ∧ c.dflt = .ok

section
variable {f : Facts} {mtu : Nat}

theorem pollBody_healthy (hpoll : f.pollArg = 0) {k : Nat} (hk : f.tries = k + 1) {c : Core} (h : c.Healthy) :
    (pollBody f mtu c).1.sys = runS f.cfg mtu c.sys [.xchg .ql, .xchg .d] ∧ (pollBody f mtu c).1.Healthy := by
  obtain ⟨hf, hd⟩ := h
  unfold pollBody
  rw [if_pos hpoll, hk]
  simp [sendRecv, tryOnce, nextChunk, Core.ap, hf, hd, runS, Core.Healthy]

theorem pollLoop_healthy (hpoll : f.pollArg = 0) (hstop : f.pollStops = 0) {k : Nat} (hk : f.tries = k + 1) :
    ∀ (n : Nat) (c : Core), c.Healthy →
      (pollLoop f mtu n c).sys = runS f.cfg mtu c.sys (pollEvs n) ∧ (pollLoop f mtu n c).Healthy := by
  intro n
  induction n with
  | zero => intro c h; exact ⟨rfl, h⟩
  | succ n ih =>
    intro c h
    obtain ⟨h1, h2⟩ := pollBody_healthy (mtu := mtu) hpoll hk h
    unfold pollLoop
    simp only [hstop, ne_eq, not_true_eq_false, and_false, if_false]
    obtain ⟨i1, i2⟩ := ih _ h2
    refine ⟨?_, i2⟩
    rw [i1, h1]
    rfl

theorem pollBody_bare (hpoll : f.pollArg ≠ 0) {k : Nat} (hk : f.tries = k + 1) {c : Core} (h : c.Healthy) :
    (pollBody f mtu c).1.sys = (bareXchg f.cfg c.sys true true).1 ∧ (pollBody f mtu c).1.Healthy := by
  obtain ⟨hf, hd⟩ := h
  unfold pollBody
  rw [if_neg hpoll, hk]
  simp [sendRecvBare, tryOnceBare, hf, hd, Core.Healthy]

/-- a state of the queue pair that a bare exchange maps to itself is never left by the bare-poll loop -/
theorem pollLoop_bare_fix (hpoll : f.pollArg ≠ 0) {k : Nat} (hk : f.tries = k + 1) {S : Sys}
    (hfix : (bareXchg f.cfg S true true).1 = S) :
    ∀ (n : Nat) (c : Core), c.Healthy → c.sys = S → (pollLoop f mtu n c).sys = S := by
  intro n
  induction n with
  | zero => intro c _ hs; exact hs
  | succ n ih =>
    intro c h hs
    obtain ⟨h1, h2⟩ := pollBody_bare (mtu := mtu) hpoll hk h
    have hS : (pollBody f mtu c).1.sys = S := by rw [h1, hs, hfix]
    unfold pollLoop
    simp only
    split
    · exact hS
    · exact ih _ h2 hS

end

end SA.DnsWrites

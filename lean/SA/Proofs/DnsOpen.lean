/-
  SA.Proofs.DnsOpen — what a successful version request ("open") does to the server state (C13).

  * `newUser_opens`: a successful `newUser` takes an identifier whose live slot was empty, puts a NEW session
    object (heap index = old heap length) with fresh queues there, owned by the caller's address, and leaves
    every other live slot and every existing session object alone — whatever the address is, in particular
    when it equals the address of sessions that are live already.
  * `onMessage_version`: the only way `onMessage` answers `v:OK:<uid>` is `hVersion` → `newUser` succeeding on
    the state that `validateAndGetUser(0, addr)` left (equal to the state before, or with the last-contact time
    of one session of the same address refreshed): no other handler produces a version answer
    (`*_notVersion`), `finish` only turns answers into drops.
-/
import SA.Proofs.DnsServer

namespace SA.DnsServer
open SA.Go SA.Go.Res

def Ans.isVersion : Ans → Bool
  | .version _ => true
  | _ => false

theorem finish_isVersion (cd : Codec) (m : Msg) (dl p c n : Nat) (a : Ans) :
    (finish cd m dl p c n a).isVersion = true → finish cd m dl p c n a = a := by
  unfold finish
  split
  · intro h; simp [Ans.isVersion] at h
  · intro _; rfl

theorem finish_notVersion (cd : Codec) (m : Msg) (dl p c n : Nat) (a : Ans) (h : a.isVersion = false) :
    (finish cd m dl p c n a).isVersion = false := by
  unfold finish
  split
  · rfl
  · exact h

theorem errAns_notVersion (cd : Codec) (m : Msg) (dl cmd p c x : Nat) (e : String) :
    (errAns cd m dl cmd p c x e).isVersion = false :=
  finish_notVersion _ _ _ _ _ _ _ rfl

/-- the state `validateAndGetUser` leaves: the same, or one session's last-contact time refreshed -/
def Touched (σ σ1 : Srv) : Prop := σ1 = σ ∨ ∃ s, σ1 = touch σ s

theorem vres_touched {σ : Srv} {uid addr : Nat} {r : Srv × Option Nat × VErr} (h : VRes σ uid addr r) : Touched σ r.1 := by
  cases h with
  | badUser _ => exact Or.inl rfl
  | badConn s _ _ _ => exact Or.inl rfl
  | badIp s _ _ => exact Or.inl rfl
  | ok s _ _ => exact Or.inr ⟨s, rfl⟩

theorem hPacket_notVersion (cd : Codec) (dl : Nat) (σ : Srv) (m : Msg) (uid ack : Nat) (pkt : Option (Nat × List Nat))
    (σ' : Srv) (a : Ans) (h : hPacket cd dl σ m uid ack pkt = ok (σ', a)) : a.isVersion = false := by
  unfold hPacket at h
  cases hv : validate σ uid m.addr with
  | panic => simp [hv] at h
  | ok r =>
    obtain ⟨σ1, user, e⟩ := r
    simp only [hv, Res.bind_ok] at h
    split at h
    · split at h
      · simp only [Res.pure_eq, Res.ok.injEq, Prod.mk.injEq] at h
        rw [← h.2]; exact finish_notVersion _ _ _ _ _ _ _ rfl
      · split at h
        · simp only [Res.pure_eq, Res.ok.injEq, Prod.mk.injEq] at h
          rw [← h.2]; exact finish_notVersion _ _ _ _ _ _ _ rfl
        · simp only [Res.pure_eq, Res.ok.injEq, Prod.mk.injEq] at h
          rw [← h.2]; exact finish_notVersion _ _ _ _ _ _ _ rfl
    · simp only [Res.pure_eq, Res.ok.injEq, Prod.mk.injEq] at h
      rw [← h.2]; exact errAns_notVersion _ _ _ _ _ _ _ _

theorem hOptions_notVersion (cd : Codec) (dl : Nat) (σ : Srv) (m : Msg) (uid : Nat) (o : Options)
    (σ' : Srv) (a : Ans) (h : hOptions cd dl σ m uid o = ok (σ', a)) : a.isVersion = false := by
  unfold hOptions at h
  cases hv : validate σ uid m.addr with
  | panic => simp [hv] at h
  | ok r =>
    obtain ⟨σ1, user, e⟩ := r
    simp only [hv, Res.bind_ok] at h
    split at h
    · rename_i s
      split at h
      · cases hc : closeConnection σ1 s with
        | panic => simp [hc] at h
        | ok σ2 =>
          simp only [hc, Res.bind_ok, Res.pure_eq, Res.ok.injEq, Prod.mk.injEq] at h
          rw [← h.2]; exact finish_notVersion _ _ _ _ _ _ _ rfl
      · split at h
        · simp only [Res.pure_eq, Res.ok.injEq, Prod.mk.injEq] at h
          rw [← h.2]; exact errAns_notVersion _ _ _ _ _ _ _ _
        · simp only [Res.pure_eq, Res.ok.injEq, Prod.mk.injEq] at h
          rw [← h.2]; exact finish_notVersion _ _ _ _ _ _ _ rfl
    · simp only [Res.pure_eq, Res.ok.injEq, Prod.mk.injEq] at h
      rw [← h.2]; exact errAns_notVersion _ _ _ _ _ _ _ _

theorem hFragTest_notVersion (cd : Codec) (dl : Nat) (σ : Srv) (m : Msg) (uid size : Nat)
    (σ' : Srv) (a : Ans) (h : hFragTest cd dl σ m uid size = ok (σ', a)) : a.isVersion = false := by
  unfold hFragTest at h
  cases hv : validate σ uid m.addr with
  | panic => simp [hv] at h
  | ok r =>
    obtain ⟨σ1, user, e⟩ := r
    simp only [hv, Res.bind_ok] at h
    split at h
    · split at h
      · simp only [Res.pure_eq, Res.ok.injEq, Prod.mk.injEq] at h
        rw [← h.2]; exact errAns_notVersion _ _ _ _ _ _ _ _
      · simp only [Res.pure_eq, Res.ok.injEq, Prod.mk.injEq] at h
        rw [← h.2]; exact finish_notVersion _ _ _ _ _ _ _ rfl
    · simp only [Res.pure_eq, Res.ok.injEq, Prod.mk.injEq] at h
      rw [← h.2]; exact errAns_notVersion _ _ _ _ _ _ _ _

theorem hUpTest_notVersion (cd : Codec) (dl : Nat) (σ : Srv) (m : Msg) (uid : Nat) (p : List Nat)
    (σ' : Srv) (a : Ans) (h : hUpTest cd dl σ m uid p = ok (σ', a)) : a.isVersion = false := by
  unfold hUpTest at h
  cases hv : validate σ uid m.addr with
  | panic => simp [hv] at h
  | ok r =>
    obtain ⟨σ1, user, e⟩ := r
    simp only [hv, Res.bind_ok] at h
    split at h
    · simp only [Res.pure_eq, Res.ok.injEq, Prod.mk.injEq] at h
      rw [← h.2]; exact finish_notVersion _ _ _ _ _ _ _ rfl
    · simp only [Res.pure_eq, Res.ok.injEq, Prod.mk.injEq] at h
      rw [← h.2]; exact errAns_notVersion _ _ _ _ _ _ _ _

/-- a successful `hVersion` is a successful `newUser` -/
theorem hVersion_version (cd : Codec) (dl : Nat) (σ : Srv) (m : Msg) (v : Nat) (σ' : Srv) (uid : Nat)
    (h : hVersion cd dl σ m v = (σ', .version uid)) : newUser σ m.addr = (σ', some uid) := by
  unfold hVersion at h
  split at h
  · have := errAns_notVersion cd m dl 118 3 84 5 SA.Gen.errBadVersion
    simp only [Prod.mk.injEq] at h
    rw [h.2] at this; simp [Ans.isVersion] at this
  · split at h
    · next σ1 u hn =>
      simp only [Prod.mk.injEq] at h
      have hv : (finish cd m dl 3 84 5 (.version u)).isVersion = true := by rw [h.2]; rfl
      have := finish_isVersion _ _ _ _ _ _ _ hv
      rw [this] at h
      obtain ⟨h1, h2⟩ := h
      injection h2 with h2
      rw [hn, h1, h2]
    · simp only [Prod.mk.injEq] at h
      have := errAns_notVersion cd m dl 118 3 84 5 SA.Gen.errServerFull
      rw [h.2] at this; simp [Ans.isVersion] at this

/-- **the only source of a version answer** -/
theorem onMessage_version (cd : Codec) (dom : List Nat) (σ σ' : Srv) (m : Msg) (uid : Nat)
    (h : onMessage cd dom σ m = ok (σ', .version uid)) :
    ∃ σ1, Touched σ σ1 ∧ newUser σ1 m.addr = (σ', some uid) := by
  unfold onMessage at h
  cases h1 : stripDomain m.name dom with
  | panic => simp [h1] at h
  | ok request =>
  simp only [h1, Res.bind_ok] at h
  cases h2 : findCmd SA.Gen.commandTable request with
  | panic => simp [h2] at h
  | ok c =>
  simp only [h2, Res.bind_ok] at h
  have hbad : ∀ (σ0 : Srv) (e : String), ¬ (ok (σ0, errAns cd m dom.length 101 1 84 0 e) : Res (Srv × Ans)) = ok (σ', .version uid) := by
    intro σ0 e he
    simp only [Res.ok.injEq, Prod.mk.injEq] at he
    have := errAns_notVersion cd m dom.length 101 1 84 0 e
    rw [he.2] at this; simp [Ans.isVersion] at this
  cases c with
  | none => exact absurd h (hbad _ _)
  | some c =>
    obtain ⟨code, needsUser, hasReq, hasResp⟩ := c
    dsimp only at h
    cases hasReq with
    | false => exact absurd h (hbad _ _)
    | true =>
      simp only [Bool.not_true, Bool.false_eq_true, ite_false] at h
      cases h3 : decodeHeader needsUser request with
      | panic => simp [h3] at h
      | ok hd =>
      simp only [h3, Res.bind_ok] at h
      cases hd with
      | none => simp at h
      | some p =>
        obtain ⟨rest, u⟩ := p
        dsimp only at h
        cases h4 : validate σ u m.addr with
        | panic => simp [h4] at h
        | ok r =>
        have ht : Touched σ r.1 := vres_touched (validate_vres h4)
        obtain ⟨σ1, user, uerr⟩ := r
        simp only [h4, Res.bind_ok] at h
        split at h
        · exact absurd h (hbad _ _)
        · split at h
          · exact absurd h (hbad _ _)
          · cases h5 : decodeRequest cd code needsUser true (upOf σ1 user) request with
            | panic => simp [h5] at h
            | ok q =>
            simp only [h5, Res.bind_ok] at h
            cases q with
            | none => exact absurd h (hbad _ _)
            | some q =>
              cases q with
              | version v =>
                simp only [Res.pure_eq, Res.ok.injEq] at h
                exact ⟨σ1, ht, hVersion_version cd dom.length σ1 m v σ' uid h⟩
              | options u' o =>
                have := hOptions_notVersion cd dom.length σ1 m u' o σ' _ h
                simp [Ans.isVersion] at this
              | fragTest u' n =>
                have := hFragTest_notVersion cd dom.length σ1 m u' n σ' _ h
                simp [Ans.isVersion] at this
              | downTest c' =>
                simp only [Res.pure_eq, Res.ok.injEq, hDownTest, Prod.mk.injEq] at h
                have := finish_notVersion cd m dom.length 2 c' downloadCodecCheckLen (.downOk c') rfl
                rw [h.2] at this; simp [Ans.isVersion] at this
              | upTest u' p' =>
                have := hUpTest_notVersion cd dom.length σ1 m u' p' σ' _ h
                simp [Ans.isVersion] at this
              | packet u' a' p' =>
                have := hPacket_notVersion cd dom.length σ1 m u' a' p' σ' _ h
                simp [Ans.isVersion] at this

/-! ### what a successful `newUser` does -/

theorem touched_live {σ σ1 : Srv} (h : Touched σ σ1) : σ1.live = σ.live ∧ σ1.heap.length = σ.heap.length := by
  rcases h with rfl | ⟨s, rfl⟩
  · exact ⟨rfl, rfl⟩
  · exact ⟨rfl, heap_length_modify _ _ _⟩

theorem newUser_opens {σ σ' : Srv} {addr uid : Nat} (h : newUser σ addr = (σ', some uid)) :
    σ.live[uid]? = some none ∧
    σ'.live[uid]? = some (some σ.heap.length) ∧
    σ'.heap.length = σ.heap.length + 1 ∧
    σ'.sess σ.heap.length = { uid := uid, owner := addr, last := σ.now } ∧
    (∀ j, j ≠ uid → σ'.live[j]? = σ.live[j]?) ∧
    (∀ sid, sid < σ.heap.length → σ'.sess sid = σ.sess sid) ∧
    σ'.retired = σ.retired := by
  rcases newUser_cases h with ⟨_, hu⟩ | ⟨i, hu, hfree, rfl⟩
  · simp at hu
  · injection hu with hu
    subst hu
    have hlt : uid < σ.live.length := by
      rcases Nat.lt_or_ge uid σ.live.length with h | h
      · exact h
      · rw [List.getElem?_eq_none h] at hfree; simp at hfree
    refine ⟨hfree, ?_, ?_, ?_, ?_, ?_, rfl⟩
    · simp [List.getElem?_set, hlt]
    · simp
    · exact sess_append_new σ _ _ _
    · intro j hj
      simp [List.getElem?_set, Ne.symm hj]
    · intro sid hs
      exact sess_append_old σ _ _ _ sid hs

end SA.DnsServer

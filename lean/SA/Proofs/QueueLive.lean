/-
  SA.Proofs.QueueLive — liveness of the DNS-tunnel queue pair (model SA.Model.Queue):
  "once the path stops losing, everything accepted arrives".

  On top of `SysInv` (SA.Proofs.Queue) this needs what the receiver's duplicate cache `InQ.acked`
  contains: exactly the sequence numbers of the last min(r, Max) chunks released in order
  (`InAck`; needs the regenerated fact `inTrim = 2`, i.e. `acked = acked[1:]` in the in-order branch).
  Consequences: the number the receiver waits for is never cached (so the head of `out` is released
  when it arrives), and the last released number is cached (so a retransmission of it is answered
  with success, not with "invalid chunk sequence").

  Variant: one delivered exchange removes the head of a non-empty `A.out`; for `B.out` the first
  delivered exchange may only carry the chunk (the acknowledgement travels in the *next* query), after
  that every delivered exchange removes the head: `nuB`.
-/
import SA.Proofs.Queue
namespace SA.Queue

/-! ### the receiver's cache -/

/-- `acked` of the receiver = sequence numbers of the chunks with index `cnt - L … cnt - 1`,
    `L = min cnt Max` -/
def InAck (c : Cfg) (s : Nat) (i : InQ) : Prop :=
  i.acked = (List.range' (i.cnt - min i.cnt c.max) (min i.cnt c.max)).map (seqOf s)

theorem InAck.mem_iff {c : Cfg} {s : Nat} {i : InQ} (h : InAck c s i) {v : Nat} :
    v ∈ i.acked ↔ ∃ j, j < i.cnt ∧ i.cnt ≤ j + c.max ∧ v = seqOf s j := by
  rw [h, List.mem_map]
  constructor
  · rintro ⟨j, hj, rfl⟩
    rw [List.mem_range'_1] at hj
    exact ⟨j, by omega, by omega, rfl⟩
  · rintro ⟨j, h1, h2, rfl⟩
    exact ⟨j, List.mem_range'_1.mpr (by omega), rfl⟩

/-- the number the receiver is waiting for is not in its cache -/
theorem InAck.not_next {c : Cfg} {s : Nat} {i : InQ} (h : InAck c s i) (hm : c.max < MOD) :
    seqOf s i.cnt ∉ i.acked := by
  intro hmem
  obtain ⟨j, h1, h2, h3⟩ := h.mem_iff.mp hmem
  unfold seqOf at h3
  omega

/-- the last released number is in the cache -/
theorem InAck.last_mem {c : Cfg} {s : Nat} {i : InQ} (h : InAck c s i) (hm : 1 ≤ c.max) {j : Nat}
    (hj : j + 1 = i.cnt) : seqOf s j ∈ i.acked :=
  h.mem_iff.mpr ⟨j, by omega, by omega, rfl⟩

theorem trim2_range (max cnt : Nat) :
    applyTrim 2 max (List.range' (cnt - min cnt max) (min cnt max + 1)) =
      List.range' (cnt + 1 - min (cnt + 1) max) (min (cnt + 1) max) := by
  unfold applyTrim
  simp only [List.length_range']
  by_cases h : max ≤ cnt
  · have h1 : min cnt max = max := Nat.min_eq_right h
    have h2 : min (cnt + 1) max = max := Nat.min_eq_right (by omega)
    rw [h1, h2]
    have h3 : max + 1 > max := by omega
    simp only [h3, if_true]
    rw [List.range'_succ]
    simp
    congr 1
    omega
  · have h1 : min cnt max = cnt := Nat.min_eq_left (by omega)
    have h2 : min (cnt + 1) max = cnt + 1 := Nat.min_eq_left (by omega)
    rw [h1, h2]
    have h3 : ¬ (cnt + 1 > max) := by omega
    simp only [h3, if_false]
    congr 1
    omega

theorem append_false {c : Cfg} {i : InQ} {op : Option Pkt} (h : (i.append c op).2 = false) :
    (i.append c op).1 = i := by
  cases op with
  | none => rfl
  | some p =>
    unfold InQ.append at h ⊢
    simp only at h ⊢
    by_cases h1 : p.seq ∈ i.acked
    · rw [if_pos h1]
    · by_cases h2 : p.seq = i.next
      · rw [if_neg h1, if_pos h2] at h; simp at h
      · by_cases h3 : inWindowL c i.next p.seq = true
        · rw [if_neg h1, if_neg h2, if_pos h3] at h; simp at h
        · rw [if_neg h1, if_neg h2, if_neg h3]

/-- `Append` keeps the cache characterisation as long as nothing is parked in `future` -/
theorem InAck.append {c : Cfg} {s : Nat} {i : InQ} (hi : InAck c s i) (ht : c.inTrim = 2)
    (hnext : i.next = seqOf s i.cnt) (hfut : i.future = []) (op : Option Pkt)
    (hpost : (i.append c op).1.future = []) : InAck c s (i.append c op).1 := by
  cases op with
  | none => exact hi
  | some p =>
    unfold InQ.append at hpost ⊢
    simp only at hpost ⊢
    split
    · exact hi
    · split
      · next hnm heq =>
        have hf : (i.appendPacket p).future = [] := hfut
        simp only [hf, List.length_nil, InQ.drain]
        show applyTrim c.inTrim c.max (i.acked ++ [p.seq]) =
          (List.range' (i.cnt + 1 - min (i.cnt + 1) c.max) (min (i.cnt + 1) c.max)).map (seqOf s)
        rw [heq, hnext, hi, ht, ← trim2_range, ← applyTrim_map, List.range'_concat, List.map_append]
        have : i.cnt - min i.cnt c.max + min i.cnt c.max = i.cnt := by omega
        simp [this]
      · next hnm hne =>
        split
        · next hwin =>
          simp [hnm, hne, hwin, hfut] at hpost
        · exact hi

/-! ### the cache characterisation along histories -/

section live
variable {c : Cfg} {sab sba K Bd : Nat}

theorem recv_ack {sOut sIn A : Nat} {e : End} {po : OutQ} {pi : InQ} (hc : Consts c A Bd)
    (ht : c.inTrim = 2)
    (lout : LinkInv c sOut A Bd e.outq pi) (lin : LinkInv c sIn A Bd po e.inq)
    {ack : Nat} {pkt : Option Pkt} {g j : Nat} (hm : MsgOk sOut sIn A po pi ack pkt g j)
    (ha : InAck c sIn e.inq) : InAck c sIn (e.inq.append c pkt).1 :=
  ha.append ht lin.hinext lin.hfut pkt (recv_inv hc lout lin hm).2.1.hfut

theorem serve_inq (b : End) (q : Query) : (serve c b q).1.inq = (b.inq.append c q.pkt).1 := by
  unfold serve
  simp only
  split
  · rfl
  · next h => exact (append_false (by simpa using h)).symm

theorem serve_ack {a b : End} {q : Query} (hc : Consts c (K + 1) Bd) (ht : c.inTrim = 2)
    (lab : LinkInv c sab (K + 1) Bd a.outq b.inq) (lba : LinkInv c sba (K + 1) Bd b.outq a.inq)
    (hm : MsgOk sba sab (K + 1) a.outq a.inq q.ack q.pkt q.gAck q.gPkt) (hb : InAck c sab b.inq) :
    InAck c sab (serve c b q).1.inq := by
  rw [serve_inq]; exact recv_ack (e := b) hc ht lba lab hm hb

theorem clientRecv_ack {a b : End} {r : Resp} (hc : Consts c (K + 1) Bd) (ht : c.inTrim = 2)
    (lab : LinkInv c sab (K + 1) Bd a.outq b.inq) (lba : LinkInv c sba (K + 1) Bd b.outq a.inq)
    (hr : RespOk sab sba b r) (ha : InAck c sba a.inq) : InAck c sba (clientRecv c a r).1.inq := by
  cases r with
  | err => exact ha
  | ok ack pkt g j =>
    have hm : MsgOk sab sba (K + 1) b.outq b.inq ack pkt g j := RespOk.to_msg hr
    exact recv_ack (e := a) hc ht lab lba hm ha

/-- `SysInv` plus the cache characterisation at both receivers -/
structure LiveInv (c : Cfg) (sab sba K Bd : Nat) (st : Sys) : Prop where
  inv : SysInv c sab sba K Bd st
  ackb : InAck c sab st.b.inq
  acka : InAck c sba st.a.inq

theorem xchg_live {st : Sys} (hc : Consts c (K + 1) Bd) (ht : c.inTrim = 2)
    (h : LiveInv c sab sba K Bd st) (f : Fate) (hf : f.Ok K) :
    LiveInv c sab sba K Bd (xchgS c st f) := by
  refine ⟨xchg_inv hc h.inv f hf, ?_, ?_⟩
  all_goals
    obtain ⟨hm1, hq0⟩ := mkQuery_eq hc h.inv
    have hmsg0 := hq0.to_msg (K := K) (Nat.zero_le _)
  · -- B's receiver
    cases f with
    | rp k =>
      simp only [xchgS]
      cases hk : st.hist[k]? with
      | none => exact h.ackb
      | some q =>
        have hmsg := (h.inv.hist k q hk).to_msg (K := K) (by simp [Fate.Ok] at hf; omega)
        exact serve_ack hc ht h.inv.lab h.inv.lba hmsg h.ackb
    | ql => simp only [xchgS]; exact h.ackb
    | al => simp only [xchgS]; exact serve_ack hc ht h.inv.lab h.inv.lba hmsg0 h.ackb
    | d => simp only [xchgS]; exact serve_ack hc ht h.inv.lab h.inv.lba hmsg0 h.ackb
    | dup1 =>
      simp only [xchgS]
      obtain ⟨s1, s2, _⟩ := serve_inv (b := st.b) hc h.inv.lab h.inv.lba hmsg0
      exact serve_ack hc ht s1 s2 hmsg0 (serve_ack hc ht h.inv.lab h.inv.lba hmsg0 h.ackb)
    | dup2 =>
      simp only [xchgS]
      obtain ⟨s1, s2, _⟩ := serve_inv (b := st.b) hc h.inv.lab h.inv.lba hmsg0
      exact serve_ack hc ht s1 s2 hmsg0 (serve_ack hc ht h.inv.lab h.inv.lba hmsg0 h.ackb)
  · -- A's receiver
    cases f with
    | rp k =>
      simp only [xchgS]
      cases hk : st.hist[k]? with
      | none => exact h.acka
      | some q => exact h.acka
    | ql => simp only [xchgS, hm1]; exact h.acka
    | al => simp only [xchgS, hm1]; exact h.acka
    | d =>
      simp only [xchgS, hm1]
      obtain ⟨s1, s2, _, _, _, _, _, _, s9⟩ := serve_inv (b := st.b) hc h.inv.lab h.inv.lba hmsg0
      exact clientRecv_ack hc ht s1 s2 s9 h.acka
    | dup1 =>
      simp only [xchgS, hm1]
      obtain ⟨s1, s2, s3, s4, _, _, _, _, s9⟩ := serve_inv (b := st.b) hc h.inv.lab h.inv.lba hmsg0
      obtain ⟨t1, t2, t3, t4, t5, _, t7, _, _⟩ :=
        serve_inv (b := (serve c st.b (mkQuery c st.a).2).1) (q := (mkQuery c st.a).2) hc s1 s2 hmsg0
      have s9' : RespOk sab sba (serve c (serve c st.b (mkQuery c st.a).2).1 (mkQuery c st.a).2).1
          (serve c st.b (mkQuery c st.a).2).2 := by
        refine s9.step t4 t5 t7 ?_
        intro ack pkt g j hr
        obtain ⟨e1, e2⟩ := serve_tight st.b (mkQuery c st.a).2 ack pkt g j hr
        have := t1.hr2; have := s1.hr1; have := t2.hr1; have := s2.hr2
        exact ⟨by omega, fun _ _ => by omega⟩
      exact clientRecv_ack hc ht t1 t2 s9' h.acka
    | dup2 =>
      simp only [xchgS, hm1]
      obtain ⟨s1, s2, _⟩ := serve_inv (b := st.b) hc h.inv.lab h.inv.lba hmsg0
      obtain ⟨t1, t2, _, _, _, _, _, _, t9⟩ :=
        serve_inv (b := (serve c st.b (mkQuery c st.a).2).1) (q := (mkQuery c st.a).2) hc s1 s2 hmsg0
      exact clientRecv_ack hc ht t1 t2 t9 h.acka

theorem writeEnd_inq (mtu : Nat) (e : End) (data : List Nat) : (writeEnd mtu e data).inq = e.inq := by
  unfold writeEnd; split <;> rfl

theorem step_live {st : Sys} {mtu : Nat} (hm : 0 < mtu) (hc : Consts c (K + 1) Bd) (ht : c.inTrim = 2)
    (h : LiveInv c sab sba K Bd st) (ev : Ev) (hev : evOk mtu K Bd ev = true) :
    LiveInv c sab sba K Bd (stepS c mtu st ev) := by
  cases ev with
  | xchg f =>
    apply xchg_live hc ht h f
    cases f <;> simp_all [evOk, Fate.Ok]
  | inject _ _ _ => simp [evOk] at hev
  | fack _ _ => simp [evOk] at hev
  | write side data =>
    refine ⟨step_inv hm hc h.inv _ hev, ?_, ?_⟩
    · cases side with
      | false => exact h.ackb
      | true => show InAck c sab (writeEnd mtu st.b data).inq; rw [writeEnd_inq]; exact h.ackb
    · cases side with
      | false => show InAck c sba (writeEnd mtu st.a data).inq; rw [writeEnd_inq]; exact h.acka
      | true => exact h.acka
  | read side n =>
    refine ⟨step_inv hm hc h.inv _ hev, ?_, ?_⟩
    · cases side with
      | false => exact h.ackb
      | true =>
        simp only [stepS, readEnd]
        split
        · exact h.ackb
        · exact h.ackb
    · cases side with
      | false =>
        simp only [stepS, readEnd]
        split
        · exact h.acka
        · exact h.acka
      | true => exact h.acka

theorem run_live {mtu : Nat} (hm : 0 < mtu) (hc : Consts c (K + 1) Bd) (ht : c.inTrim = 2) :
    ∀ (evs : List Ev) (st : Sys), LiveInv c sab sba K Bd st → evs.all (evOk mtu K Bd) = true →
      LiveInv c sab sba K Bd (runS c mtu st evs) := by
  intro evs
  induction evs with
  | nil => intro st h _; exact h
  | cons e es ih =>
    intro st h hall
    simp only [List.all_cons, Bool.and_eq_true] at hall
    exact ih _ (step_live hm hc ht h e hall.1) hall.2

theorem init_live (hsab : sab < MOD) (hsba : sba < MOD) : LiveInv c sab sba K Bd (init sab sba) :=
  ⟨init_inv hsab hsba, by simp [InAck, init], by simp [InAck, init]⟩

end live

/-! ### progress of one delivered exchange -/

section progress
variable {c : Cfg} {sab sba K Bd : Nat}

theorem LinkInv.out_len {s A : Nat} {o : OutQ} {i : InQ} (l : LinkInv c s A Bd o i) :
    o.out.length = o.nW - o.hd := by
  have := l.hlen; unfold OutQ.hd; omega

/-- the head of the sender's `out` arrives: the receiver answers success and has released it -/
theorem append_head {s A : Nat} {o : OutQ} {i : InQ} (l : LinkInv c s A Bd o i) (hc : Consts c A Bd)
    (ha : InAck c s i) {p : Pkt} (hp : o.out.head? = some p) :
    (i.append c (some p)).2 = true ∧ (i.append c (some p)).1.cnt = o.hd + 1 := by
  obtain ⟨d, hd, rfl⟩ := head_pktIs l hp
  have hr1 := l.hr1; have hr2 := l.hr2; have hbd := hc.bound; have hm1 := hc.max1
  unfold InQ.append
  simp only
  by_cases h1 : seqOf s o.hd ∈ i.acked
  · rw [if_pos h1]
    refine ⟨rfl, ?_⟩
    rcases Nat.lt_or_ge o.hd i.cnt with hlt | hge
    · show i.cnt = o.hd + 1
      omega
    · exfalso
      have : i.cnt = o.hd := by omega
      rw [← this] at h1
      exact ha.not_next (by omega) h1
  · rw [if_neg h1]
    by_cases h2 : seqOf s o.hd = i.next
    · rw [if_pos h2]
      refine ⟨rfl, ?_⟩
      have hf : (i.appendPacket ⟨seqOf s o.hd, d⟩).future = [] := l.hfut
      simp only [hf, List.length_nil, InQ.drain]
      show i.cnt + 1 = o.hd + 1
      rw [l.hinext] at h2; unfold seqOf at h2
      omega
    · exfalso
      have hne : i.cnt ≠ o.hd := by
        intro he; apply h2; rw [l.hinext, he]
      exact h1 (ha.last_mem hm1 (by omega))

theorem serve_ok {b : End} {q : Query} (h : (b.inq.append c q.pkt).2 = true) :
    serve c b q =
      ({ b with inq := (b.inq.append c q.pkt).1, outq := (b.outq.updateAcked c q.ack q.gAck).clean c },
       .ok (ackOf c (b.inq.append c q.pkt).1.next) ((b.outq.updateAcked c q.ack q.gAck).clean c).out.head?
         (b.inq.append c q.pkt).1.cnt ((b.outq.updateAcked c q.ack q.gAck).clean c).hd) := by
  unfold serve
  simp only [h, if_true]

/-- variant for B's out-queue: its length, plus one while A has not yet released its head -/
def nuB (st : Sys) : Nat :=
  if st.b.outq.out.length = 0 then 0
  else st.b.outq.out.length + (if st.a.inq.cnt = st.b.outq.hd + 1 then 0 else 1)

theorem nuB_le (st : Sys) : nuB st ≤ st.b.outq.out.length + 1 := by
  unfold nuB; split
  · omega
  · split <;> omega

theorem nuB_zero {st : Sys} (h : nuB st = 0) : st.b.outq.out = [] := by
  unfold nuB at h
  split at h
  · next h0 => exact List.eq_nil_of_length_eq_zero h0
  · omega

/-- one delivered exchange (a poll when `A.out` is empty): the head of a non-empty `A.out` is delivered,
    acknowledged and removed; the variant of `B.out` decreases; nothing is accepted -/
theorem d_progress {st : Sys} (hc : Consts c (K + 1) Bd)
    (h : LiveInv c sab sba K Bd st) :
    (xchgS c st .d).a.outq.out.length = st.a.outq.out.length - 1 ∧
    nuB (xchgS c st .d) ≤ nuB st - 1 ∧
    (xchgS c st .d).a.accR = st.a.accR ∧ (xchgS c st .d).b.accR = st.b.accR := by
  obtain ⟨hm1, hq0⟩ := mkQuery_eq hc h.inv
  have hmsg0 := hq0.to_msg (K := K) (Nat.zero_le _)
  have lab := h.inv.lab
  have lba := h.inv.lba
  -- the query
  have hqp : (mkQuery c st.a).2.pkt = st.a.outq.out.head? := by
    unfold mkQuery; simp only; rw [lab.clean_eq hc]
  have hqa : (mkQuery c st.a).2.ack = ackv sba st.a.inq.cnt := hq0.hack
  have hqg : (mkQuery c st.a).2.gAck = st.a.inq.cnt := rfl
  -- B handles the acknowledgement
  obtain ⟨u1, u2, u3, u4, u5⟩ := lba.updateAcked hc (g := st.a.inq.cnt) (Nat.le_refl _) (by omega)
  -- B handles the packet
  have happ : ((st.b.inq.append c (mkQuery c st.a).2.pkt).2 = true) ∧
      (st.a.outq.out ≠ [] → (st.b.inq.append c (mkQuery c st.a).2.pkt).1.cnt = st.a.outq.hd + 1) := by
    rw [hqp]
    cases hh : st.a.outq.out.head? with
    | none =>
      refine ⟨by first | rfl | trivial, fun hne => ?_⟩
      cases ho : st.a.outq.out with
      | nil => exact absurd ho hne
      | cons x xs => rw [ho] at hh; simp at hh
    | some p =>
      obtain ⟨a1, a2⟩ := append_head lab hc h.ackb hh
      exact ⟨a1, fun _ => a2⟩
  obtain ⟨s1, s2, s3, s4, _, _, _, _, s9⟩ := serve_inv (b := st.b) hc lab lba hmsg0
  have hsv := serve_ok (b := st.b) (q := (mkQuery c st.a).2) happ.1
  rw [hqa, hqg, u1.clean_eq hc] at hsv
  simp only [xchgS, hm1]
  rw [hsv] at s1 s2 s9 ⊢
  simp only at s1 s2 s9 ⊢
  -- A handles the answer
  have hackB : ackOf c (st.b.inq.append c (mkQuery c st.a).2.pkt).1.next
      = ackv sab (st.b.inq.append c (mkQuery c st.a).2.pkt).1.cnt := ackOf_eq hc s1
  obtain ⟨v1, v2, v3, v4, v5⟩ := s1.updateAcked hc
    (g := (st.b.inq.append c (mkQuery c st.a).2.pkt).1.cnt) (Nat.le_refl _) (by omega)
  simp only [clientRecv]
  rw [hackB]
  refine ⟨?_, ?_, trivial, trivial⟩
  · -- A.out
    rw [v1.out_len, lab.out_len]
    have e1 : (st.a.outq.updateAcked c (ackv sab (st.b.inq.append c (mkQuery c st.a).2.pkt).1.cnt)
        (st.b.inq.append c (mkQuery c st.a).2.pkt).1.cnt).nW = st.a.outq.nW := by
      rw [v1.hnW, lab.hnW, v2]
    rw [e1]
    by_cases hne : st.a.outq.out = []
    · have := lab.out_len; rw [hne] at this; simp at this
      have := v1.hlen
      omega
    · have := v5 (by rw [happ.2 hne])
      omega
  · -- B.out
    have hlen1 := u1.out_len
    have hlen0 := lba.out_len
    have e1 : (st.b.outq.updateAcked c (ackv sba st.a.inq.cnt) st.a.inq.cnt).nW = st.b.outq.nW := by
      rw [u1.hnW, lba.hnW, u2]
    -- after A's append: if B still has something queued, A has released its head
    have hcntA : (st.b.outq.updateAcked c (ackv sba st.a.inq.cnt) st.a.inq.cnt).out ≠ [] →
        (st.a.inq.append c (st.b.outq.updateAcked c (ackv sba st.a.inq.cnt) st.a.inq.cnt).out.head?).1.cnt
          = (st.b.outq.updateAcked c (ackv sba st.a.inq.cnt) st.a.inq.cnt).hd + 1 := by
      intro hne
      cases hh : (st.b.outq.updateAcked c (ackv sba st.a.inq.cnt) st.a.inq.cnt).out.head? with
      | none =>
        cases ho : (st.b.outq.updateAcked c (ackv sba st.a.inq.cnt) st.a.inq.cnt).out with
        | nil => exact absurd ho hne
        | cons x xs => rw [ho] at hh; simp at hh
      | some p => exact (append_head u1 hc h.acka hh).2
    have hr1 := lba.hr1; have hr2 := lba.hr2; have hl0 := lba.hlen; have hl1 := u1.hlen
    unfold nuB
    simp only
    by_cases hz : (st.b.outq.updateAcked c (ackv sba st.a.inq.cnt) st.a.inq.cnt).out.length = 0
    · rw [if_pos hz]; omega
    · rw [if_neg hz]
      have hne : (st.b.outq.updateAcked c (ackv sba st.a.inq.cnt) st.a.inq.cnt).out ≠ [] := by
        intro he; rw [he] at hz; exact hz rfl
      rw [if_pos (hcntA hne)]
      by_cases hz0 : st.b.outq.out.length = 0
      · exfalso; omega
      · rw [if_neg hz0]
        by_cases hcase : st.a.inq.cnt = st.b.outq.hd + 1
        · rw [if_pos hcase]
          have := u5 hcase
          omega
        · rw [if_neg hcase]
          omega

/-- `n` consecutive delivered exchanges -/
def tail (n : Nat) : List Ev := List.replicate n (Ev.xchg .d)

theorem tail_progress {mtu : Nat} (hc : Consts c (K + 1) Bd) (ht : c.inTrim = 2) :
    ∀ (n : Nat) (st : Sys), LiveInv c sab sba K Bd st →
      LiveInv c sab sba K Bd (runS c mtu st (tail n)) ∧
      (runS c mtu st (tail n)).a.outq.out.length ≤ st.a.outq.out.length - n ∧
      nuB (runS c mtu st (tail n)) ≤ nuB st - n ∧
      (runS c mtu st (tail n)).a.accR = st.a.accR ∧ (runS c mtu st (tail n)).b.accR = st.b.accR := by
  intro n
  induction n with
  | zero => intro st h; exact ⟨h, Nat.le_refl _, Nat.le_refl _, rfl, rfl⟩
  | succ n ih =>
    intro st h
    have h1 : LiveInv c sab sba K Bd (xchgS c st .d) := xchg_live hc ht h .d trivial
    obtain ⟨p1, p2, p3, p4⟩ := d_progress hc h
    obtain ⟨q0, q1, q2, q3, q4⟩ := ih (xchgS c st .d) h1
    have hrun : runS c mtu st (tail (n + 1)) = runS c mtu (xchgS c st .d) (tail n) := by
      simp [tail, List.replicate_succ, runS, stepS]
    rw [hrun]
    exact ⟨q0, by omega, by omega, q3.trans p3, q4.trans p4⟩

/-- after enough delivered exchanges both out-queues are empty and everything accepted is released -/
theorem tail_drains {mtu : Nat} (hc : Consts c (K + 1) Bd) (ht : c.inTrim = 2) {st : Sys}
    (h : LiveInv c sab sba K Bd st) {n : Nat}
    (hn : st.a.outq.out.length ≤ n ∧ st.b.outq.out.length + 1 ≤ n) :
    (runS c mtu st (tail n)).a.outq.out = [] ∧ (runS c mtu st (tail n)).b.outq.out = [] ∧
    (runS c mtu st (tail n)).a.acc = st.a.acc ∧ (runS c mtu st (tail n)).b.acc = st.b.acc ∧
    (runS c mtu st (tail n)).b.inq.rel = st.a.acc ∧ (runS c mtu st (tail n)).a.inq.rel = st.b.acc := by
  obtain ⟨q0, q1, q2, q3, q4⟩ := tail_progress (mtu := mtu) hc ht n st h
  have hb := nuB_le st
  have ha0 : (runS c mtu st (tail n)).a.outq.out = [] := List.eq_nil_of_length_eq_zero (by omega)
  have hb0 : (runS c mtu st (tail n)).b.outq.out = [] := nuB_zero (by omega)
  have ea : (runS c mtu st (tail n)).a.acc = st.a.acc := by unfold End.acc; rw [q3]
  have eb : (runS c mtu st (tail n)).b.acc = st.b.acc := by unfold End.acc; rw [q4]
  refine ⟨ha0, hb0, ea, eb, ?_, ?_⟩
  · rw [← ea, q0.inv.acca]; exact q0.inv.lab.drained ha0
  · rw [← eb, q0.inv.accb]; exact q0.inv.lba.drained hb0

/-! ### lossy exchanges never undo progress -/

/-- what every write-free step guarantees: nothing accepted, chunk lists unchanged, the head indices
    and A's release count only move forward -/
structure Mono (st st' : Sys) : Prop where
  awr : st'.a.outq.WR = st.a.outq.WR
  bwr : st'.b.outq.WR = st.b.outq.WR
  ahd : st.a.outq.hd ≤ st'.a.outq.hd
  bhd : st.b.outq.hd ≤ st'.b.outq.hd
  acnt : st.a.inq.cnt ≤ st'.a.inq.cnt
  aacc : st'.a.accR = st.a.accR
  bacc : st'.b.accR = st.b.accR

theorem Mono.refl (st : Sys) : Mono st st :=
  ⟨rfl, rfl, Nat.le_refl _, Nat.le_refl _, Nat.le_refl _, rfl, rfl⟩

theorem xchg_mono {st : Sys} (hc : Consts c (K + 1) Bd) (h : SysInv c sab sba K Bd st) (f : Fate)
    (hf : f.Ok K) : Mono st (xchgS c st f) := by
  obtain ⟨hm1, hq0⟩ := mkQuery_eq hc h
  have hmsg0 := hq0.to_msg (K := K) (Nat.zero_le _)
  cases f with
  | rp k =>
    simp only [xchgS]
    cases hk : st.hist[k]? with
    | none => exact Mono.refl st
    | some q =>
      have hmsg := (h.hist k q hk).to_msg (K := K) (by simp [Fate.Ok] at hf; omega)
      obtain ⟨_, _, s3, s4, _, _, s7, _, _⟩ := serve_inv (b := st.b) hc h.lab h.lba hmsg
      exact ⟨rfl, s4, Nat.le_refl _, s7, Nat.le_refl _, rfl, s3⟩
  | ql => simp only [xchgS, hm1]; exact ⟨rfl, rfl, Nat.le_refl _, Nat.le_refl _, Nat.le_refl _, rfl, rfl⟩
  | al =>
    simp only [xchgS, hm1]
    obtain ⟨_, _, s3, s4, _, _, s7, _, _⟩ := serve_inv (b := st.b) hc h.lab h.lba hmsg0
    exact ⟨rfl, s4, Nat.le_refl _, s7, Nat.le_refl _, rfl, s3⟩
  | d =>
    simp only [xchgS, hm1]
    obtain ⟨s1, s2, s3, s4, _, _, s7, _, s9⟩ := serve_inv (b := st.b) hc h.lab h.lba hmsg0
    obtain ⟨_, _, r3, r4, r5, _, r7, _⟩ := clientRecv_inv (a := st.a) hc s1 s2 s9
    exact ⟨r4, s4, r7, s7, r5, r3, s3⟩
  | dup1 =>
    simp only [xchgS, hm1]
    obtain ⟨s1, s2, s3, s4, _, _, s7, _, s9⟩ := serve_inv (b := st.b) hc h.lab h.lba hmsg0
    obtain ⟨t1, t2, t3, t4, t5, _, t7, _, _⟩ :=
      serve_inv (b := (serve c st.b (mkQuery c st.a).2).1) (q := (mkQuery c st.a).2) hc s1 s2 hmsg0
    have s9' : RespOk sab sba (serve c (serve c st.b (mkQuery c st.a).2).1 (mkQuery c st.a).2).1
        (serve c st.b (mkQuery c st.a).2).2 := by
      refine s9.step t4 t5 t7 ?_
      intro ack pkt g j hr
      obtain ⟨e1, e2⟩ := serve_tight st.b (mkQuery c st.a).2 ack pkt g j hr
      have := t1.hr2; have := s1.hr1; have := t2.hr1; have := s2.hr2
      exact ⟨by omega, fun _ _ => by omega⟩
    obtain ⟨_, _, r3, r4, r5, _, r7, _⟩ := clientRecv_inv (a := st.a) hc t1 t2 s9'
    exact ⟨r4, t4.trans s4, r7, Nat.le_trans s7 t7, r5, r3, t3.trans s3⟩
  | dup2 =>
    simp only [xchgS, hm1]
    obtain ⟨s1, s2, s3, s4, _, _, s7, _, _⟩ := serve_inv (b := st.b) hc h.lab h.lba hmsg0
    obtain ⟨t1, t2, t3, t4, _, _, t7, _, t9⟩ :=
      serve_inv (b := (serve c st.b (mkQuery c st.a).2).1) (q := (mkQuery c st.a).2) hc s1 s2 hmsg0
    obtain ⟨_, _, r3, r4, r5, _, r7, _⟩ := clientRecv_inv (a := st.a) hc t1 t2 t9
    exact ⟨r4, t4.trans s4, r7, Nat.le_trans s7 t7, r5, r3, t3.trans s3⟩

/-- under `Mono` neither `|A.out|` nor the variant of `B.out` grows -/
theorem mono_measure {st st' : Sys} (h : SysInv c sab sba K Bd st) (h' : SysInv c sab sba K Bd st')
    (m : Mono st st') :
    st'.a.outq.out.length ≤ st.a.outq.out.length ∧ nuB st' ≤ nuB st := by
  have a1 := h.lab.out_len; have a2 := h'.lab.out_len
  have b1 := h.lba.out_len; have b2 := h'.lba.out_len
  have n1 : st'.a.outq.nW = st.a.outq.nW := by rw [h'.lab.hnW, h.lab.hnW, m.awr]
  have n2 : st'.b.outq.nW = st.b.outq.nW := by rw [h'.lba.hnW, h.lba.hnW, m.bwr]
  have := m.ahd; have := m.bhd; have := m.acnt
  have := h.lba.hr1; have := h.lba.hr2; have := h.lba.hrn; have := h.lba.hlen
  have := h'.lba.hr1; have := h'.lba.hr2; have := h'.lba.hrn; have := h'.lba.hlen
  refine ⟨by omega, ?_⟩
  unfold nuB OutQ.hd at *
  split <;> split <;> (try split) <;> (try split) <;> omega

/-- events of a write-free continuation: exchanges of every fate (replays at most `K` old) and reads -/
def tailOk (K : Nat) : Ev → Bool
  | .xchg (.rp k) => decide (k ≤ K)
  | .xchg _ => true
  | .read _ _ => true
  | _ => false

def isD : Ev → Bool
  | .xchg .d => true
  | _ => false

theorem tailOk_evOk {mtu : Nat} {ev : Ev} (h : tailOk K ev = true) : evOk mtu K Bd ev = true := by
  cases ev with
  | xchg f => cases f <;> simp_all [tailOk, evOk]
  | read _ _ => rfl
  | write _ _ => simp [tailOk] at h
  | inject _ _ _ => simp [tailOk] at h
  | fack _ _ => simp [tailOk] at h

theorem step_measure {mtu : Nat} (hm : 0 < mtu) (hc : Consts c (K + 1) Bd) (ht : c.inTrim = 2) {st : Sys}
    (h : LiveInv c sab sba K Bd st) (ev : Ev) (hev : tailOk K ev = true) :
    LiveInv c sab sba K Bd (stepS c mtu st ev) ∧
    (stepS c mtu st ev).a.outq.out.length ≤ st.a.outq.out.length - (if isD ev then 1 else 0) ∧
    nuB (stepS c mtu st ev) ≤ nuB st - (if isD ev then 1 else 0) ∧
    (stepS c mtu st ev).a.accR = st.a.accR ∧ (stepS c mtu st ev).b.accR = st.b.accR := by
  have hl := step_live hm hc ht h ev (tailOk_evOk hev)
  refine ⟨hl, ?_⟩
  cases ev with
  | write _ _ => simp [tailOk] at hev
  | inject _ _ _ => simp [tailOk] at hev
  | fack _ _ => simp [tailOk] at hev
  | read side n =>
    have hmono : Mono st (stepS c mtu st (.read side n)) := by
      cases side <;> (simp only [stepS, readEnd]; split <;> exact ⟨rfl, rfl, Nat.le_refl _, Nat.le_refl _, Nat.le_refl _, rfl, rfl⟩)
    obtain ⟨m1, m2⟩ := mono_measure h.inv hl.inv hmono
    exact ⟨by simpa [isD] using m1, by simpa [isD] using m2, hmono.aacc, hmono.bacc⟩
  | xchg f =>
    by_cases hd : f = .d
    · subst hd
      obtain ⟨p1, p2, p3, p4⟩ := d_progress hc h
      exact ⟨by simp only [stepS, isD, if_true]; omega, by simpa [stepS, isD] using p2, p3, p4⟩
    · have hf : f.Ok K := by cases f <;> simp_all [tailOk, Fate.Ok]
      have hmono := xchg_mono hc h.inv f hf
      obtain ⟨m1, m2⟩ := mono_measure h.inv hl.inv hmono
      have hnd : isD (.xchg f) = false := by cases f <;> simp_all [isD]
      simp only [hnd]
      exact ⟨by simpa using m1, by simpa using m2, hmono.aacc, hmono.bacc⟩

theorem lossy_tail_progress {mtu : Nat} (hm : 0 < mtu) (hc : Consts c (K + 1) Bd) (ht : c.inTrim = 2) :
    ∀ (evs : List Ev) (st : Sys), LiveInv c sab sba K Bd st → evs.all (tailOk K) = true →
      LiveInv c sab sba K Bd (runS c mtu st evs) ∧
      (runS c mtu st evs).a.outq.out.length ≤ st.a.outq.out.length - evs.countP isD ∧
      nuB (runS c mtu st evs) ≤ nuB st - evs.countP isD ∧
      (runS c mtu st evs).a.accR = st.a.accR ∧ (runS c mtu st evs).b.accR = st.b.accR := by
  intro evs
  induction evs with
  | nil => intro st h _; exact ⟨h, Nat.le_refl _, Nat.le_refl _, rfl, rfl⟩
  | cons e es ih =>
    intro st h hall
    simp only [List.all_cons, Bool.and_eq_true] at hall
    obtain ⟨p0, p1, p2, p3, p4⟩ := step_measure hm hc ht h e hall.1
    obtain ⟨q0, q1, q2, q3, q4⟩ := ih _ p0 hall.2
    simp only [runS, List.countP_cons]
    by_cases hde : isD e = true
    · rw [if_pos hde] at p1 p2 ⊢
      exact ⟨q0, by omega, by omega, q3.trans p3, q4.trans p4⟩
    · rw [if_neg hde] at p1 p2 ⊢
      exact ⟨q0, by omega, by omega, q3.trans p3, q4.trans p4⟩

/-- any write-free continuation that contains enough delivered exchanges — wherever they are — drains -/
theorem lossy_tail_drains {mtu : Nat} (hm : 0 < mtu) (hc : Consts c (K + 1) Bd) (ht : c.inTrim = 2) {st : Sys}
    (h : LiveInv c sab sba K Bd st) {evs : List Ev} (hall : evs.all (tailOk K) = true)
    (hn : st.a.outq.out.length ≤ evs.countP isD ∧ st.b.outq.out.length + 1 ≤ evs.countP isD) :
    (runS c mtu st evs).a.outq.out = [] ∧ (runS c mtu st evs).b.outq.out = [] ∧
    (runS c mtu st evs).a.acc = st.a.acc ∧ (runS c mtu st evs).b.acc = st.b.acc ∧
    (runS c mtu st evs).b.inq.rel = st.a.acc ∧ (runS c mtu st evs).a.inq.rel = st.b.acc := by
  obtain ⟨q0, q1, q2, q3, q4⟩ := lossy_tail_progress hm hc ht evs st h hall
  have hb := nuB_le st
  have ha0 : (runS c mtu st evs).a.outq.out = [] := List.eq_nil_of_length_eq_zero (by omega)
  have hb0 : (runS c mtu st evs).b.outq.out = [] := nuB_zero (by omega)
  have ea : (runS c mtu st evs).a.acc = st.a.acc := by unfold End.acc; rw [q3]
  have eb : (runS c mtu st evs).b.acc = st.b.acc := by unfold End.acc; rw [q4]
  refine ⟨ha0, hb0, ea, eb, ?_, ?_⟩
  · rw [← ea, q0.inv.acca]; exact q0.inv.lab.drained ha0
  · rw [← eb, q0.inv.accb]; exact q0.inv.lba.drained hb0

end progress

end SA.Queue

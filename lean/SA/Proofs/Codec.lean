/-
  SA.Proofs.Codec — helper lemmas for C08: bit lists, the generic radix-2^k round trip,
  the Base128 encoder loop = radix-7 spec, ascii85 groups, basE91 simulation.
-/
import SA.Model.Codec
namespace SA.Codec

/-! ### bits -/

@[simp] theorem toBits_length (n x : Nat) : (toBits n x).length = n := by
  induction n with
  | zero => rfl
  | succ n ih => simp [toBits, ih]

theorem bit_val (x n : Nat) : (if x.testBit n then 2 ^ n else 0) + x % 2 ^ n = x % 2 ^ (n + 1) := by
  rw [Nat.mod_pow_succ, Nat.testBit_eq_decide_div_mod_eq]
  rcases Nat.mod_two_eq_zero_or_one (x / 2 ^ n) with h | h <;> simp [h] <;> omega

theorem fromBits_toBits (n x : Nat) : fromBits (toBits n x) = x % 2 ^ n := by
  induction n with
  | zero => simp [toBits, fromBits, Nat.mod_one]
  | succ n ih => simp only [toBits, fromBits, toBits_length, ih]; exact bit_val x n

theorem fromBits_lt (l : List Bool) : fromBits l < 2 ^ l.length := by
  induction l with
  | nil => simp [fromBits]
  | cons b bs ih =>
    simp only [fromBits, List.length_cons, Nat.pow_succ]
    split <;> omega

theorem toBits_mod (n m x : Nat) (h : n ≤ m) : toBits n (x % 2 ^ m) = toBits n x := by
  induction n with
  | zero => rfl
  | succ n ih =>
    simp only [toBits, Nat.testBit_mod_two_pow]
    rw [ih (by omega)]
    simp [show n < m by omega]

theorem toBits_fromBits (l : List Bool) : toBits l.length (fromBits l) = l := by
  induction l with
  | nil => rfl
  | cons b bs ih =>
    have hlt := fromBits_lt bs
    simp only [List.length_cons, toBits, fromBits]
    congr 1
    · cases b
      · simpa using Nat.testBit_lt_two_pow hlt
      · simp [Nat.testBit_two_pow_add_eq, Nat.testBit_lt_two_pow hlt]
    · rw [← toBits_mod bs.length bs.length _ (Nat.le_refl _)]
      cases b
      · simp [Nat.mod_eq_of_lt hlt, ih]
      · simp [Nat.mod_eq_of_lt hlt, ih]

theorem toBits_split (a b v : Nat) : toBits (a + b) v = toBits a (v / 2 ^ b) ++ toBits b v := by
  induction a with
  | zero => simp [toBits]
  | succ a ih =>
    rw [show a + 1 + b = (a + b) + 1 by omega]
    simp only [toBits, ih, Nat.testBit_div_two_pow, List.cons_append]

theorem fromBits_append (a b : List Bool) :
    fromBits (a ++ b) = fromBits a * 2 ^ b.length + fromBits b := by
  induction a with
  | nil => simp [fromBits]
  | cons x xs ih =>
    simp only [List.cons_append, fromBits, ih, List.length_append, Nat.pow_add]
    split <;> simp [Nat.add_mul, Nat.add_assoc]

theorem fromBits_replicate_false (n : Nat) : fromBits (List.replicate n false) = 0 := by
  induction n with
  | zero => rfl
  | succ n ih => simp [List.replicate_succ, fromBits, ih]

/-! ### takeDigits -/

@[simp] theorem takeDigits_length (k m : Nat) (bits : List Bool) : (takeDigits k m bits).length = m := by
  induction m generalizing bits with
  | zero => rfl
  | succ m ih => simp [takeDigits, ih]

/-- reading back the digits just written -/
theorem takeDigits_digitsToBits (k : Nat) (ds : List Nat) (rest : List Bool)
    (h : ∀ d ∈ ds, d < 2 ^ k) : takeDigits k ds.length (digitsToBits k ds ++ rest) = ds := by
  induction ds with
  | nil => rfl
  | cons d ds ih =>
    have hd : d < 2 ^ k := h d (by simp)
    simp only [digitsToBits, List.flatMap_cons, List.length_cons, takeDigits, List.append_assoc]
    rw [List.take_left' (toBits_length k d), List.drop_left' (toBits_length k d), fromBits_toBits,
      Nat.mod_eq_of_lt hd]
    congr 1
    exact ih (fun x hx => h x (by simp [hx]))

/-- writing the digits just read gives the bits back -/
theorem digitsToBits_takeDigits (k m : Nat) (bits : List Bool) (h : k * m ≤ bits.length) :
    digitsToBits k (takeDigits k m bits) = bits.take (k * m) := by
  induction m generalizing bits with
  | zero => simp [takeDigits, digitsToBits]
  | succ m ih =>
    have hk : k ≤ bits.length := by
      have : k * (m + 1) = k * m + k := by rw [Nat.mul_succ]
      omega
    simp only [takeDigits, digitsToBits, List.flatMap_cons]
    have hl : (bits.take k).length = k := by simp [List.length_take]; omega
    have := toBits_fromBits (bits.take k)
    rw [hl] at this
    rw [this]
    have ih' := ih (bits.drop k) (by simp [List.length_drop]; rw [Nat.mul_succ] at h; omega)
    simp only [digitsToBits] at ih'
    rw [ih', Nat.mul_succ, Nat.add_comm (k * m) k, List.take_add]

theorem takeDigits_lt (k m : Nat) (bits : List Bool) : ∀ d ∈ takeDigits k m bits, d < 2 ^ k := by
  induction m generalizing bits with
  | zero => simp [takeDigits]
  | succ m ih =>
    intro d hd
    simp only [takeDigits, List.mem_cons] at hd
    rcases hd with rfl | hd
    · have := fromBits_lt (bits.take k)
      have hl : (bits.take k).length ≤ k := by simp [List.length_take]; omega
      exact Nat.lt_of_lt_of_le this (Nat.pow_le_pow_right (by omega) hl)
    · exact ih _ d hd

theorem bytesToBits_length (bs : List Nat) : (bytesToBits bs).length = 8 * bs.length := by
  induction bs with
  | nil => rfl
  | cons b bs ih => simp [bytesToBits, List.flatMap_cons] at *; omega

/-- **generic radix-2^k round trip**: for every byte list, decoding the `⌈8n/k⌉` digits of the
    radix-2^k encoder and keeping `n` bytes gives the input back. -/
theorem radix_roundtrip (k : Nat) (bs : List Nat) (hb : Bytes bs)
    (h1 : 8 * bs.length ≤ k * ((8 * bs.length + k - 1) / k))
    (h2 : k * ((8 * bs.length + k - 1) / k) ≤ 8 * bs.length + (k - 1)) :
    radixBytes k bs.length (radixDigits k bs) = bs := by
  unfold radixBytes radixDigits digitsOf
  rw [bytesToBits_length]
  rw [digitsToBits_takeDigits _ _ _ (by simp [bytesToBits_length]; omega)]
  rw [List.take_append, bytesToBits_length, List.take_of_length_le (by rw [bytesToBits_length]; omega)]
  have := takeDigits_digitsToBits 8 bs
    (List.take (k * ((8 * bs.length + k - 1) / k) - 8 * bs.length) (List.replicate (k - 1) false))
    (fun d hd => by have := hb d hd; simpa using this)
  simpa [digitsToBits, bytesToBits] using this

/-! ### alphabets -/

/-- what the round trip needs from an alphabet of `n` characters -/
structure GoodAlpha (alpha : List Nat) (n : Nat) : Prop where
  idx : ∀ d, d < n → alphaIdx alpha (alphaChar alpha d) = some d
  nl : ∀ d, d < n → isNewline (alphaChar alpha d) = false

theorem filter_newline_map (alpha : List Nat) (n : Nat) (g : GoodAlpha alpha n) (ds : List Nat)
    (h : ∀ d ∈ ds, d < n) :
    (ds.map (alphaChar alpha)).filter (fun c => !isNewline c) = ds.map (alphaChar alpha) := by
  apply List.filter_eq_self.2
  intro c hc
  rcases List.mem_map.1 hc with ⟨d, hd, rfl⟩
  simp [g.nl d (h d hd)]

theorem filterMap_idx_map (alpha : List Nat) (n : Nat) (g : GoodAlpha alpha n) (ds : List Nat)
    (h : ∀ d ∈ ds, d < n) : (ds.map (alphaChar alpha)).filterMap (alphaIdx alpha) = ds := by
  induction ds with
  | nil => rfl
  | cons d ds ih =>
    simp only [List.map_cons, List.filterMap_cons, g.idx d (h d (by simp))]
    rw [ih (fun x hx => h x (by simp [hx]))]

theorem all_idx_map (alpha : List Nat) (n : Nat) (g : GoodAlpha alpha n) (ds : List Nat)
    (h : ∀ d ∈ ds, d < n) :
    (ds.map (alphaChar alpha)).all (fun c => (alphaIdx alpha c).isSome) = true := by
  simp only [List.all_eq_true]
  intro c hc
  rcases List.mem_map.1 hc with ⟨d, hd, rfl⟩
  simp [g.idx d (h d hd)]

theorem firstBad_none (p : Nat → Bool) (l : List Nat) (i : Nat) (h : l.all p = true) :
    firstBad p l i = none := by
  induction l generalizing i with
  | nil => rfl
  | cons c l ih =>
    simp only [List.all_cons, Bool.and_eq_true] at h
    simp [firstBad, h.1, ih _ h.2]

theorem mem_map_alpha_safe (alpha : List Nat) (n : Nat)
    (hs : ∀ d, d < n → dnsSafe (alphaChar alpha d) = true) (ds : List Nat) (h : ∀ d ∈ ds, d < n) :
    ∀ c ∈ ds.map (alphaChar alpha), dnsSafe c = true := by
  intro c hc
  rcases List.mem_map.1 hc with ⟨d, hd, rfl⟩
  exact hs d (h d hd)

/-! ### Base32 / Base64 -/

theorem radixDigits_lt (k : Nat) (bs : List Nat) : ∀ d ∈ radixDigits k bs, d < 2 ^ k :=
  takeDigits_lt _ _ _

theorem radixDigits_length (k : Nat) (bs : List Nat) :
    (radixDigits k bs).length = (8 * bs.length + k - 1) / k := by
  simp [radixDigits, digitsOf, bytesToBits_length]

theorem b32Bytes_len (n : Nat) : b32Bytes ((8 * n + 5 - 1) / 5) = n := by
  unfold b32Bytes
  have h : n % 5 = 0 ∨ n % 5 = 1 ∨ n % 5 = 2 ∨ n % 5 = 3 ∨ n % 5 = 4 := by omega
  rcases h with h | h | h | h | h
  · have : (8 * n + 5 - 1) / 5 % 8 = 0 := by omega
    rw [this]; simp only; omega
  · have : (8 * n + 5 - 1) / 5 % 8 = 2 := by omega
    rw [this]; simp only; omega
  · have : (8 * n + 5 - 1) / 5 % 8 = 4 := by omega
    rw [this]; simp only; omega
  · have : (8 * n + 5 - 1) / 5 % 8 = 5 := by omega
    rw [this]; simp only; omega
  · have : (8 * n + 5 - 1) / 5 % 8 = 7 := by omega
    rw [this]; simp only; omega

theorem b64Bytes_len (n : Nat) : b64Bytes ((8 * n + 6 - 1) / 6) = n ∧ (8 * n + 6 - 1) / 6 % 4 ≠ 1 := by
  unfold b64Bytes; omega

theorem b32_roundtrip (g : GoodAlpha Gen.cb32 32) (bs : List Nat) (hb : Bytes bs) :
    b32Dec (b32Enc bs) = some bs := by
  have hlt : ∀ d ∈ radixDigits 5 bs, d < 32 := radixDigits_lt 5 bs
  unfold b32Dec b32Enc
  simp only [filter_newline_map _ _ g _ hlt]
  rw [firstBad_none _ _ _ (all_idx_map _ _ g _ hlt)]
  simp only [filterMap_idx_map _ _ g _ hlt, List.length_map, radixDigits_length, b32Bytes_len]
  rw [radix_roundtrip 5 bs hb (by omega) (by omega)]

theorem b64_roundtrip (alpha : List Nat) (g : GoodAlpha alpha 64) (bs : List Nat) (hb : Bytes bs) :
    b64DecWith alpha (b64EncWith alpha bs) = some bs := by
  have hlt : ∀ d ∈ radixDigits 6 bs, d < 64 := radixDigits_lt 6 bs
  unfold b64DecWith b64EncWith
  simp only [filter_newline_map _ _ g _ hlt, all_idx_map _ _ g _ hlt, filterMap_idx_map _ _ g _ hlt,
    List.length_map, radixDigits_length]
  have := b64Bytes_len bs.length
  simp only [if_true, this.1]
  rw [if_neg (by simpa using this.2)]
  rw [radix_roundtrip 6 bs hb (by omega) (by omega)]

/-! ### Base128: the repo's encoder loop computes the radix-2^7 digits -/

theorem digitsOf_nil (k : Nat) (hk : 0 < k) : digitsOf k [] = [] := by
  simp [digitsOf, Nat.div_eq_of_lt (show k - 1 < k by omega), takeDigits]

theorem digitsOf_cons7 (h t : List Bool) (hl : h.length = 7) :
    digitsOf 7 (h ++ t) = fromBits h :: digitsOf 7 t := by
  unfold digitsOf
  have : ((h ++ t).length + 7 - 1) / 7 = (t.length + 7 - 1) / 7 + 1 := by
    simp only [List.length_append, hl]; omega
  rw [this, takeDigits, List.append_assoc, List.take_left' hl, List.drop_left' hl]

theorem digitsOf_short7 (p : List Bool) (h1 : 0 < p.length) (h2 : p.length ≤ 7) :
    digitsOf 7 p = [fromBits p * 2 ^ (7 - p.length)] := by
  unfold digitsOf
  have : (p.length + 7 - 1) / 7 = 1 := by omega
  rw [this]
  simp only [takeDigits, List.take_append, List.take_of_length_le h2, List.take_replicate,
    fromBits_append, fromBits_replicate_false, List.length_replicate]
  have : min (7 - p.length) (7 - 1) = 7 - p.length := by omega
  rw [this]; rfl

theorem b128_loop_spec (bs : List Nat) (hb : Bytes bs) (w : Nat) (p : List Bool)
    (hw1 : 1 ≤ w) (hw7 : w ≤ 7) (hp : p.length = w - 1) :
    b128EncLoop true w (fromBits p * 2 ^ (8 - w)) bs = digitsOf 7 (p ++ bytesToBits bs) := by
  induction bs generalizing w p with
  | nil =>
    simp only [b128EncLoop, bytesToBits, List.flatMap_nil, List.append_nil, Bool.true_and]
    by_cases h : w = 1
    · subst h
      have : p = [] := List.eq_nil_of_length_eq_zero (by simpa using hp)
      subst this
      simp [digitsOf_nil]
    · rw [digitsOf_short7 p (by omega) (by omega)]
      have : 7 - p.length = 8 - w := by omega
      simp [h, this]
  | cons v rest ih =>
    have hv : v < 256 := hb v (by simp)
    have hrest : Bytes rest := fun x hx => hb x (by simp [hx])
    have hsplit : toBits 8 v = toBits (8 - w) (v / 2 ^ w) ++ toBits w v := by
      have := toBits_split (8 - w) w v
      rwa [show 8 - w + w = 8 by omega] at this
    have hbits : p ++ bytesToBits (v :: rest)
        = (p ++ toBits (8 - w) (v / 2 ^ w)) ++ (toBits w v ++ bytesToBits rest) := by
      simp [bytesToBits, List.flatMap_cons, hsplit]
    have hlen : (p ++ toBits (8 - w) (v / 2 ^ w)).length = 7 := by simp [hp]; omega
    have hdiv : v / 2 ^ w < 2 ^ (8 - w) := by
      rw [Nat.div_lt_iff_lt_mul (Nat.pow_pos (by omega)), ← Nat.pow_add, show 8 - w + w = 8 by omega]
      exact hv
    have helem : fromBits (p ++ toBits (8 - w) (v / 2 ^ w)) = fromBits p * 2 ^ (8 - w) + v / 2 ^ w := by
      rw [fromBits_append, toBits_length, fromBits_toBits, Nat.mod_eq_of_lt hdiv]
    rw [hbits, digitsOf_cons7 _ _ hlen, helem]
    by_cases h7 : w = 7
    · subst h7
      have hl7 : (toBits 7 v).length = 7 := toBits_length 7 v
      have := ih hrest 1 [] (by omega) (by omega) (by simp)
      simp only [fromBits, Nat.zero_mul, List.nil_append] at this
      simp only [b128EncLoop, beq_self_eq_true, if_true]
      rw [digitsOf_cons7 _ _ hl7, fromBits_toBits, this]
      simp
    · have := ih hrest (w + 1) (toBits w v) (by omega) (by omega) (by simp)
      rw [fromBits_toBits, show 8 - (w + 1) = 7 - w by omega] at this
      simp only [b128EncLoop, beq_iff_eq, h7, if_false]
      rw [this]

theorem b128_loop_eq_radix (bs : List Nat) (hb : Bytes bs) :
    b128EncLoop true 1 0 bs = radixDigits 7 bs := by
  have := b128_loop_spec bs hb 1 [] (by omega) (by omega) (by simp)
  simpa [fromBits, radixDigits] using this

theorem unescape_escape128 (g : GoodAlpha Gen.cb128 128) (ds : List Nat) (h : ∀ d ∈ ds, d < 128) :
    unescape128 (escape128 ds) = ds := by
  induction ds with
  | nil => rfl
  | cons d ds ih =>
    simp only [unescape128, escape128, List.map_cons, List.map_map] at *
    rw [ih (fun x hx => h x (by simp [hx]))]
    simp [g.idx d (h d (by simp))]

theorem b128_roundtrip (g : GoodAlpha Gen.cb128 128) (hfix : Gen.b128TailGuarded = true)
    (bs : List Nat) (hb : Bytes bs) : b128Dec (b128Enc bs) = some bs := by
  unfold b128Dec b128Enc
  rw [hfix, b128_loop_eq_radix bs hb, unescape_escape128 g _ (radixDigits_lt 7 bs)]
  simp only [radixDigits_length]
  have h1 : (8 * bs.length + 7 - 1) / 7 * 7 / 8 = bs.length := by omega
  rw [h1]
  have h2 : ((bs.length * 8 + 6) / 7 != (8 * bs.length + 7 - 1) / 7) = false := by
    simp; omega
  rw [h2]
  simp only [Bool.false_eq_true, if_false]
  rw [radix_roundtrip 7 bs hb (by omega) (by omega)]

/-! ### ascii85 -/

theorem a85_cons (cap ndst v nb b : Nat) (rest : List Nat) :
    a85DecLoop cap ndst v nb (b :: rest) =
    if cap - ndst < 4 then some []
    else if b ≤ 32 then a85DecLoop cap ndst v nb rest
    else if (b == 122 && nb == 0) = true then
      (a85DecLoop cap (ndst + 4) 0 0 rest).map ([0, 0, 0, 0] ++ ·)
    else if (decide (33 ≤ b) && decide (b ≤ 117)) = true then
      if (nb + 1 == 5) = true then (a85DecLoop cap (ndst + 4) 0 0 rest).map (be32Bytes ((v * 85 + (b - 33)) % 4294967296) ++ ·)
      else a85DecLoop cap ndst ((v * 85 + (b - 33)) % 4294967296) (nb + 1) rest
    else none := by
  conv => lhs; unfold a85DecLoop

theorem a85_nil2 (cap ndst v : Nat) :
    a85DecLoop cap ndst v 2 [] = some ((be32Bytes ((v * 614125 + 614124) % 4294967296)).take 1) := by
  conv => lhs; unfold a85DecLoop
  simp
theorem a85_nil3 (cap ndst v : Nat) :
    a85DecLoop cap ndst v 3 [] = some ((be32Bytes ((v * 7225 + 7224) % 4294967296)).take 2) := by
  conv => lhs; unfold a85DecLoop
  simp
theorem a85_nil4 (cap ndst v : Nat) :
    a85DecLoop cap ndst v 4 [] = some ((be32Bytes ((v * 85 + 84) % 4294967296)).take 3) := by
  conv => lhs; unfold a85DecLoop
  simp
theorem a85_nil0 (cap ndst v : Nat) : a85DecLoop cap ndst v 0 [] = some [] := by
  conv => lhs; unfold a85DecLoop
  simp

theorem a85_step (cap ndst v nb x : Nat) (rest : List Nat) (hx : x < 85) (hc : ndst + 4 ≤ cap)
    (hnb : nb < 4) :
    a85DecLoop cap ndst v nb ((x + 33) :: rest)
      = a85DecLoop cap ndst ((v * 85 + x) % 4294967296) (nb + 1) rest := by
  have h1 : ¬ (cap - ndst < 4) := by omega
  have h2 : ¬ (x + 33 ≤ 32) := by omega
  have h3 : (x + 33 == 122) = false := by rw [beq_eq_false_iff_ne]; omega
  have h4 : (decide (33 ≤ x + 33) && decide (x + 33 ≤ 117)) = true := by
    rw [Bool.and_eq_true, decide_eq_true_eq, decide_eq_true_eq]; omega
  have h5 : (nb + 1 == 5) = false := by rw [beq_eq_false_iff_ne]; omega
  rw [a85_cons, if_neg h1, if_neg h2, h3, Bool.false_and, if_neg (by simp), if_pos h4]
  simp only [Nat.add_sub_cancel, h5, Bool.false_eq_true, if_false]

theorem a85_step5 (cap ndst v x : Nat) (rest : List Nat) (hx : x < 85) (hc : ndst + 4 ≤ cap) :
    a85DecLoop cap ndst v 4 ((x + 33) :: rest)
      = (a85DecLoop cap (ndst + 4) 0 0 rest).map (be32Bytes ((v * 85 + x) % 4294967296) ++ ·) := by
  have h1 : ¬ (cap - ndst < 4) := by omega
  have h2 : ¬ (x + 33 ≤ 32) := by omega
  have h3 : (x + 33 == 122) = false := by rw [beq_eq_false_iff_ne]; omega
  have h4 : (decide (33 ≤ x + 33) && decide (x + 33 ≤ 117)) = true := by
    rw [Bool.and_eq_true, decide_eq_true_eq, decide_eq_true_eq]; omega
  rw [a85_cons, if_neg h1, if_neg h2, h3, Bool.false_and, if_neg (by simp), if_pos h4]
  simp only [Nat.add_sub_cancel, Nat.reduceAdd, beq_self_eq_true, if_true]

theorem a85_z (cap ndst : Nat) (rest : List Nat) (hc : ndst + 4 ≤ cap) :
    a85DecLoop cap ndst 0 0 (122 :: rest)
      = (a85DecLoop cap (ndst + 4) 0 0 rest).map ([0, 0, 0, 0] ++ ·) := by
  have h1 : ¬ (cap - ndst < 4) := by omega
  rw [a85_cons, if_neg h1, if_neg (by omega)]
  simp

theorem a85_acc2 (N : Nat) (h : N < 4294967296) :
    ((0 * 85 + N / 52200625 % 85) % 4294967296 * 85 + N / 614125 % 85) % 4294967296 = N / 614125 := by
  have e1 : N / 614125 / 85 = N / 52200625 := by rw [Nat.div_div_eq_div_mul]
  have h1 : (0 * 85 + N / 52200625 % 85) % 4294967296 = N / 52200625 := by omega
  rw [h1]; omega
theorem a85_acc3 (N : Nat) (h : N < 4294967296) :
    (((0 * 85 + N / 52200625 % 85) % 4294967296 * 85 + N / 614125 % 85) % 4294967296 * 85
      + N / 7225 % 85) % 4294967296 = N / 7225 := by
  have e2 : N / 7225 / 85 = N / 614125 := by rw [Nat.div_div_eq_div_mul]
  rw [a85_acc2 N h]; omega
theorem a85_acc4 (N : Nat) (h : N < 4294967296) :
    ((((0 * 85 + N / 52200625 % 85) % 4294967296 * 85 + N / 614125 % 85) % 4294967296 * 85
      + N / 7225 % 85) % 4294967296 * 85 + N / 85 % 85) % 4294967296 = N / 85 := by
  have e3 : N / 85 / 85 = N / 7225 := by rw [Nat.div_div_eq_div_mul]
  rw [a85_acc3 N h]; omega
theorem a85_acc5 (N : Nat) (h : N < 4294967296) :
    (((((0 * 85 + N / 52200625 % 85) % 4294967296 * 85 + N / 614125 % 85) % 4294967296 * 85
      + N / 7225 % 85) % 4294967296 * 85 + N / 85 % 85) % 4294967296 * 85 + N % 85) % 4294967296 = N := by
  rw [a85_acc4 N h]; omega


theorem a85_fin1 (N a : Nat) (ha : a < 256) (hN : N = a * 16777216) :
    (N / 614125 * 614125 + 614124) % 4294967296 / 16777216 % 256 = a := by
  have hdm := Nat.div_add_mod N 614125
  have hr := Nat.mod_lt N (show 614125 > 0 by omega)
  rw [Nat.mul_comm (N / 614125)]
  generalize 614125 * (N / 614125) = P at *
  generalize N % 614125 = r at *
  have : (P + 614124) % 4294967296 = P + 614124 := Nat.mod_eq_of_lt (by omega)
  rw [this]; omega
theorem a85_fin2 (N a b : Nat) (ha : a < 256) (hb : b < 256) (hN : N = a * 16777216 + b * 65536) :
    (N / 7225 * 7225 + 7224) % 4294967296 / 16777216 % 256 = a ∧
    (N / 7225 * 7225 + 7224) % 4294967296 / 65536 % 256 = b := by
  have hdm := Nat.div_add_mod N 7225
  have hr := Nat.mod_lt N (show 7225 > 0 by omega)
  rw [Nat.mul_comm (N / 7225)]
  generalize 7225 * (N / 7225) = P at *
  generalize N % 7225 = r at *
  have : (P + 7224) % 4294967296 = P + 7224 := Nat.mod_eq_of_lt (by omega)
  rw [this]; constructor <;> omega
theorem a85_fin3 (N a b c : Nat) (ha : a < 256) (hb : b < 256) (hc : c < 256)
    (hN : N = a * 16777216 + b * 65536 + c * 256) :
    (N / 85 * 85 + 84) % 4294967296 / 16777216 % 256 = a ∧
    (N / 85 * 85 + 84) % 4294967296 / 65536 % 256 = b ∧
    (N / 85 * 85 + 84) % 4294967296 / 256 % 256 = c := by
  have hdm := Nat.div_add_mod N 85
  have hr := Nat.mod_lt N (show 85 > 0 by omega)
  rw [Nat.mul_comm (N / 85)]
  generalize 85 * (N / 85) = P at *
  generalize N % 85 = r at *
  have : (P + 84) % 4294967296 = P + 84 := Nat.mod_eq_of_lt (by omega)
  rw [this]; refine ⟨?_, ?_, ?_⟩ <;> omega

/-- a full group of five digits decodes to the four bytes of `v` -/
theorem a85_group (cap ndst a b c d : Nat) (rest : List Nat) (ha : a < 256) (hb : b < 256)
    (hc' : c < 256) (hd : d < 256) (hc : ndst + 4 ≤ cap) :
    a85DecLoop cap ndst 0 0 (a85Digits (be32 a b c d) ++ rest)
      = (a85DecLoop cap (ndst + 4) 0 0 rest).map ([a, b, c, d] ++ ·) := by
  unfold a85Digits
  simp only [List.cons_append, List.nil_append]
  rw [a85_step _ _ _ _ _ _ (Nat.mod_lt _ (by omega)) hc (by omega),
    a85_step _ _ _ _ _ _ (Nat.mod_lt _ (by omega)) hc (by omega),
    a85_step _ _ _ _ _ _ (Nat.mod_lt _ (by omega)) hc (by omega),
    a85_step _ _ _ _ _ _ (Nat.mod_lt _ (by omega)) hc (by omega),
    a85_step5 _ _ _ _ _ (Nat.mod_lt _ (by omega)) hc]
  rw [a85_acc5 _ (by unfold be32; omega)]
  have : be32Bytes (be32 a b c d) = [a, b, c, d] := by
    unfold be32Bytes be32
    simp only [List.cons.injEq, and_true]
    omega
  rw [this]
  rfl

theorem a85Digits_take2 (v : Nat) :
    (a85Digits v).take 2 = [v / 52200625 % 85 + 33, v / 614125 % 85 + 33] := rfl
theorem a85Digits_take3 (v : Nat) :
    (a85Digits v).take 3 = [v / 52200625 % 85 + 33, v / 614125 % 85 + 33, v / 7225 % 85 + 33] := rfl
theorem a85Digits_take4 (v : Nat) :
    (a85Digits v).take 4 = [v / 52200625 % 85 + 33, v / 614125 % 85 + 33, v / 7225 % 85 + 33,
      v / 85 % 85 + 33] := rfl
theorem be32Bytes_take1 (v : Nat) : (be32Bytes v).take 1 = [v / 16777216 % 256] := rfl
theorem be32Bytes_take2 (v : Nat) : (be32Bytes v).take 2 = [v / 16777216 % 256, v / 65536 % 256] := rfl
theorem be32Bytes_take3 (v : Nat) :
    (be32Bytes v).take 3 = [v / 16777216 % 256, v / 65536 % 256, v / 256 % 256] := rfl

theorem a85_tail1 (cap ndst a : Nat) (ha : a < 256) (hc : ndst + 8 ≤ cap) :
    a85DecLoop cap ndst 0 0 ((a85Digits (be32 a 0 0 0)).take 2) = some [a] := by
  rw [a85Digits_take2]
  rw [a85_step _ _ _ _ _ _ (Nat.mod_lt _ (by omega)) (by omega) (by omega),
    a85_step _ _ _ _ _ _ (Nat.mod_lt _ (by omega)) (by omega) (by omega), a85_nil2, be32Bytes_take1]
  generalize hN : be32 a 0 0 0 = N
  have hN' : N = a * 16777216 := by rw [← hN]; unfold be32; omega
  rw [a85_acc2 N (by omega), a85_fin1 N a ha hN']

theorem a85_tail2 (cap ndst a b : Nat) (ha : a < 256) (hb : b < 256) (hc : ndst + 12 ≤ cap) :
    a85DecLoop cap ndst 0 0 ((a85Digits (be32 a b 0 0)).take 3) = some [a, b] := by
  rw [a85Digits_take3]
  rw [a85_step _ _ _ _ _ _ (Nat.mod_lt _ (by omega)) (by omega) (by omega),
    a85_step _ _ _ _ _ _ (Nat.mod_lt _ (by omega)) (by omega) (by omega),
    a85_step _ _ _ _ _ _ (Nat.mod_lt _ (by omega)) (by omega) (by omega), a85_nil3, be32Bytes_take2]
  generalize hN : be32 a b 0 0 = N
  have hN' : N = a * 16777216 + b * 65536 := by rw [← hN]; unfold be32; omega
  have := a85_fin2 N a b ha hb hN'
  rw [a85_acc3 N (by omega), this.1, this.2]

theorem a85_tail3 (cap ndst a b c : Nat) (ha : a < 256) (hb : b < 256) (hc' : c < 256)
    (hc : ndst + 16 ≤ cap) :
    a85DecLoop cap ndst 0 0 ((a85Digits (be32 a b c 0)).take 4) = some [a, b, c] := by
  rw [a85Digits_take4]
  rw [a85_step _ _ _ _ _ _ (Nat.mod_lt _ (by omega)) (by omega) (by omega),
    a85_step _ _ _ _ _ _ (Nat.mod_lt _ (by omega)) (by omega) (by omega),
    a85_step _ _ _ _ _ _ (Nat.mod_lt _ (by omega)) (by omega) (by omega),
    a85_step _ _ _ _ _ _ (Nat.mod_lt _ (by omega)) (by omega) (by omega), a85_nil4, be32Bytes_take3]
  generalize hN : be32 a b c 0 = N
  have hN' : N = a * 16777216 + b * 65536 + c * 256 := by rw [← hN]; unfold be32; omega
  have := a85_fin3 N a b c ha hb hc' hN'
  rw [a85_acc4 N (by omega), this.1, this.2.1, this.2.2]

theorem a85Digits_length (v : Nat) : (a85Digits v).length = 5 := rfl

/-- ascii85 round trip, for every byte list and every buffer with 4 bytes per character -/
theorem a85_roundtrip (bs : List Nat) (hb : Bytes bs) :
    ∀ cap ndst, ndst + 4 * (a85Enc bs).length ≤ cap → a85DecLoop cap ndst 0 0 (a85Enc bs) = some bs := by
  induction bs using a85Enc.induct with
  | case1 => intro cap ndst _; simp [a85Enc, a85_nil0]
  | case2 a =>
    intro cap ndst h
    simp only [a85Enc, List.length_take, a85Digits_length] at h ⊢
    exact a85_tail1 _ _ _ (hb a (by simp)) (by omega)
  | case3 a b =>
    intro cap ndst h
    simp only [a85Enc, List.length_take, a85Digits_length] at h ⊢
    exact a85_tail2 _ _ _ _ (hb a (by simp)) (hb b (by simp)) (by omega)
  | case4 a b c =>
    intro cap ndst h
    simp only [a85Enc, List.length_take, a85Digits_length] at h ⊢
    exact a85_tail3 _ _ _ _ _ (hb a (by simp)) (hb b (by simp)) (hb c (by simp)) (by omega)
  | case5 a b c d rest hz ih =>
    intro cap ndst h
    have hrest : Bytes rest := fun x hx => hb x (by simp [hx])
    have ha := hb a (by simp); have hb' := hb b (by simp)
    have hc := hb c (by simp); have hd := hb d (by simp)
    simp only [a85Enc, hz, if_true, List.length_cons] at h ⊢
    rw [a85_z _ _ _ (by omega), ih hrest cap (ndst + 4) (by omega)]
    have hz' : be32 a b c d = 0 := by simpa using hz
    unfold be32 at hz'
    have : a = 0 ∧ b = 0 ∧ c = 0 ∧ d = 0 := by omega
    simp [this]
  | case6 a b c d rest hz ih =>
    intro cap ndst h
    have hrest : Bytes rest := fun x hx => hb x (by simp [hx])
    have ha := hb a (by simp); have hb' := hb b (by simp)
    have hc := hb c (by simp); have hd := hb d (by simp)
    simp only [a85Enc, hz, Bool.false_eq_true, if_false, List.length_append, a85Digits_length] at h ⊢
    rw [a85_group _ _ _ _ _ _ _ ha hb' hc hd (by omega), ih hrest cap (ndst + 4) (by omega)]
    simp

/-! ### Base85 = ascii85 with substitution -/

def a85Char (c : Nat) : Bool := (33 ≤ c && c ≤ 117) || c == 122

theorem a85Digits_chars (v : Nat) : ∀ c ∈ a85Digits v, a85Char c = true := by
  intro c hc
  simp only [a85Digits, List.mem_cons, List.not_mem_nil, or_false] at hc
  have : 33 ≤ c ∧ c ≤ 117 := by omega
  simp [a85Char, this.1, this.2]

theorem a85Enc_chars (bs : List Nat) : ∀ c ∈ a85Enc bs, a85Char c = true := by
  induction bs using a85Enc.induct with
  | case1 => simp [a85Enc]
  | case2 a => intro c hc; exact a85Digits_chars _ c (List.mem_of_mem_take hc)
  | case3 a b => intro c hc; exact a85Digits_chars _ c (List.mem_of_mem_take hc)
  | case4 a b c => intro x hc; exact a85Digits_chars _ x (List.mem_of_mem_take hc)
  | case5 a b c d rest hz ih =>
    intro x hx
    simp only [a85Enc, hz, if_true, List.mem_cons] at hx
    rcases hx with rfl | hx
    · rfl
    · exact ih x hx
  | case6 a b c d rest hz ih =>
    intro x hx
    simp only [a85Enc, hz, Bool.false_eq_true, if_false, List.mem_append] at hx
    rcases hx with hx | hx
    · exact a85Digits_chars _ x hx
    · exact ih x hx

theorem a85Enc_length (bs : List Nat) : (a85Enc bs).length ≤ (5 * bs.length + 3) / 4 := by
  induction bs using a85Enc.induct with
  | case1 => simp [a85Enc]
  | case2 a => simp [a85Enc, a85Digits_length]
  | case3 a b => simp [a85Enc, a85Digits_length]
  | case4 a b c => simp [a85Enc, a85Digits_length]
  | case5 a b c d rest hz ih =>
    simp only [a85Enc, hz, if_true, List.length_cons]; omega
  | case6 a b c d rest hz ih =>
    simp only [a85Enc, hz, Bool.false_eq_true, if_false, List.length_append, a85Digits_length,
      List.length_cons]; omega

theorem b85_roundtrip (h1 : Gen.b85EncodeReturnsCount = true) (h4 : Gen.b85DecodeBufFactor = 4)
    (hs : ∀ c, c < 123 → a85Char c = true →
      substOf Gen.b85DecSubst (substOf Gen.b85EncSubst c) = c)
    (bs : List Nat) (hb : Bytes bs) : b85Dec (b85Enc bs) = some bs := by
  unfold b85Dec b85Enc
  simp only [h1, if_true, h4, List.map_map, List.length_map]
  have : List.map (substOf Gen.b85DecSubst ∘ substOf Gen.b85EncSubst) (a85Enc bs) = a85Enc bs := by
    conv => rhs; rw [← List.map_id (a85Enc bs)]
    apply List.map_congr_left
    intro c hc
    have hch := a85Enc_chars bs c hc
    have : c < 123 := by
      simp only [a85Char, Bool.or_eq_true, Bool.and_eq_true, decide_eq_true_eq, beq_iff_eq] at hch
      omega
    simpa using hs c this hch
  rw [this]
  exact a85_roundtrip bs hb _ _ (by omega)

/-! ### basE91: digit range and length (invariant: `q < 2^nb`, `nb ≤ 13` at every loop head) -/

theorem b91_push (q nb x : Nat) (hq : q < 2 ^ nb) (hx : x < 256) : q + x * 2 ^ nb < 2 ^ (nb + 8) := by
  rw [Nat.pow_add]
  have : x * 2 ^ nb ≤ 255 * 2 ^ nb := Nat.mul_le_mul_right _ (by omega)
  generalize 2 ^ nb = P at *
  omega

theorem div_lt_pow (q a b : Nat) (h : q < 2 ^ (a + b)) : q / 2 ^ b < 2 ^ a := by
  rw [Nat.div_lt_iff_lt_mul (Nat.pow_pos (by omega)), ← Nat.pow_add]; exact h

theorem b91_digits_lt (bs : List Nat) (hb : Bytes bs) :
    ∀ q nb, q < 2 ^ nb → nb ≤ 13 → ∀ d ∈ b91EncLoop q nb bs, d < 91 := by
  induction bs with
  | nil =>
    intro q nb hq hnb d hd
    have : q < 8192 := Nat.lt_of_lt_of_le hq (Nat.pow_le_pow_right (by omega) hnb)
    simp only [b91EncLoop] at hd
    split at hd
    · split at hd
      · simp only [List.mem_cons, List.not_mem_nil, or_false] at hd; omega
      · simp only [List.mem_cons, List.not_mem_nil, or_false] at hd; omega
    · simp at hd
  | cons x rest ih =>
    intro q nb hq hnb d hd
    have hx : x < 256 := hb x (by simp)
    have hrest : Bytes rest := fun y hy => hb y (by simp [hy])
    have hq' := b91_push q nb x hq hx
    simp only [b91EncLoop] at hd
    split at hd
    · rename_i h13
      split at hd
      · simp only [List.mem_cons] at hd
        rcases hd with rfl | rfl | hd
        · omega
        · omega
        · refine ih hrest _ (nb + 8 - 13) ?_ (by omega) d hd
          have := div_lt_pow (q + x * 2 ^ nb) (nb + 8 - 13) 13 (by rwa [show nb + 8 - 13 + 13 = nb + 8 by omega])
          simpa using this
      · simp only [List.mem_cons] at hd
        rcases hd with rfl | rfl | hd
        · omega
        · omega
        · refine ih hrest _ (nb + 8 - 14) ?_ (by omega) d hd
          have := div_lt_pow (q + x * 2 ^ nb) (nb + 8 - 14) 14 (by rwa [show nb + 8 - 14 + 14 = nb + 8 by omega])
          simpa using this
    · exact ih hrest _ (nb + 8) hq' (by omega) d hd

theorem b91_length (bs : List Nat) :
    ∀ q nb, 13 * (b91EncLoop q nb bs).length ≤ 2 * (nb + 8 * bs.length) + 26 := by
  induction bs with
  | nil =>
    intro q nb
    simp only [b91EncLoop]
    split
    · split <;> simp
    · simp
  | cons x rest ih =>
    intro q nb
    simp only [b91EncLoop]
    split
    · split
      · have := ih ((q + x * 2 ^ nb) / 8192) (nb + 8 - 13)
        simp only [List.length_cons]; omega
      · have := ih ((q + x * 2 ^ nb) / 16384) (nb + 8 - 14)
        simp only [List.length_cons]; omega
    · have := ih (q + x * 2 ^ nb) (nb + 8)
      simp only [List.length_cons]; omega


/-! ### basE91 round trip: simulation of the decoder on the encoder's output.
    Invariant: encoder holds `nb ≤ 13` pending bits `q`, decoder holds `dn ≤ 7` pending bits `dq`,
    `dn + nb` is a multiple of 8 and `dq + q·2^dn` are the bytes in flight.  The 14 possible
    `(dn, nb)` pairs are enumerated; inside each everything is linear arithmetic over literals. -/

theorem b91_dec_pair (dq dn a : Nat) (rest : List Nat) :
    b91DecLoop dq dn none ((a % 91) :: (a / 91) :: rest)
      = bytesLE ((dn + (if a % 8192 > 88 then 13 else 14)) / 8) (dq + a * 2 ^ dn)
        ++ b91DecLoop ((dq + a * 2 ^ dn) / 256 ^ ((dn + (if a % 8192 > 88 then 13 else 14)) / 8))
            ((dn + (if a % 8192 > 88 then 13 else 14)) % 8) none rest := by
  simp only [b91DecLoop, Nat.mod_add_div']

theorem b91_enc_cons (q nb x : Nat) (rest : List Nat) :
    b91EncLoop q nb (x :: rest) =
      if nb + 8 > 13 then
        if (q + x * 2 ^ nb) % 8192 > 88 then
          ((q + x * 2 ^ nb) % 8192 % 91) :: ((q + x * 2 ^ nb) % 8192 / 91) :: b91EncLoop ((q + x * 2 ^ nb) / 8192) (nb + 8 - 13) rest
        else
          ((q + x * 2 ^ nb) % 16384 % 91) :: ((q + x * 2 ^ nb) % 16384 / 91) :: b91EncLoop ((q + x * 2 ^ nb) / 16384) (nb + 8 - 14) rest
      else b91EncLoop (q + x * 2 ^ nb) (nb + 8) rest := by
  conv => lhs; unfold b91EncLoop

/-- the induction hypothesis of the simulation, as a predicate on the remaining input -/
def B91Sim (rest : List Nat) : Prop :=
  ∀ q nb dq dn, q < 2 ^ nb → nb ≤ 13 → dq < 2 ^ dn → dn ≤ 7 → (dn + nb) % 8 = 0 →
    b91DecLoop dq dn none (b91EncLoop q nb rest) = bytesLE ((dn + nb) / 8) (dq + q * 2 ^ dn) ++ rest

/-- one input byte, for one concrete pair (dn, nb) of pending bit counts -/
macro "b91_step" ih:ident : tactic => `(tactic| (
  rw [b91_enc_cons]
  simp only [Nat.reduceAdd, Nat.reduceSub, Nat.reducePow, Nat.reduceDiv, gt_iff_lt, Nat.reduceLT,
    ↓reduceIte] at *
  first
  | (rw [$ih _ _ _ _ (by simp only [Nat.reducePow]; omega) (by omega) (by simp only [Nat.reducePow]; omega)
        (by omega) (by omega)]
     simp only [Nat.reduceAdd, Nat.reducePow, Nat.reduceDiv, bytesLE, List.cons_append,
       List.nil_append, List.cons.injEq, and_true]
     omega)
  | (split
     · rename_i h
       rw [b91_dec_pair, Nat.mod_mod, if_pos h]
       simp only [Nat.reduceAdd, Nat.reducePow, Nat.reduceDiv, Nat.reduceMod]
       rw [$ih _ _ _ _ (by simp only [Nat.reducePow]; omega) (by omega) (by simp only [Nat.reducePow]; omega)
         (by omega) (by omega)]
       simp only [Nat.reduceAdd, Nat.reducePow, Nat.reduceDiv, Nat.reduceMod, bytesLE, List.cons_append,
         List.nil_append, List.cons.injEq, and_true]
       omega
     · rename_i h
       rw [b91_dec_pair, Nat.mod_mod_of_dvd _ (by decide : 8192 ∣ 16384), if_neg h]
       simp only [Nat.reduceAdd, Nat.reducePow, Nat.reduceDiv, Nat.reduceMod]
       rw [$ih _ _ _ _ (by simp only [Nat.reducePow]; omega) (by omega) (by simp only [Nat.reducePow]; omega)
         (by omega) (by omega)]
       simp only [Nat.reduceAdd, Nat.reducePow, Nat.reduceDiv, Nat.reduceMod, bytesLE, List.cons_append,
         List.nil_append, List.cons.injEq, and_true]
       omega)))

theorem b91_sim_cons (x : Nat) (rest : List Nat) (hx : x < 256) (ih : B91Sim rest) : B91Sim (x :: rest) := by
  intro q nb dq dn hq hnb hdq hdn hmod
  unfold B91Sim at ih
  have hd : dn = 0 ∨ dn = 1 ∨ dn = 2 ∨ dn = 3 ∨ dn = 4 ∨ dn = 5 ∨ dn = 6 ∨ dn = 7 := by
    clear hq hdq ih hmod; omega
  rcases hd with rfl | rfl | rfl | rfl | rfl | rfl | rfl | rfl
  · have hn : nb = 0 ∨ nb = 8 := by clear hq hdq ih; omega
    rcases hn with rfl | rfl
    · b91_step ih
    · b91_step ih
  · have hn : nb = 7 := by clear hq hdq ih; omega
    subst hn
    b91_step ih
  · have hn : nb = 6 := by clear hq hdq ih; omega
    subst hn
    b91_step ih
  · have hn : nb = 5 ∨ nb = 13 := by clear hq hdq ih; omega
    rcases hn with rfl | rfl
    · b91_step ih
    · b91_step ih
  · have hn : nb = 4 ∨ nb = 12 := by clear hq hdq ih; omega
    rcases hn with rfl | rfl
    · b91_step ih
    · b91_step ih
  · have hn : nb = 3 ∨ nb = 11 := by clear hq hdq ih; omega
    rcases hn with rfl | rfl
    · b91_step ih
    · b91_step ih
  · have hn : nb = 2 ∨ nb = 10 := by clear hq hdq ih; omega
    rcases hn with rfl | rfl
    · b91_step ih
    · b91_step ih
  · have hn : nb = 1 ∨ nb = 9 := by clear hq hdq ih; omega
    rcases hn with rfl | rfl
    · b91_step ih
    · b91_step ih

macro "b91_pair" : tactic => `(tactic| (
  rw [b91_dec_pair]
  split <;>
  (simp only [Nat.reduceAdd, Nat.reducePow, Nat.reduceDiv, Nat.reduceMod, bytesLE, b91DecLoop,
     List.cons_append, List.nil_append, List.append_nil, List.cons.injEq, and_true, reduceCtorEq,
     and_false, false_and] at *
   all_goals omega)))

macro "b91_red" : tactic => `(tactic|
  simp only [b91EncLoop, Nat.reduceAdd, Nat.reducePow, Nat.reduceDiv, gt_iff_lt, Nat.reduceLT,
    Nat.lt_irrefl, false_or, true_or, ↓reduceIte] at *)

macro "b91_nil0" : tactic => `(tactic| (b91_red; simp only [b91DecLoop, bytesLE, List.append_nil]))

macro "b91_nil_lo" : tactic => `(tactic| (
  b91_red
  split
  · b91_pair
  · (simp only [Nat.reduceAdd, Nat.reducePow, Nat.reduceDiv, bytesLE, b91DecLoop,
       List.cons_append, List.nil_append, List.append_nil, List.cons.injEq, and_true] at *
     all_goals omega)))

macro "b91_nil_hi" : tactic => `(tactic| (b91_red; b91_pair))

theorem b91_sim_nil : B91Sim [] := by
  intro q nb dq dn hq hnb hdq hdn hmod
  have hd : dn = 0 ∨ dn = 1 ∨ dn = 2 ∨ dn = 3 ∨ dn = 4 ∨ dn = 5 ∨ dn = 6 ∨ dn = 7 := by
    clear hq hdq hmod; omega
  rcases hd with rfl | rfl | rfl | rfl | rfl | rfl | rfl | rfl
  · have hn : nb = 0 ∨ nb = 8 := by clear hq hdq; omega
    rcases hn with rfl | rfl
    · b91_nil0
    · b91_nil_hi
  · have hn : nb = 7 := by clear hq hdq; omega
    subst hn
    b91_nil_lo
  · have hn : nb = 6 := by clear hq hdq; omega
    subst hn
    b91_nil_lo
  · have hn : nb = 5 ∨ nb = 13 := by clear hq hdq; omega
    rcases hn with rfl | rfl
    · b91_nil_lo
    · b91_nil_hi
  · have hn : nb = 4 ∨ nb = 12 := by clear hq hdq; omega
    rcases hn with rfl | rfl
    · b91_nil_lo
    · b91_nil_hi
  · have hn : nb = 3 ∨ nb = 11 := by clear hq hdq; omega
    rcases hn with rfl | rfl
    · b91_nil_lo
    · b91_nil_hi
  · have hn : nb = 2 ∨ nb = 10 := by clear hq hdq; omega
    rcases hn with rfl | rfl
    · b91_nil_lo
    · b91_nil_hi
  · have hn : nb = 1 ∨ nb = 9 := by clear hq hdq; omega
    rcases hn with rfl | rfl
    · b91_nil_lo
    · b91_nil_hi

/-- **basE91 simulation**: decoding what the encoder emits from any reachable pair of states gives
    the pending bytes followed by the remaining input. -/
theorem b91_sim (bs : List Nat) (hb : Bytes bs) : B91Sim bs := by
  induction bs with
  | nil => exact b91_sim_nil
  | cons x rest ih =>
    exact b91_sim_cons x rest (hb x (by simp)) (ih (fun y hy => hb y (by simp [hy])))

theorem b91_roundtrip (g : GoodAlpha Gen.cb91 91) (bs : List Nat) (hb : Bytes bs) :
    b91Dec (b91Enc bs) = some bs := by
  have hlt := b91_digits_lt bs hb 0 0 (by decide) (by decide)
  unfold b91Dec b91Enc
  rw [all_idx_map _ _ g _ hlt, filterMap_idx_map _ _ g _ hlt]
  have := b91_sim bs hb 0 0 0 0 (by decide) (by decide) (by decide) (by decide) (by decide)
  simpa [bytesLE] using this

end SA.Codec

/-
  SA.Proofs.DnsRespMulti — multi-record splitting of WrapDnsResponse*, record by record.

  `pieces chunk fuel data` is the payload cut into `chunk`-sized pieces (what every wrapper's
  `for len(data) > 0 { … data[0:chunk] … }` loop does); `tagKey t o` is what TypePriority decodes from
  the order tag that wrapper `t` writes for order number `o`; `tagStart` the first order number,
  `tagBound` the largest record count for which the decoded tags are strictly increasing
  (`tagKey_mono`, tight by `tagKey_wraps`).  The `tagged_*` lemmas show that the records which arrive
  for the binary-prefixed types (NULL, PRIVATE, AAAA, A) are `Tagged` with exactly the pieces.
-/
import SA.Proofs.DnsResp
import SA.Proofs.DnsRespSort

namespace SA.DnsResp
open SA.DnsWire SA.WireCodec SA.DnsReq

/-! ### cutting a payload into pieces -/

def pieces {α : Type} (chunk : Nat) : Nat → List α → List (List α)
  | 0, _ => []
  | fuel + 1, data => if data.isEmpty then [] else data.take chunk :: pieces chunk fuel (data.drop chunk)

theorem pieces_nil {α : Type} (chunk fuel : Nat) : pieces chunk fuel ([] : List α) = [] := by
  cases fuel <;> simp [pieces]

theorem pieces_flatten {α : Type} (chunk : Nat) (hc : 0 < chunk) (fuel : Nat) (data : List α)
    (hf : data.length ≤ fuel) : (pieces chunk fuel data).flatten = data := by
  induction fuel generalizing data with
  | zero =>
    have : data = [] := List.eq_nil_of_length_eq_zero (by omega)
    subst this; rfl
  | succ n ih =>
    unfold pieces
    by_cases he : data.isEmpty = true
    · have : data = [] := by simpa using he
      subst this; rfl
    · simp only [he, Bool.false_eq_true, if_false, List.flatten_cons]
      have hne : data ≠ [] := by intro h; subst h; simp at he
      have hpos : 0 < data.length := List.length_pos_iff.mpr hne
      rw [ih (data.drop chunk) (by rw [List.length_drop]; omega)]
      exact List.take_append_drop chunk data

theorem pieces_bounds {α : Type} (chunk : Nat) (hc : 0 < chunk) (fuel : Nat) (data : List α) :
    ∀ p ∈ pieces chunk fuel data, p ≠ [] ∧ p.length ≤ chunk := by
  induction fuel generalizing data with
  | zero => intro p hp; simp [pieces] at hp
  | succ n ih =>
    unfold pieces
    by_cases he : data.isEmpty = true
    · simp [he]
    · simp only [he, Bool.false_eq_true, if_false]
      have hne : data ≠ [] := by intro h; subst h; simp at he
      have hpos : 0 < data.length := List.length_pos_iff.mpr hne
      intro p hp
      rcases List.mem_cons.mp hp with rfl | hp
      · constructor
        · intro h0
          have h1 : (data.take chunk).length = min chunk data.length := List.length_take
          rw [h0] at h1
          simp only [List.length_nil] at h1
          omega
        · have h1 : (data.take chunk).length = min chunk data.length := List.length_take
          omega
      · exact ih _ p hp

theorem pieces_mem_sub {α : Type} (chunk fuel : Nat) (data : List α) :
    ∀ p ∈ pieces chunk fuel data, ∀ x ∈ p, x ∈ data := by
  induction fuel generalizing data with
  | zero => intro p hp; simp [pieces] at hp
  | succ n ih =>
    unfold pieces
    by_cases he : data.isEmpty = true
    · simp [he]
    · simp only [he, Bool.false_eq_true, if_false]
      intro p hp x hx
      rcases List.mem_cons.mp hp with rfl | hp
      · exact List.mem_of_mem_take hx
      · exact List.mem_of_mem_drop (ih _ p hp x hx)

/-- the number of pieces is ⌈len / chunk⌉ -/
theorem pieces_length {α : Type} (chunk : Nat) (hc : 0 < chunk) (fuel : Nat) (data : List α)
    (hf : data.length ≤ fuel) : (pieces chunk fuel data).length = (data.length + chunk - 1) / chunk := by
  induction fuel generalizing data with
  | zero =>
    have : data = [] := List.eq_nil_of_length_eq_zero (by omega)
    subst this
    simp only [pieces, List.length_nil, Nat.zero_add]
    exact (Nat.div_eq_of_lt (by omega)).symm
  | succ n ih =>
    unfold pieces
    by_cases he : data.isEmpty = true
    · have : data = [] := by simpa using he
      subst this
      simp only [List.isEmpty_nil, if_true, List.length_nil, Nat.zero_add]
      exact (Nat.div_eq_of_lt (by omega)).symm
    · simp only [he, Bool.false_eq_true, if_false, List.length_cons]
      have hne : data ≠ [] := by intro h; subst h; simp at he
      have hpos : 0 < data.length := List.length_pos_iff.mpr hne
      rw [ih (data.drop chunk) (by rw [List.length_drop]; omega), List.length_drop]
      by_cases hle : data.length ≤ chunk
      · have h0 : data.length - chunk + chunk - 1 = chunk - 1 := by omega
        rw [h0, Nat.div_eq_of_lt (by omega)]
        have h1 : data.length + chunk - 1 = (data.length - 1) + chunk := by omega
        rw [h1, Nat.add_div_right _ hc, Nat.div_eq_of_lt (by omega)]
      · have h1 : data.length + chunk - 1 = (data.length - chunk + chunk - 1) + chunk := by omega
        rw [h1, Nat.add_div_right _ hc]

/-! ### order tags as TypePriority decodes them -/

/-- the two-character base-32 tag written as `order & 31`, `(order >> 4) & 31`, read back as c0 + 32·c1 -/
def key32 (o : Nat) : Int := b32CharToInt (b32Char o) + b32CharToInt (b32Char (o / 16)) * 32

/-- TypePriority of the record that wrapper `t` emits for order number `o` -/
def tagKey : RRType → Nat → Int
  | .null, o => 10000 + ((o % 65536 : Nat) : Int)
  | .priv, o => 20000 + ((o % 65536 : Nat) : Int)
  | .txt, o => 30000 + key32 o
  | .mx, o => 40000 + (((o * 10) % 65536 : Nat) : Int)
  | .srv, o => 50000 + ((o % 65536 : Nat) : Int)
  | .cname, o => 60000 + key32 o
  | .aaaa, o => 70000 + ((o % 65536 : Nat) : Int)
  | .a, o => 80000 + ((o % 256 : Nat) : Int)

/-- first order number a wrapper uses (TXT counts from 0, the others from 1) -/
def tagStart : RRType → Nat
  | .txt => 0
  | _ => 1

/-- largest record count for which the decoded tags are strictly increasing -/
def tagBound : RRType → Nat
  | .null => 65535
  | .priv => 65535
  | .txt => 512
  | .mx => 6553
  | .srv => 65535
  | .cname => 511
  | .aaaa => 65535
  | .a => 255

theorem b32_roundtrip : ∀ m, m < 32 → b32CharToInt (SA.Gen.C09.c09cb32.getD m 0) = (m : Int) := by decide

theorem b32CharToInt_b32Char (n : Nat) : b32CharToInt (b32Char n) = ((n % 32 : Nat) : Int) :=
  b32_roundtrip (n % 32) (Nat.mod_lt _ (by decide))

theorem key32_eq (o : Nat) : key32 o = ((o % 32 + (o / 16 % 32) * 32 : Nat) : Int) := by
  unfold key32
  rw [b32CharToInt_b32Char, b32CharToInt_b32Char]
  omega

/-- **the decoded tag is strictly increasing over the first `tagBound t` records** -/
theorem tagKey_mono (t : RRType) (i j : Nat) (h0 : tagStart t ≤ i) (hij : i < j) (hj : j < tagStart t + tagBound t) :
    tagKey t i < tagKey t j := by
  cases t with
  | mx =>
    simp only [tagKey, tagStart, tagBound] at *
    rw [Nat.mod_eq_of_lt (show i * 10 < 65536 by omega), Nat.mod_eq_of_lt (show j * 10 < 65536 by omega)]
    omega
  | _ => simp only [tagKey, tagStart, tagBound, key32_eq] at * <;> omega

/-- … and not beyond: the tag of record number `tagBound t + 1` is not above that of the first record -/
theorem tagKey_wraps (t : RRType) : tagKey t (tagStart t + tagBound t) ≤ tagKey t (tagStart t) := by
  cases t <;> simp only [tagKey, tagStart, tagBound, key32_eq] <;> decide

/-! ### binary-prefixed records (NULL, PRIVATE, AAAA, A) -/

theorem chunkRecs_length (chunk : Nat) (pre : Nat → List Nat) (fuel order : Nat) (data : List Nat) :
    (chunkRecs chunk pre fuel order data).length = (pieces chunk fuel data).length := by
  induction fuel generalizing order data with
  | zero => rfl
  | succ n ih =>
    unfold chunkRecs pieces
    by_cases he : data.isEmpty = true
    · simp [he]
    · simp only [he, Bool.false_eq_true, if_false, List.length_cons, ih]

/-- records built by `chunkRecs` and read back by TypePriority / UnwrapDnsResponse -/
theorem tagged_chunkRecs (L : Nat) (kf : Nat → Int) (mk : List Nat → RR) (pre : Nat → List Nat) (chunk hi : Nat)
    (hc : 0 < chunk)
    (hrec : ∀ o p, o < hi → p ≠ [] → p.length ≤ chunk →
      typePriority (mk (pre o ++ p)) = some (kf o) ∧ unwrapOne L (mk (pre o ++ p)) = some p)
    (fuel o : Nat) (data : List Nat) (hlen : o + (pieces chunk fuel data).length ≤ hi) :
    Tagged L kf o ((chunkRecs chunk pre fuel o data).map mk) (pieces chunk fuel data) := by
  induction fuel generalizing o data with
  | zero => exact Tagged.nil o
  | succ n ih =>
    have hb := pieces_bounds chunk hc (n + 1) data
    unfold pieces at hlen hb
    unfold chunkRecs pieces
    by_cases he : data.isEmpty = true
    · simp only [he, if_true, List.map_nil]; exact Tagged.nil o
    · simp only [he, Bool.false_eq_true, if_false, List.map_cons, List.length_cons] at hlen hb ⊢
      have hp := hb (data.take chunk) (List.mem_cons_self)
      have hr := hrec o (data.take chunk) (by omega) hp.1 hp.2
      exact Tagged.cons o _ _ _ _ hr.1 hr.2 (ih (o + 1) (data.drop chunk) (by omega))

theorem answersOverWire_same (rs got : List RR) (h : ∀ r ∈ rs, ∀ r', rrOverWire r = .ok r' → r' = r)
    (hw : answersOverWire rs = .ok got) : got = rs := by
  induction rs generalizing got with
  | nil => simp [answersOverWire] at hw; exact hw
  | cons r rs ih =>
    unfold answersOverWire at hw
    cases h1 : rrOverWire r with
    | error e => simp [h1] at hw
    | ok r' =>
      cases h2 : answersOverWire rs with
      | error e => simp [h1, h2] at hw
      | ok rs' =>
        simp only [h1, h2, Except.ok.injEq] at hw
        rw [← hw, h r (List.mem_cons_self) r' h1, ih rs' (fun x hx => h x (List.mem_cons_of_mem _ hx)) h2]

theorem answersOverWire_all (rs : List RR) (h : ∀ r ∈ rs, rrOverWire r = .ok r) : answersOverWire rs = .ok rs := by
  induction rs with
  | nil => rfl
  | cons r rs ih =>
    unfold answersOverWire
    rw [h r (List.mem_cons_self), ih (fun x hx => h x (List.mem_cons_of_mem _ hx))]

theorem private_registered : SA.Gen.C09.queryTypePrivate = SA.Gen.C09.typeSocketAce := by decide

theorem rr_same_null (d : List Nat) (r' : RR) (h : rrOverWire (.null d) = .ok r') : r' = .null d := by
  simp only [rrOverWire] at h
  split at h
  · exact (Except.ok.inj h).symm
  · cases h

theorem rr_same_priv (d : List Nat) (r' : RR) (h : rrOverWire (.priv d) = .ok r') : r' = .priv d := by
  simp only [rrOverWire, private_registered, if_true] at h
  split at h
  · cases h
  · exact (Except.ok.inj h).symm

theorem rr_same_aaaa (d : List Nat) (r' : RR) (h : rrOverWire (.aaaa d) = .ok r') : r' = .aaaa d := by
  simp only [rrOverWire] at h
  split at h
  · exact (Except.ok.inj h).symm
  · cases h

theorem rr_same_a (d : List Nat) (r' : RR) (h : rrOverWire (.a d) = .ok r') : r' = .a d := by
  simp only [rrOverWire] at h
  split at h
  · exact (Except.ok.inj h).symm
  · cases h

theorem rd16_le16_mod (o : Nat) (p : List Nat) : rd16 (le16 o ++ p) = some (o % 65536, p) := by
  simp only [le16, rd16, List.cons_append, List.nil_append]
  congr 2; omega

theorem rec_null (L o : Nat) (p : List Nat) :
    typePriority (.null (le16 o ++ p)) = some (tagKey .null o) ∧ unwrapOne L (.null (le16 o ++ p)) = some p := by
  constructor
  · simp [typePriority, rd16_le16_mod, tagKey]
  · simp [unwrapOne, le16]

theorem rec_priv (L o : Nat) (p : List Nat) :
    typePriority (.priv (le16 o ++ p)) = some (tagKey .priv o) ∧ unwrapOne L (.priv (le16 o ++ p)) = some p := by
  constructor
  · simp [typePriority, rd16_le16_mod, tagKey]
  · simp [unwrapOne, le16]

theorem rec_aaaa (L o : Nat) (p : List Nat) :
    typePriority (.aaaa (le16 o ++ p)) = some (tagKey .aaaa o) ∧ unwrapOne L (.aaaa (le16 o ++ p)) = some p := by
  constructor
  · simp [typePriority, rd16_le16_mod, tagKey]
  · simp [unwrapOne, le16]

theorem rec_a (L o : Nat) (p : List Nat) :
    typePriority (.a ([o % 256] ++ p)) = some (tagKey .a o) ∧ unwrapOne L (.a ([o % 256] ++ p)) = some p := by
  constructor
  · simp [typePriority, tagKey]
  · simp [unwrapOne]

/-- what arrives for a binary-prefixed type is `Tagged` with the pieces of the payload -/
theorem tagged_binary (t : RRType) (ht : t = .null ∨ t = .priv ∨ t = .aaaa ∨ t = .a)
    (domain data : List Nat) (answers got : List RR)
    (hw : wrap t domain data = some answers) (hwire : answersOverWire answers = .ok got)
    (hcount : answers.length ≤ tagBound t) :
    ∃ chunk, 0 < chunk ∧ got = answers ∧ answers.length = (pieces chunk data.length data).length ∧
      Tagged domain.length (tagKey t) 1 got (pieces chunk data.length data) := by
  rcases ht with rfl | rfl | rfl | rfl
  · simp only [wrap, Option.some.injEq] at hw
    subst hw
    have hg : got = _ := answersOverWire_same _ got (fun r hr r' h => by
      obtain ⟨d, _, rfl⟩ := List.mem_map.mp hr; exact rr_same_null d r' h) hwire
    subst hg
    rw [List.length_map, chunkRecs_length] at hcount
    refine ⟨SA.Gen.C09.wrapChunkNull, by decide, rfl, by rw [List.length_map, chunkRecs_length], ?_⟩
    exact tagged_chunkRecs _ _ RR.null _ _ 65536 (by decide) (fun o p _ _ _ => rec_null _ o p) _ 1 data
      (by simp only [tagBound] at hcount; omega)
  · simp only [wrap, Option.some.injEq] at hw
    subst hw
    have hg : got = _ := answersOverWire_same _ got (fun r hr r' h => by
      obtain ⟨d, _, rfl⟩ := List.mem_map.mp hr; exact rr_same_priv d r' h) hwire
    subst hg
    rw [List.length_map, chunkRecs_length] at hcount
    refine ⟨SA.Gen.C09.wrapChunkPrivate, by decide, rfl, by rw [List.length_map, chunkRecs_length], ?_⟩
    exact tagged_chunkRecs _ _ RR.priv _ _ 65536 (by decide) (fun o p _ _ _ => rec_priv _ o p) _ 1 data
      (by simp only [tagBound] at hcount; omega)
  · simp only [wrap, Option.some.injEq] at hw
    subst hw
    have hg : got = _ := answersOverWire_same _ got (fun r hr r' h => by
      obtain ⟨d, _, rfl⟩ := List.mem_map.mp hr; exact rr_same_aaaa d r' h) hwire
    subst hg
    rw [List.length_map, chunkRecs_length] at hcount
    refine ⟨SA.Gen.C09.wrapChunkAAAA, by decide, rfl, by rw [List.length_map, chunkRecs_length], ?_⟩
    exact tagged_chunkRecs _ _ RR.aaaa _ _ 65536 (by decide) (fun o p _ _ _ => rec_aaaa _ o p) _ 1 data
      (by simp only [tagBound] at hcount; omega)
  · simp only [wrap] at hw
    split at hw
    · exact absurd hw (by simp)
    · simp only [Option.some.injEq] at hw
      subst hw
      have hg : got = _ := answersOverWire_same _ got (fun r hr r' h => by
        obtain ⟨d, _, rfl⟩ := List.mem_map.mp hr; exact rr_same_a d r' h) hwire
      subst hg
      rw [List.length_map, chunkRecs_length] at hcount
      refine ⟨SA.Gen.C09.wrapChunkA, by decide, rfl, by rw [List.length_map, chunkRecs_length], ?_⟩
      exact tagged_chunkRecs _ _ RR.a (fun o => [o % 256]) _ 256 (by decide) (fun o p _ _ _ => rec_a _ o p) _ 1 data
        (by simp only [tagBound] at hcount; omega)

end SA.DnsResp

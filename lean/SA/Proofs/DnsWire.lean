/-
  SA.Proofs.DnsWire — lemmas about the name layer: what UnpackDomainName escapes, StripDomain /
  unescapePresentation undo; a dotted string of well-formed labels packs into exactly those labels.
-/
import SA.Model.DnsWire

namespace SA.DnsWire

/-! ### escapes and their inverses -/

theorem ddd_escDDD (b : Nat) (h : b < 256) :
    ddd (48 + b / 100) (48 + b / 10 % 10) (48 + b % 10) = b := by
  unfold ddd
  simp only [Nat.add_sub_cancel_left]
  have h1 : b / 10 / 10 = b / 100 := Nat.div_div_eq_div_mul b 10 10
  omega

theorem threeDigits_escDDD (b : Nat) (h : b < 256) (tl : List Nat) :
    threeDigits ((48 + b / 100) :: (48 + b / 10 % 10) :: (48 + b % 10) :: tl) = true := by
  simp [threeDigits, isDigit]; omega

theorem dddOf_escDDD (b : Nat) (h : b < 256) (tl : List Nat) :
    dddOf ((48 + b / 100) :: (48 + b / 10 % 10) :: (48 + b % 10) :: tl) = b := by
  simp [dddOf, ddd_escDDD b h]

theorem threeDigits_cons_nondigit (b : Nat) (tl : List Nat) (h : isDigit b = false) :
    threeDigits (b :: tl) = false := by
  match tl with
  | [] => rfl
  | [_] => rfl
  | _ :: _ :: _ => simp [threeDigits, h]

/-- StripDomain's loop undoes what UnpackDomainName does to one byte -/
theorem stripGo_escNameByte (b : Nat) (hb : b < 256) (tl : List Nat) :
    stripGo 0 (escNameByte b ++ tl) = (stripGo 0 tl).map (b :: ·) := by
  unfold escNameByte
  by_cases hs : nameSpecial b = true
  · simp only [hs, if_true]
    have hnd : isDigit b = false := by
      simp [nameSpecial] at hs
      cases hd : isDigit b with
      | false => rfl
      | true => simp [isDigit] at hd; omega
    show stripGo 0 (bsl :: b :: tl) = _
    simp [stripGo, bsl, dot, threeDigits_cons_nondigit b tl hnd]
  · simp only [hs]
    by_cases hr : (b < 32 || b > 126) = true
    · simp only [hr, if_true]
      show stripGo 0 (bsl :: (48 + b / 100) :: (48 + b / 10 % 10) :: (48 + b % 10) :: tl) = _
      simp [stripGo, bsl, dot, threeDigits_escDDD b hb tl, dddOf_escDDD b hb tl]
    · simp only [hr]
      have h46 : b ≠ 46 := by intro h; subst h; simp [nameSpecial] at hs
      have h92 : b ≠ 92 := by intro h; subst h; simp [nameSpecial] at hs
      show stripGo 0 (b :: tl) = _
      simp [stripGo, bsl, dot, h46, h92]

theorem stripGo_escLabel (l : List Nat) (hl : ∀ b ∈ l, b < 256) (tl : List Nat) :
    stripGo 0 (l.flatMap escNameByte ++ tl) = (stripGo 0 tl).map (l ++ ·) := by
  induction l with
  | nil => simp
  | cons b l ih =>
    have hb : b < 256 := hl b (by simp)
    have hl' : ∀ x ∈ l, x < 256 := fun x hx => hl x (by simp [hx])
    simp only [List.flatMap_cons, List.append_assoc]
    rw [stripGo_escNameByte b hb, ih hl']
    cases stripGo 0 tl <;> simp

theorem stripGo_dot (tl : List Nat) : stripGo 0 (dot :: tl) = stripGo 0 tl := by
  simp [stripGo]

/-! ### packing a dotted string of well-formed labels -/

/-- labels followed by a dot each: the presentation form of a fully qualified name -/
def dotted (ls : List (List Nat)) : List Nat := ls.flatMap (· ++ [dot])

/-- no name syntax inside: neither '.' nor '\\' -/
def NoSyntax (l : List Nat) : Prop := ∀ b ∈ l, b ≠ 46 ∧ b ≠ 92

/-- a label packDomainName accepts as it stands -/
def GoodLabel (l : List Nat) : Prop := l ≠ [] ∧ l.length ≤ 63 ∧ NoSyntax l

theorem packLoop_step_plain (c : Nat) (rest cur : List Nat) (acc : List (List Nat)) (w : Bool)
    (h1 : (c == bsl) = false) (h2 : (c == dot) = false) :
    packLoop 0 (c :: rest) cur acc w = packLoop 0 rest (cur ++ [c]) acc false := by
  simp [packLoop, h1, h2]

theorem packLoop_step_dot (rest cur : List Nat) (acc : List (List Nat))
    (hne : cur.isEmpty = false) (h64 : cur.length < 64) :
    packLoop 0 (dot :: rest) cur acc false = packLoop 0 rest [] (acc ++ [cur]) true := by
  have h1 : (dot == bsl) = false := by decide
  have h64' : ¬ (64 ≤ cur.length) := by omega
  simp [packLoop, h1, hne, h64']

theorem packLoop_plain (l : List Nat) (hl : NoSyntax l) (rest cur : List Nat) (acc : List (List Nat)) (w : Bool) :
    packLoop 0 (l ++ dot :: rest) cur acc w = packLoop 0 (dot :: rest) (cur ++ l) acc (w && l.isEmpty) := by
  induction l generalizing cur w with
  | nil => simp
  | cons b l ih =>
    have hb := hl b (by simp)
    have hl' : NoSyntax l := fun x hx => hl x (by simp [hx])
    have h1 : (b == bsl) = false := by simp [bsl, hb.2]
    have h2 : (b == dot) = false := by simp [dot, hb.1]
    show packLoop 0 (b :: (l ++ dot :: rest)) cur acc w = _
    rw [packLoop_step_plain b _ cur acc w h1 h2, ih hl']
    simp

theorem packLoop_label (l : List Nat) (hl : GoodLabel l) (rest : List Nat) (acc : List (List Nat)) (w : Bool) :
    packLoop 0 (l ++ dot :: rest) [] acc w = packLoop 0 rest [] (acc ++ [l]) true := by
  obtain ⟨hne, hlen, hns⟩ := hl
  rw [packLoop_plain l hns]
  have he : l.isEmpty = false := by cases l with | nil => exact absurd rfl hne | cons _ _ => rfl
  simp only [he, Bool.and_false, List.nil_append]
  exact packLoop_step_dot rest l acc he (by omega)

theorem packName_dotted (ls : List (List Nat)) (hls : ∀ l ∈ ls, GoodLabel l) :
    packName (dotted ls) = some ls := by
  have key : ∀ (ls : List (List Nat)), (∀ l ∈ ls, GoodLabel l) → ∀ acc w,
      packLoop 0 (dotted ls) [] acc w = some (acc ++ ls) := by
    intro ls
    induction ls with
    | nil => intro _ acc w; simp [dotted, packLoop]
    | cons l ls ih =>
      intro h acc w
      have hl := h l (by simp)
      have hls' : ∀ x ∈ ls, GoodLabel x := fun x hx => h x (by simp [hx])
      have : dotted (l :: ls) = l ++ dot :: dotted ls := by simp [dotted]
      rw [this, packLoop_label l hl, ih hls']
      simp
  simpa [packName] using key ls hls [] false

theorem dotted_length (ls : List (List Nat)) : (dotted ls).length = (ls.map (fun l => l.length + 1)).sum := by
  induction ls with
  | nil => rfl
  | cons l ls ih =>
    have : dotted (l :: ls) = l ++ dot :: dotted ls := by simp [dotted]
    rw [this]; simp [ih]; omega

/-- a fully qualified name of good labels that is short enough survives Pack and Unpack as those labels -/
theorem nameOverWire_dotted (ls : List (List Nat)) (hls : ∀ l ∈ ls, GoodLabel l)
    (hlen : (dotted ls).length < 255) : nameOverWire (dotted ls) = .ok ls := by
  unfold nameOverWire
  rw [packName_dotted ls hls]
  have : nameBudgetOk ls = true := by
    unfold nameBudgetOk
    rw [← dotted_length]; simpa using hlen
  simp [this]

/-! ### Unpack then StripDomain gives the data back -/

/-- a label UnpackDomainName renders unchanged -/
def PlainLabel (l : List Nat) : Prop := ∀ b ∈ l, escNameByte b = [b]

theorem escLabel_plain (l : List Nat) (h : PlainLabel l) : l.flatMap escNameByte = l := by
  induction l with
  | nil => rfl
  | cons b l ih =>
    have hb := h b (by simp)
    have hl : PlainLabel l := fun x hx => h x (by simp [hx])
    simp [List.flatMap_cons, hb, ih hl]

/-- how UnpackDomainName renders one label -/
def escLabelDot (l : List Nat) : List Nat := l.flatMap escNameByte ++ [dot]

theorem stripGo_escLabels (ls : List (List Nat)) (hb : ∀ l ∈ ls, ∀ b ∈ l, b < 256) (tl : List Nat) :
    stripGo 0 (ls.flatMap escLabelDot ++ tl) = (stripGo 0 tl).map (ls.flatten ++ ·) := by
  induction ls with
  | nil => simp
  | cons l ls ih =>
    have hl := hb l (by simp)
    have hls : ∀ x ∈ ls, ∀ b ∈ x, b < 256 := fun x hx => hb x (by simp [hx])
    simp only [List.flatMap_cons, escLabelDot, List.append_assoc, List.flatten_cons]
    rw [stripGo_escLabel l hl]
    show Option.map _ (stripGo 0 (dot :: (List.flatMap escLabelDot ls ++ tl))) = _
    rw [stripGo_dot, ih hls]
    cases stripGo 0 tl <;> simp

theorem plain_dotted (dls : List (List Nat)) (hp : ∀ l ∈ dls, PlainLabel l) :
    dls.flatMap escLabelDot = dotted dls := by
  induction dls with
  | nil => rfl
  | cons l ls ih =>
    have hl := hp l (by simp)
    have hls : ∀ x ∈ ls, PlainLabel x := fun x hx => hp x (by simp [hx])
    simp [List.flatMap_cons, escLabelDot, dotted, escLabel_plain l hl] at *
    exact ih hls

theorem lower_dot : lower dot = dot := by decide

theorem hasSuffix_append (a b : List Nat) : hasSuffix (a ++ b) b = true := by
  simp [hasSuffix]

theorem stripDomain_unpack (chunks dls : List (List Nat)) (domain : List Nat)
    (hne : chunks ≠ []) (hb : ∀ l ∈ chunks, ∀ b ∈ l, b < 256)
    (hd : dotted dls = domain ++ [dot]) (hp : ∀ l ∈ dls, PlainLabel l) :
    stripDomain (unpackName (chunks ++ dls)) domain = some chunks.flatten := by
  have hsplit : chunks = chunks.dropLast ++ [chunks.getLast hne] := (List.dropLast_concat_getLast hne).symm
  generalize chunks.dropLast = init at hsplit
  generalize chunks.getLast hne = last at hsplit
  subst hsplit
  have hinit : ∀ l ∈ init, ∀ b ∈ l, b < 256 := fun l hl => hb l (by simp [hl])
  have hlast : ∀ b ∈ last, b < 256 := hb last (by simp)
  have hnil : ((init ++ [last]) ++ dls).isEmpty = false := by
    cases init <;> simp
  have hname : unpackName ((init ++ [last]) ++ dls)
      = (init.flatMap escLabelDot ++ last.flatMap escNameByte) ++ (dot :: (domain ++ [dot])) := by
    unfold unpackName
    rw [hnil]
    simp only [Bool.false_eq_true, if_false]
    have : ∀ (xs : List (List Nat)), xs.flatMap (fun l => l.flatMap escNameByte ++ [dot]) = xs.flatMap escLabelDot := fun _ => rfl
    rw [this, List.flatMap_append, List.flatMap_append, plain_dotted dls hp, hd]
    simp [escLabelDot]
  rw [hname]
  generalize hA : init.flatMap escLabelDot ++ last.flatMap escNameByte = A
  unfold stripDomain
  have hsuf : (dot :: (domain.map lower ++ [dot])) = (dot :: (domain ++ [dot])).map lower := by
    simp [lower_dot]
  have hlenB : (dot :: (domain ++ [dot])).length = domain.length + 2 := by simp
  simp only [hsuf, List.map_append, hasSuffix_append, if_true]
  have htake : (A ++ dot :: (domain ++ [dot])).take ((A ++ dot :: (domain ++ [dot])).length - (domain.length + 2)) = A := by
    have : (A ++ dot :: (domain ++ [dot])).length - (domain.length + 2) = A.length := by
      simp
    rw [this]; simp
  rw [htake, ← hA]
  unfold stripLoop
  rw [stripGo_escLabels init hinit]
  have := stripGo_escLabel last hlast []
  simp only [List.append_nil] at this
  rw [this]
  simp [stripGo]

/-! ### Dotify and PrepareHostname produce a dotted string of short labels -/

def chunksAux (stride : Nat) : Nat → List Nat → List (List Nat)
  | 0, buf => [buf]
  | fuel + 1, buf =>
    if stride < buf.length then buf.take stride :: chunksAux stride fuel (buf.drop stride) else [buf]

theorem dotifyAux_dotted (stride fuel : Nat) (buf : List Nat) :
    dotifyAux stride fuel buf ++ [dot] = dotted (chunksAux stride fuel buf) := by
  induction fuel generalizing buf with
  | zero => simp [dotifyAux, chunksAux, dotted]
  | succ n ih =>
    unfold dotifyAux chunksAux
    by_cases h : stride < buf.length
    · simp only [h, if_true]
      have := ih (buf.drop stride)
      simp only [dotted, List.flatMap_cons] at this ⊢
      rw [← this]; simp
    · simp [h, dotted]

theorem chunksAux_flatten (stride fuel : Nat) (buf : List Nat) :
    (chunksAux stride fuel buf).flatten = buf := by
  induction fuel generalizing buf with
  | zero => simp [chunksAux]
  | succ n ih =>
    unfold chunksAux
    by_cases h : stride < buf.length
    · simp [h, ih]
    · simp [h]

theorem chunksAux_bounds (stride : Nat) (hs : 0 < stride) (fuel : Nat) (buf : List Nat)
    (hne : buf ≠ []) (hf : buf.length ≤ fuel) :
    ∀ l ∈ chunksAux stride fuel buf, l ≠ [] ∧ l.length ≤ stride := by
  induction fuel generalizing buf with
  | zero =>
    have : buf = [] := List.eq_nil_of_length_eq_zero (by omega)
    exact absurd this hne
  | succ n ih =>
    unfold chunksAux
    by_cases h : stride < buf.length
    · simp only [h, if_true]
      intro l hl
      rcases List.mem_cons.mp hl with rfl | hl
      · constructor
        · intro h0
          have h1 : (buf.take stride).length = min stride buf.length := List.length_take
          rw [h0] at h1
          simp only [List.length_nil] at h1
          omega
        · have h1 : (buf.take stride).length = min stride buf.length := List.length_take
          omega
      · have hne' : buf.drop stride ≠ [] := by
          intro h0
          have h1 : (buf.drop stride).length = buf.length - stride := List.length_drop
          rw [h0] at h1
          simp only [List.length_nil] at h1
          omega
        have h2 : (buf.drop stride).length = buf.length - stride := List.length_drop
        exact ih (buf.drop stride) hne' (by omega) l hl
    · simp only [h, if_false]
      intro l hl
      simp at hl; subst hl
      exact ⟨hne, by omega⟩

/-! ### the request name over the wire -/

/-- the tunnel domain is a dotted sequence of labels that need no escaping -/
structure DomainOk (domain : List Nat) (dls : List (List Nat)) : Prop where
  dotted_eq : dotted dls = domain ++ [dot]
  good : ∀ l ∈ dls, GoodLabel l
  plain : ∀ l ∈ dls, PlainLabel l

/-- what the client puts in front of the domain: non-empty, bytes, no '.' and no '\\' -/
def DataOk (data : List Nat) : Prop := data ≠ [] ∧ ∀ b ∈ data, b ≠ 46 ∧ b ≠ 92 ∧ b < 256

/-- side conditions on the constants read from the source (re-checked when the source changes) -/
theorem gen_stride_pos : 0 < SA.Gen.C09.dotifyStride := by decide
theorem gen_stride_le : SA.Gen.C09.dotifyStride ≤ 63 := by decide
theorem gen_label_le : SA.Gen.labelMaxLen ≤ 63 := by decide
theorem gen_host_lt : SA.Gen.hostnameMaxLen - SA.Gen.C09.prepareSlack < 254 := by decide

theorem dotted_append (a b : List (List Nat)) : dotted (a ++ b) = dotted a ++ dotted b := by
  simp [dotted]

theorem prepareHostname_some (data domain host : List Nat) (h : prepareHostname data domain = some host) :
    host = (if data.length > SA.Gen.labelMaxLen then dotify data else data) ++ dot :: (domain ++ [dot])
      ∧ host.length ≤ SA.Gen.hostnameMaxLen - SA.Gen.C09.prepareSlack := by
  unfold prepareHostname at h
  generalize (if data.length > SA.Gen.labelMaxLen then dotify data else data) = d at h ⊢
  simp only at h
  by_cases hl : (d ++ dot :: (domain ++ [dot])).length > SA.Gen.hostnameMaxLen - SA.Gen.C09.prepareSlack
  · rw [if_pos hl] at h; exact absurd h (by simp)
  · rw [if_neg hl] at h
    have := Option.some.inj h
    subst this
    exact ⟨rfl, by omega⟩

theorem prepareHostname_wire (data domain host : List Nat) (dls : List (List Nat))
    (hd : DataOk data) (hdom : DomainOk domain dls)
    (hfit : prepareHostname data domain = some host) :
    ∃ chunks : List (List Nat), chunks ≠ [] ∧ chunks.flatten = data
      ∧ (∀ l ∈ chunks, l ≠ [] ∧ l.length ≤ 63)
      ∧ host = dotted (chunks ++ dls)
      ∧ host.length ≤ SA.Gen.hostnameMaxLen - SA.Gen.C09.prepareSlack
      ∧ nameOverWire host = .ok (chunks ++ dls)
      ∧ stripDomain (unpackName (chunks ++ dls)) domain = some data := by
  obtain ⟨hne, hbytes⟩ := hd
  -- the chunks Dotify makes (or the data as one label)
  have hch : ∃ chunks : List (List Nat),
      (if data.length > SA.Gen.labelMaxLen then dotify data else data) ++ [dot] = dotted chunks
      ∧ chunks.flatten = data ∧ (∀ l ∈ chunks, l ≠ [] ∧ l.length ≤ 63) := by
    by_cases hlong : data.length > SA.Gen.labelMaxLen
    · refine ⟨chunksAux SA.Gen.C09.dotifyStride data.length data, ?_, chunksAux_flatten _ _ _, ?_⟩
      · simp only [hlong, if_true, dotify]; exact dotifyAux_dotted _ _ _
      · intro l hl
        have := chunksAux_bounds _ gen_stride_pos data.length data hne (Nat.le_refl _) l hl
        exact ⟨this.1, Nat.le_trans this.2 gen_stride_le⟩
    · refine ⟨[data], ?_, by simp, ?_⟩
      · simp [hlong, dotted]
      · intro l hl
        simp at hl; subst hl
        exact ⟨hne, by have := gen_label_le; omega⟩
  obtain ⟨chunks, hdot, hflat, hbounds⟩ := hch
  have hcne : chunks ≠ [] := by
    intro h0; rw [h0] at hflat; simp at hflat; exact hne hflat.symm.symm
  have hhost : host = dotted (chunks ++ dls) ∧ host.length ≤ SA.Gen.hostnameMaxLen - SA.Gen.C09.prepareSlack := by
    obtain ⟨heq, hlen⟩ := prepareHostname_some data domain host hfit
    refine ⟨?_, hlen⟩
    rw [heq, dotted_append, ← hdot, hdom.dotted_eq]
    simp
  obtain ⟨hhost, hlen⟩ := hhost
  have hgood : ∀ l ∈ chunks ++ dls, GoodLabel l := by
    intro l hl
    rcases List.mem_append.mp hl with hl | hl
    · refine ⟨(hbounds l hl).1, (hbounds l hl).2, ?_⟩
      intro b hb
      have : b ∈ data := by rw [← hflat]; exact List.mem_flatten.mpr ⟨l, hl, hb⟩
      exact ⟨(hbytes b this).1, (hbytes b this).2.1⟩
    · exact hdom.good l hl
  have hbyte : ∀ l ∈ chunks, ∀ b ∈ l, b < 256 := by
    intro l hl b hb
    have : b ∈ data := by rw [← hflat]; exact List.mem_flatten.mpr ⟨l, hl, hb⟩
    exact (hbytes b this).2.2
  refine ⟨chunks, hcne, hflat, hbounds, hhost, hlen, ?_, ?_⟩
  · rw [hhost]
    apply nameOverWire_dotted _ hgood
    rw [← hhost]
    have := gen_host_lt
    omega
  · rw [stripDomain_unpack chunks dls domain hcne hbyte hdom.dotted_eq hdom.plain, hflat]

end SA.DnsWire

/-
  SA.Proofs.Queue — invariants of the DNS-tunnel queue pair (model SA.Model.Queue).

  One *link* = a sender `OutQ` and the receiver `InQ` of its peer.  Ghost chunk indices:
    n  = number of chunks ever added to the sender        (o.nW, chunks o.W)
    hd = index of the head of `out`                        (o.hd = n - |out|)
    r  = number of chunks released in order by the receiver (i.cnt)
  chunk j carries sequence number (s + j) mod 2^16; the acknowledgement produced when the receiver
  had released g chunks is (s - 1 + g) mod 2^16.
-/
import SA.Model.Queue
import SA.Proofs.QueueWindow
namespace SA.Queue

def seqOf (s j : Nat) : Nat := (s + j) % MOD
def ackv (s g : Nat) : Nat := (s + 65535 + g) % MOD

/-- packets of consecutive chunks starting at index k -/
def pk (s : Nat) : Nat → List (List Nat) → List Pkt
  | _, [] => []
  | k, d :: ds => ⟨seqOf s k, d⟩ :: pk s (k + 1) ds

theorem pk_append (s : Nat) (k : Nat) (l1 l2 : List (List Nat)) :
    pk s k (l1 ++ l2) = pk s k l1 ++ pk s (k + l1.length) l2 := by
  induction l1 generalizing k with
  | nil => simp [pk]
  | cons d ds ih => simp [pk, ih, Nat.add_assoc, Nat.add_comm 1]

theorem pk_length (s k : Nat) (l : List (List Nat)) : (pk s k l).length = l.length := by
  induction l generalizing k with
  | nil => rfl
  | cons d ds ih => simp [pk, ih]

theorem mem_pk {s k : Nat} {l : List (List Nat)} {p : Pkt} (h : p ∈ pk s k l) :
    ∃ j, k ≤ j ∧ j < k + l.length ∧ p.seq = seqOf s j := by
  induction l generalizing k with
  | nil => simp [pk] at h
  | cons d ds ih =>
    simp only [pk, List.mem_cons] at h
    rcases h with h | h
    · exact ⟨k, Nat.le_refl _, by simp, by rw [h]⟩
    · obtain ⟨j, h1, h2, h3⟩ := ih h
      exact ⟨j, by omega, by simp; omega, h3⟩

/-! ### cleanOut / applyTrim -/

theorem eraseFirstSeq_none {v : Nat} {out : List Pkt} (h : ∀ p ∈ out, p.seq ≠ v) :
    eraseFirstSeq v out = out := by
  induction out with
  | nil => rfl
  | cons p ps ih =>
    have h1 : p.seq ≠ v := h p (by simp)
    simp only [eraseFirstSeq, h1, if_false]
    rw [ih (fun q hq => h q (by simp [hq]))]

theorem cleanOut_none {acked : List Nat} {out : List Pkt}
    (h : ∀ v ∈ acked, ∀ p ∈ out, p.seq ≠ v) : cleanOut acked out = out := by
  induction acked with
  | nil => rfl
  | cons v vs ih =>
    simp only [cleanOut, List.foldl_cons]
    rw [eraseFirstSeq_none (h v (by simp))]
    exact ih (fun w hw => h w (by simp [hw]))

theorem cleanOut_snoc (acked : List Nat) (v : Nat) (out : List Pkt) :
    cleanOut (acked ++ [v]) out = eraseFirstSeq v (cleanOut acked out) := by
  simp [cleanOut, List.foldl_append]

theorem applyTrim_noop {code max : Nat} {l : List Nat} (h : l.length ≤ max) :
    applyTrim code max l = l := by
  simp [applyTrim, Nat.not_lt.mpr h]

theorem applyTrim_map (code max : Nat) (l : List Nat) (f : Nat → Nat) :
    applyTrim code max (l.map f) = (applyTrim code max l).map f := by
  unfold applyTrim
  simp only [List.length_map]
  split
  · split
    · simp [List.map_take]
    · split <;> simp [List.map_drop]
  · rfl

theorem applyTrim_one_length {max : Nat} {l : List Nat} : (applyTrim 1 max l).length ≤ max := by
  unfold applyTrim
  split
  · simp; omega
  · omega

theorem applyTrim_one_get {max : Nat} {l : List Nat} (p : Nat) :
    (applyTrim 1 max l)[p]? = l[(l.length - max) + p]? := by
  unfold applyTrim
  split
  · simp
  · have : l.length - max = 0 := by omega
    simp [this]

theorem applyTrim_one_length_eq {max : Nat} {l : List Nat} :
    (applyTrim 1 max l).length = l.length - (l.length - max) := by
  unfold applyTrim
  split
  · simp
  · omega

/-! ### chunks -/

theorem chunksAux_flatten {mtu : Nat} (hm : 0 < mtu) :
    ∀ (f : Nat) (b : List Nat), b.length ≤ f → (chunksAux mtu f b).flatten = b := by
  intro f
  induction f with
  | zero => intro b hb; have : b = [] := List.eq_nil_of_length_eq_zero (by omega); simp [chunksAux, this]
  | succ f ih =>
    intro b hb
    unfold chunksAux
    split
    · next h => simp [h]
    · split
      · next h1 h2 =>
        have : (b.drop mtu).length ≤ f := by simp; omega
        simp [ih _ this]
      · simp

theorem chunks_flatten {mtu : Nat} (hm : 0 < mtu) (b : List Nat) : (chunks mtu b).flatten = b :=
  chunksAux_flatten hm _ _ (Nat.le_refl _)


/-! ### the link invariant -/

/-- what the proofs need from the source facts, and the arithmetic room: in-flight chunks `Bd`,
    index age `A` of replayed packets / acks and the cache size stay below 2^16 together -/
structure Consts (c : Cfg) (A Bd : Nat) : Prop where
  trim : c.outTrim = 1
  wlo : c.wlo = 1
  whi : c.whi = c.max
  ack : c.ackOff = 1
  max1 : 1 ≤ c.max
  bound : Bd + A + c.max + 2 ≤ MOD

structure LinkInv (c : Cfg) (s A Bd : Nat) (o : OutQ) (i : InQ) : Prop where
  hnW : o.nW = o.WR.length
  hlen : o.out.length ≤ o.nW
  hnext : o.next = seqOf s o.nW
  hout : o.out = pk s o.hd (o.W.drop o.hd)
  hacked : o.acked = o.ackIdx.map (ackv s)
  hidx : ∀ p g, o.ackIdx[p]? = some g → g ≤ o.hd ∧ o.hd + p + 1 ≤ g + A + o.ackIdx.length
  hackl : o.ackIdx.length ≤ c.max
  hinext : i.next = seqOf s i.cnt
  hrel : i.rel = (o.W.take i.cnt).flatten
  hfut : i.future = []
  hr1 : o.hd ≤ i.cnt
  hr2 : i.cnt ≤ o.hd + 1
  hrn : i.cnt ≤ o.nW
  hB : o.out.length ≤ Bd

theorem OutQ.W_length (o : OutQ) : o.W.length = o.WR.length := by simp [OutQ.W]

/-- chunk `j` of the sender is the packet `p` -/
def PktIs (s : Nat) (o : OutQ) (j : Nat) (p : Pkt) : Prop :=
  ∃ d, o.W[j]? = some d ∧ p = ⟨seqOf s j, d⟩

section link
variable {c : Cfg} {s A Bd : Nat} {o : OutQ} {i : InQ}

theorem LinkInv.out_mem (h : LinkInv c s A Bd o i) {q : Pkt} (hq : q ∈ o.out) :
    ∃ j, o.hd ≤ j ∧ j < o.nW ∧ q.seq = seqOf s j := by
  rw [h.hout] at hq
  obtain ⟨j, h1, h2, h3⟩ := mem_pk hq
  refine ⟨j, h1, ?_, h3⟩
  have := h.hnW
  have := o.W_length
  simp at h2
  unfold OutQ.hd at *
  omega

/-- at rest no cached ack matches a queued chunk -/
theorem LinkInv.no_match (h : LinkInv c s A Bd o i) (hc : Consts c A Bd) :
    ∀ v ∈ o.acked, ∀ q ∈ o.out, q.seq ≠ v := by
  intro v hv q hq
  rw [h.hacked] at hv
  obtain ⟨g, hg, rfl⟩ := List.mem_map.mp hv
  obtain ⟨p, hp⟩ := List.getElem?_of_mem hg
  obtain ⟨h1, h2⟩ := h.hidx p g hp
  obtain ⟨j, hj1, hj2, hj3⟩ := h.out_mem hq
  have hpl : p < o.ackIdx.length := by
    rcases Nat.lt_or_ge p o.ackIdx.length with h | h
    · exact h
    · simp [List.getElem?_eq_none h] at hp
  have := h.hackl; have := h.hB; have := h.hlen; have := hc.bound
  rw [hj3]; unfold seqOf ackv OutQ.hd at *
  omega

theorem LinkInv.clean_eq (h : LinkInv c s A Bd o i) (hc : Consts c A Bd) : o.clean c = o := by
  unfold OutQ.clean
  rw [cleanOut_none (h.no_match hc)]
  have h1 : o.acked.length ≤ c.max := by rw [h.hacked]; simp; exact h.hackl
  rw [applyTrim_noop h1, applyTrim_noop h.hackl]

theorem LinkInv.addChunk (h : LinkInv c s A Bd o i) (d : List Nat) (hb : o.out.length + 1 ≤ Bd) :
    LinkInv c s A Bd (o.addChunk d) i := by
  have hW := o.W_length
  have hn := h.hnW
  have hl := h.hlen
  have hhd : (o.addChunk d).hd = o.hd := by simp [OutQ.addChunk, OutQ.hd]
  have hW' : (o.addChunk d).W = o.W ++ [d] := by simp [OutQ.addChunk, OutQ.W]
  constructor
  · simp [OutQ.addChunk, hn]
  · simp [OutQ.addChunk]; omega
  · simp [OutQ.addChunk, h.hnext, seqOf]; omega
  · rw [hhd, hW']
    have : o.hd ≤ o.W.length := by unfold OutQ.hd; omega
    rw [List.drop_append_of_le_length this, pk_append]
    simp only [OutQ.addChunk]
    rw [← h.hout]
    have : o.hd + (o.W.length - o.hd) = o.nW := by unfold OutQ.hd; omega
    simp [pk, this, h.hnext]
  · exact h.hacked
  · rw [hhd]; exact h.hidx
  · exact h.hackl
  · exact h.hinext
  · rw [hW', h.hrel]
    have : i.cnt ≤ o.W.length := by have := h.hrn; omega
    rw [List.take_append_of_le_length this]
  · exact h.hfut
  · rw [hhd]; exact h.hr1
  · rw [hhd]; exact h.hr2
  · have := h.hrn; simp [OutQ.addChunk]; omega
  · simp [OutQ.addChunk]; exact hb


theorem idx_step {L : List Nat} {hd hd' A max g : Nat}
    (h : ∀ p g', L[p]? = some g' → g' ≤ hd ∧ hd + p + 1 ≤ g' + A + L.length)
    (h1 : g ≤ hd') (h2 : hd' ≤ g + A) (h3 : hd ≤ hd') (h4 : hd' ≤ hd + 1) :
    ∀ p g', (applyTrim 1 max (L ++ [g]))[p]? = some g' →
      g' ≤ hd' ∧ hd' + p + 1 ≤ g' + A + (applyTrim 1 max (L ++ [g])).length := by
  intro p g' hp
  rw [applyTrim_one_get] at hp
  rw [applyTrim_one_length_eq]
  simp only [List.length_append, List.length_cons, List.length_nil] at hp ⊢
  rw [List.getElem?_append] at hp
  split at hp
  · next hlt =>
    obtain ⟨a1, a2⟩ := h _ _ hp
    omega
  · next hge =>
    have hlt : L.length + 0 + 1 - max + p - L.length < 1 := by
      rcases Nat.lt_or_ge (L.length + 0 + 1 - max + p - L.length) 1 with h | h
      · exact h
      · rw [List.getElem?_eq_none (by simpa using h)] at hp; cases hp
    have : L.length + 0 + 1 - max + p - L.length = 0 := by omega
    rw [this] at hp
    simp at hp
    subst hp
    omega

theorem LinkInv.updateAcked (h : LinkInv c s A Bd o i) (hc : Consts c A Bd) {g : Nat}
    (hg1 : g ≤ i.cnt) (hg2 : i.cnt ≤ g + A) :
    LinkInv c s A Bd (o.updateAcked c (ackv s g) g) i ∧
    (o.updateAcked c (ackv s g) g).WR = o.WR ∧
    o.hd ≤ (o.updateAcked c (ackv s g) g).hd ∧ (o.updateAcked c (ackv s g) g).hd ≤ o.hd + 1 ∧
    (g = o.hd + 1 → (o.updateAcked c (ackv s g) g).hd = o.hd + 1) := by
  unfold OutQ.updateAcked
  split
  · next hmem =>
    refine ⟨h, rfl, Nat.le_refl _, Nat.le_succ _, ?_⟩
    intro hg
    -- the value is cached, so (by the invariant) it cannot be the ack of the current head
    exfalso
    rw [h.hacked] at hmem
    obtain ⟨g', hg', he⟩ := List.mem_map.mp hmem
    obtain ⟨p, hp⟩ := List.getElem?_of_mem hg'
    obtain ⟨h1, h2⟩ := h.hidx p g' hp
    have hpl : p < o.ackIdx.length := by
      rcases Nat.lt_or_ge p o.ackIdx.length with h | h
      · exact h
      · simp [List.getElem?_eq_none h] at hp
    have := h.hackl; have := hc.bound
    unfold ackv at he
    omega
  · next hnm =>
    have hW := o.W_length
    have hn := h.hnW
    have hl := h.hlen
    have hbd := hc.bound
    have hr1 := h.hr1
    have hr2 := h.hr2
    have hrn := h.hrn
    have hB := h.hB
    simp only [OutQ.clean, hc.trim]
    rw [cleanOut_snoc, cleanOut_none (h.no_match hc)]
    rcases Nat.lt_or_ge o.hd g with hgt | hle
    · -- g = hd + 1: the head of `out` is acknowledged
      have hg : g = o.hd + 1 := by omega
      have hlt : o.hd < o.W.length := by unfold OutQ.hd at *; omega
      have hdrop : o.W.drop o.hd = o.W[o.hd] :: o.W.drop (o.hd + 1) := List.drop_eq_getElem_cons hlt
      have hout := h.hout
      rw [hdrop] at hout
      simp only [pk] at hout
      have hv : seqOf s o.hd = ackv s g := by unfold seqOf ackv; omega
      have herase : eraseFirstSeq (ackv s g) o.out = pk s (o.hd + 1) (o.W.drop (o.hd + 1)) := by
        rw [hout]; simp [eraseFirstSeq, hv]
      rw [herase]
      have hlen' : (pk s (o.hd + 1) (o.W.drop (o.hd + 1))).length + 1 = o.out.length := by
        rw [hout]; simp
      have hhd' : ({ o with out := pk s (o.hd + 1) (o.W.drop (o.hd + 1)),
                             acked := applyTrim 1 c.max (o.acked ++ [ackv s g]),
                             ackIdx := applyTrim 1 c.max (o.ackIdx ++ [g]) } : OutQ).hd = o.hd + 1 := by
        simp only [OutQ.hd] at *; omega
      refine ⟨?_, trivial, by omega, by omega, fun _ => hhd'⟩
      constructor
      · exact hn
      · show (pk s (o.hd + 1) (o.W.drop (o.hd + 1))).length ≤ o.nW
        omega
      · exact h.hnext
      · rw [hhd']; rfl
      · show applyTrim 1 c.max (o.acked ++ [ackv s g]) = (applyTrim 1 c.max (o.ackIdx ++ [g])).map (ackv s)
        rw [← applyTrim_map, h.hacked]; simp
      · rw [hhd']
        exact idx_step h.hidx (by omega) (by omega) (by omega) (by omega)
      · exact applyTrim_one_length
      · exact h.hinext
      · exact h.hrel
      · exact h.hfut
      · rw [hhd']; omega
      · rw [hhd']; omega
      · exact hrn
      · show (pk s (o.hd + 1) (o.W.drop (o.hd + 1))).length ≤ Bd
        omega
    · -- g ≤ hd: an old acknowledgement, nothing in `out` matches it
      have hnone : ∀ q ∈ o.out, q.seq ≠ ackv s g := by
        intro q hq
        obtain ⟨j, hj1, hj2, hj3⟩ := h.out_mem hq
        rw [hj3]; unfold seqOf ackv OutQ.hd at *
        omega
      rw [eraseFirstSeq_none hnone]
      have hhd' : ({ o with out := o.out,
                             acked := applyTrim 1 c.max (o.acked ++ [ackv s g]),
                             ackIdx := applyTrim 1 c.max (o.ackIdx ++ [g]) } : OutQ).hd = o.hd := rfl
      refine ⟨?_, trivial, by rw [hhd']; omega, by rw [hhd']; omega, fun hh => by omega⟩
      constructor
      · exact hn
      · exact hl
      · exact h.hnext
      · rw [hhd']; exact h.hout
      · show applyTrim 1 c.max (o.acked ++ [ackv s g]) = (applyTrim 1 c.max (o.ackIdx ++ [g])).map (ackv s)
        rw [← applyTrim_map, h.hacked]; simp
      · rw [hhd']
        exact idx_step h.hidx (by omega) (by omega) (by omega) (by omega)
      · exact applyTrim_one_length
      · exact h.hinext
      · exact h.hrel
      · exact h.hfut
      · rw [hhd']; omega
      · rw [hhd']; omega
      · exact hrn
      · exact hB


theorem InQ.rel_appendPacket (q : InQ) (p : Pkt) : (q.appendPacket p).rel = q.rel ++ p.data := by
  simp [InQ.appendPacket, InQ.rel]


theorem LinkInv.append (h : LinkInv c s A Bd o i) (hc : Consts c A Bd) {j : Nat} {p : Pkt}
    (hp : PktIs s o j p) (hj1 : j ≤ o.hd) (hj2 : i.cnt ≤ j + 1 + A) :
    LinkInv c s A Bd o (i.append c (some p)).1 ∧
    i.cnt ≤ (i.append c (some p)).1.cnt ∧ (i.append c (some p)).1.cnt ≤ i.cnt + 1 := by
  obtain ⟨d, hd, rfl⟩ := hp
  have hW := o.W_length
  have hn := h.hnW
  have hbd := hc.bound
  have hr1 := h.hr1
  have hr2 := h.hr2
  have hjn : j < o.W.length := by
    rcases Nat.lt_or_ge j o.W.length with h | h
    · exact h
    · rw [List.getElem?_eq_none h] at hd; cases hd
  unfold InQ.append
  simp only
  split
  · exact ⟨h, Nat.le_refl _, Nat.le_succ _⟩
  · split
    · next hnm heq =>
      -- in order: j = r
      have hjr : j = i.cnt := by
        rw [h.hinext] at heq; unfold seqOf at heq; omega
      subst hjr
      have hfut : (i.appendPacket ⟨seqOf s i.cnt, d⟩).future = [] := h.hfut
      simp only [hfut, List.length_nil, InQ.drain]
      refine ⟨?_, by simp [InQ.appendPacket], by simp [InQ.appendPacket]⟩
      constructor
      · exact hn
      · exact h.hlen
      · exact h.hnext
      · exact h.hout
      · exact h.hacked
      · exact h.hidx
      · exact h.hackl
      · show (i.next + 1) % MOD = seqOf s (i.cnt + 1)
        rw [h.hinext]; unfold seqOf; omega
      · show (d :: i.relR).reverse.flatten = (List.take (i.cnt + 1) o.W).flatten
        have := h.hrel
        unfold InQ.rel at this
        rw [List.take_add_one, hd]; simp [this]
      · rfl
      · show o.hd ≤ i.cnt + 1
        omega
      · show i.cnt + 1 ≤ o.hd + 1
        omega
      · show i.cnt + 1 ≤ o.nW
        omega
      · exact h.hB
    · next hnm hne =>
      split
      · next hwin =>
        -- a packet of the past is never inside the acceptance window
        exfalso
        have hne' : j ≠ i.cnt := by
          intro he; apply hne; rw [h.hinext, he]
        have hm1 := hc.max1
        have hsq : (⟨seqOf s j, d⟩ : Pkt).seq < MOD := Nat.mod_lt _ (by omega)
        rw [inWindowL_eq c hsq] at hwin
        simp only [inWindow, hc.wlo, hc.whi, h.hinext, decide_eq_true_eq] at hwin
        unfold seqOf at hwin
        omega
      · exact ⟨h, Nat.le_refl _, Nat.le_succ _⟩

end link


/-! ### one endpoint handling (ack, packet) from its peer -/

section recv
variable {c : Cfg} {sOut sIn A Bd : Nat}

/-- facts about a (ack, packet) pair in flight towards endpoint `e`; `po`/`pi` are the peer's queues -/
structure MsgOk (sOut sIn A : Nat) (po : OutQ) (pi : InQ) (ack : Nat) (pkt : Option Pkt) (g j : Nat) : Prop where
  hack : ack = ackv sOut g
  hg1 : g ≤ pi.cnt
  hg2 : pi.cnt ≤ g + A
  hpkt : ∀ p, pkt = some p → PktIs sIn po j p ∧ j ≤ po.hd ∧ po.hd ≤ j + A

theorem recv_inv {e : End} {po : OutQ} {pi : InQ} (hc : Consts c A Bd)
    (lout : LinkInv c sOut A Bd e.outq pi) (lin : LinkInv c sIn A Bd po e.inq)
    {ack : Nat} {pkt : Option Pkt} {g j : Nat} (hm : MsgOk sOut sIn A po pi ack pkt g j) :
    LinkInv c sOut A Bd (e.outq.updateAcked c ack g) pi ∧
    LinkInv c sIn A Bd po (e.inq.append c pkt).1 ∧
    (e.outq.updateAcked c ack g).WR = e.outq.WR ∧
    e.outq.hd ≤ (e.outq.updateAcked c ack g).hd ∧ (e.outq.updateAcked c ack g).hd ≤ e.outq.hd + 1 ∧
    e.inq.cnt ≤ (e.inq.append c pkt).1.cnt ∧ (e.inq.append c pkt).1.cnt ≤ e.inq.cnt + 1 := by
  rw [hm.hack]
  obtain ⟨h1, h2, h3, h4, _⟩ := lout.updateAcked hc hm.hg1 hm.hg2
  refine ⟨h1, ?_, h2, h3, h4, ?_⟩
  · cases pkt with
    | none => exact lin
    | some p =>
      obtain ⟨hp, hj1, hj2⟩ := hm.hpkt p rfl
      have := lin.hr2
      exact (lin.append hc hp hj1 (by omega)).1
  · cases pkt with
    | none => exact ⟨Nat.le_refl _, Nat.le_succ _⟩
    | some p =>
      obtain ⟨hp, hj1, hj2⟩ := hm.hpkt p rfl
      have := lin.hr2
      exact (lin.append hc hp hj1 (by omega)).2

theorem ackOf_eq {c : Cfg} {A Bd : Nat} (hc : Consts c A Bd) {s : Nat} {o : OutQ} {i : InQ}
    (l : LinkInv c s A Bd o i) : ackOf c i.next = ackv s i.cnt := by
  unfold ackOf ackv; rw [hc.ack, l.hinext]; unfold seqOf; omega

theorem head_pktIs {s : Nat} {o : OutQ} {i : InQ} (l : LinkInv c s A Bd o i) {p : Pkt}
    (hp : o.out.head? = some p) : PktIs s o o.hd p := by
  have hout := l.hout
  cases hdr : o.W.drop o.hd with
  | nil => rw [hdr] at hout; simp [pk] at hout; rw [hout] at hp; cases hp
  | cons d ds =>
    rw [hdr] at hout; simp only [pk] at hout; rw [hout] at hp
    simp at hp
    refine ⟨d, ?_, hp.symm⟩
    have : (o.W.drop o.hd)[0]? = some d := by rw [hdr]; rfl
    simpa using this

end recv


/-! ### the two-endpoint system -/

/-- facts about the query stored `k` exchanges ago, relative to the current state of endpoint A -/
structure QOk (sab sba : Nat) (a : End) (k : Nat) (q : Query) : Prop where
  hack : q.ack = ackv sba q.gAck
  hg1 : q.gAck ≤ a.inq.cnt
  hg2 : a.inq.cnt ≤ q.gAck + k
  hpkt : ∀ p, q.pkt = some p →
    PktIs sab a.outq q.gPkt p ∧ q.gPkt ≤ a.outq.hd ∧ a.outq.hd ≤ q.gPkt + k

structure SysInv (c : Cfg) (sab sba K Bd : Nat) (st : Sys) : Prop where
  lab : LinkInv c sab (K + 1) Bd st.a.outq st.b.inq
  lba : LinkInv c sba (K + 1) Bd st.b.outq st.a.inq
  acca : st.a.acc = st.a.outq.W.flatten
  accb : st.b.acc = st.b.outq.W.flatten
  hist : ∀ k q, st.hist[k]? = some q → QOk sab sba st.a (k + 1) q

/-- what a response promises, relative to the state of B that produced it (or a later one) -/
def RespOk (sab sba : Nat) (b : End) : Resp → Prop
  | .err => True
  | .ok ack pkt g j =>
    ack = ackv sab g ∧ g ≤ b.inq.cnt ∧ b.inq.cnt ≤ g + 1 ∧
    ∀ p, pkt = some p → PktIs sba b.outq j p ∧ j ≤ b.outq.hd ∧ b.outq.hd ≤ j + 1

section sys
variable {c : Cfg} {sab sba K Bd : Nat}

theorem PktIs.mono {s : Nat} {o o' : OutQ} {j : Nat} {p : Pkt} (h : PktIs s o j p)
    (hw : o'.WR = o.WR) : PktIs s o' j p := by
  unfold PktIs OutQ.W at *; rw [hw]; exact h

theorem serve_inv {a b : End} {q : Query} (hc : Consts c (K + 1) Bd)
    (lab : LinkInv c sab (K + 1) Bd a.outq b.inq) (lba : LinkInv c sba (K + 1) Bd b.outq a.inq)
    (hm : MsgOk sba sab (K + 1) a.outq a.inq q.ack q.pkt q.gAck q.gPkt) :
    LinkInv c sab (K + 1) Bd a.outq (serve c b q).1.inq ∧
    LinkInv c sba (K + 1) Bd (serve c b q).1.outq a.inq ∧
    (serve c b q).1.accR = b.accR ∧ (serve c b q).1.outq.WR = b.outq.WR ∧
    b.inq.cnt ≤ (serve c b q).1.inq.cnt ∧ (serve c b q).1.inq.cnt ≤ b.inq.cnt + 1 ∧
    b.outq.hd ≤ (serve c b q).1.outq.hd ∧ (serve c b q).1.outq.hd ≤ b.outq.hd + 1 ∧
    RespOk sab sba (serve c b q).1 (serve c b q).2 := by
  obtain ⟨h1, h2, h3, h4, h5, h6, h7⟩ := recv_inv (e := b) hc lba lab hm
  unfold serve
  simp only
  split
  · next hok =>
    rw [h1.clean_eq hc]
    refine ⟨h2, h1, rfl, h3, h6, h7, h4, h5, ?_⟩
    refine ⟨ackOf_eq hc h2, Nat.le_refl _, Nat.le_succ _, ?_⟩
    intro p hp
    exact ⟨head_pktIs h1 hp, Nat.le_refl _, Nat.le_succ _⟩
  · next herr =>
    refine ⟨?_, h1, rfl, h3, Nat.le_refl _, Nat.le_succ _, h4, h5, trivial⟩
    exact lab

/-- a response stays valid while B handles one more (duplicate) query -/
theorem RespOk.to_msg {b : End} {r : Resp} (h : RespOk sab sba b r) :
    match r with
    | .err => True
    | .ok ack pkt g j => MsgOk sab sba (K + 1) b.outq b.inq ack pkt g j := by
  cases r with
  | err => trivial
  | ok ack pkt g j =>
    obtain ⟨h1, h2, h3, h4⟩ := h
    exact ⟨h1, h2, by omega, fun p hp => by obtain ⟨x, y, z⟩ := h4 p hp; exact ⟨x, y, by omega⟩⟩

theorem RespOk.step {b b' : End} {r : Resp} (h : RespOk sab sba b r)
    (hw : b'.outq.WR = b.outq.WR) (hc1 : b.inq.cnt ≤ b'.inq.cnt) (hd1 : b.outq.hd ≤ b'.outq.hd)
    (hcnt : ∀ ack pkt g j, r = .ok ack pkt g j → b'.inq.cnt ≤ g + 1 ∧ (∀ p, pkt = some p → b'.outq.hd ≤ j + 1)) :
    RespOk sab sba b' r := by
  cases r with
  | err => trivial
  | ok ack pkt g j =>
    obtain ⟨h1, h2, h3, h4⟩ := h
    obtain ⟨k1, k2⟩ := hcnt ack pkt g j rfl
    refine ⟨h1, by omega, k1, fun p hp => ?_⟩
    obtain ⟨x, y, z⟩ := h4 p hp
    exact ⟨x.mono hw, by omega, k2 p hp⟩

theorem clientRecv_inv {a b : End} {r : Resp} (hc : Consts c (K + 1) Bd)
    (lab : LinkInv c sab (K + 1) Bd a.outq b.inq) (lba : LinkInv c sba (K + 1) Bd b.outq a.inq)
    (hr : RespOk sab sba b r) :
    LinkInv c sab (K + 1) Bd (clientRecv c a r).1.outq b.inq ∧
    LinkInv c sba (K + 1) Bd b.outq (clientRecv c a r).1.inq ∧
    (clientRecv c a r).1.accR = a.accR ∧ (clientRecv c a r).1.outq.WR = a.outq.WR ∧
    a.inq.cnt ≤ (clientRecv c a r).1.inq.cnt ∧ (clientRecv c a r).1.inq.cnt ≤ a.inq.cnt + 1 ∧
    a.outq.hd ≤ (clientRecv c a r).1.outq.hd ∧ (clientRecv c a r).1.outq.hd ≤ a.outq.hd + 1 := by
  cases r with
  | err => exact ⟨lab, lba, rfl, rfl, Nat.le_refl _, Nat.le_succ _, Nat.le_refl _, Nat.le_succ _⟩
  | ok ack pkt g j =>
    have hm : MsgOk sab sba (K + 1) b.outq b.inq ack pkt g j := RespOk.to_msg hr
    obtain ⟨h1, h2, h3, h4, h5, h6, h7⟩ := recv_inv (e := a) hc lab lba hm
    exact ⟨h1, h2, rfl, h3, h6, h7, h4, h5⟩


theorem serve_tight (b : End) (q : Query) :
    ∀ ack pkt g j, (serve c b q).2 = .ok ack pkt g j →
      g = (serve c b q).1.inq.cnt ∧ j = (serve c b q).1.outq.hd := by
  intro ack pkt g j
  unfold serve
  simp only
  split
  · intro h; cases h; exact ⟨rfl, rfl⟩
  · intro h; cases h

theorem QOk.grow {a a' : End} {k : Nat} {q : Query} (h : QOk sab sba a k q)
    (hw : a'.outq.WR = a.outq.WR) (c1 : a.inq.cnt ≤ a'.inq.cnt) (c2 : a'.inq.cnt ≤ a.inq.cnt + 1)
    (d1 : a.outq.hd ≤ a'.outq.hd) (d2 : a'.outq.hd ≤ a.outq.hd + 1) : QOk sab sba a' (k + 1) q := by
  refine ⟨h.hack, ?_, ?_, ?_⟩
  · have := h.hg1; omega
  · have := h.hg2; omega
  · intro p hp
    obtain ⟨x, y, z⟩ := h.hpkt p hp
    exact ⟨x.mono hw, by omega, by omega⟩

theorem QOk.to_msg {a : End} {k : Nat} {q : Query} (h : QOk sab sba a k q) (hk : k ≤ K + 1) :
    MsgOk sba sab (K + 1) a.outq a.inq q.ack q.pkt q.gAck q.gPkt := by
  refine ⟨h.hack, h.hg1, ?_, ?_⟩
  · have := h.hg2; omega
  · intro p hp
    obtain ⟨x, y, z⟩ := h.hpkt p hp
    exact ⟨x, y, by omega⟩

theorem mkQuery_eq {st : Sys} (hc : Consts c (K + 1) Bd) (h : SysInv c sab sba K Bd st) :
    (mkQuery c st.a).1 = st.a ∧ QOk sab sba st.a 0 (mkQuery c st.a).2 := by
  unfold mkQuery
  simp only
  rw [h.lab.clean_eq hc]
  refine ⟨rfl, ?_, Nat.le_refl _, Nat.le_refl _, ?_⟩
  · exact ackOf_eq hc h.lba
  · intro p hp
    exact ⟨head_pktIs h.lab hp, Nat.le_refl _, Nat.le_refl _⟩

def Fate.Ok (K : Nat) : Fate → Prop
  | .rp k => k ≤ K
  | _ => True

theorem acc_of {e e' : End} (h : e.acc = e.outq.W.flatten) (h1 : e'.accR = e.accR)
    (h2 : e'.outq.WR = e.outq.WR) : e'.acc = e'.outq.W.flatten := by
  unfold End.acc OutQ.W at *; rw [h1, h2]; exact h

theorem hist_push {a a' : End} {hist : List Query} {q0 : Query}
    (hh : ∀ k q, hist[k]? = some q → QOk sab sba a (k + 1) q) (h0 : QOk sab sba a 0 q0)
    (hw : a'.outq.WR = a.outq.WR) (c1 : a.inq.cnt ≤ a'.inq.cnt) (c2 : a'.inq.cnt ≤ a.inq.cnt + 1)
    (d1 : a.outq.hd ≤ a'.outq.hd) (d2 : a'.outq.hd ≤ a.outq.hd + 1) :
    ∀ k q, (q0 :: hist)[k]? = some q → QOk sab sba a' (k + 1) q := by
  intro k q hq
  cases k with
  | zero => simp at hq; subst hq; exact h0.grow hw c1 c2 d1 d2
  | succ k => simp at hq; exact (hh k q hq).grow hw c1 c2 d1 d2

theorem xchg_inv {st : Sys} (hc : Consts c (K + 1) Bd) (h : SysInv c sab sba K Bd st)
    (f : Fate) (hf : f.Ok K) : SysInv c sab sba K Bd (xchgS c st f) := by
  obtain ⟨hm1, hq0⟩ := mkQuery_eq hc h
  have hmsg0 := hq0.to_msg (K := K) (Nat.zero_le _)
  cases f with
  | rp k =>
    simp only [xchgS]
    cases hk : st.hist[k]? with
    | none => exact h
    | some q =>
      have hq := h.hist k q hk
      have hmsg := hq.to_msg (K := K) (by simp [Fate.Ok] at hf; omega)
      obtain ⟨s1, s2, s3, s4, _⟩ := serve_inv (b := st.b) hc h.lab h.lba hmsg
      exact ⟨s1, s2, h.acca, acc_of h.accb s3 s4, h.hist⟩
  | ql =>
    simp only [xchgS, hm1]
    exact ⟨h.lab, h.lba, h.acca, h.accb,
      hist_push h.hist hq0 rfl (Nat.le_refl _) (Nat.le_succ _) (Nat.le_refl _) (Nat.le_succ _)⟩
  | al =>
    simp only [xchgS, hm1]
    obtain ⟨s1, s2, s3, s4, _⟩ := serve_inv (b := st.b) hc h.lab h.lba hmsg0
    exact ⟨s1, s2, h.acca, acc_of h.accb s3 s4,
      hist_push h.hist hq0 rfl (Nat.le_refl _) (Nat.le_succ _) (Nat.le_refl _) (Nat.le_succ _)⟩
  | d =>
    simp only [xchgS, hm1]
    obtain ⟨s1, s2, s3, s4, _, _, _, _, s9⟩ := serve_inv (b := st.b) hc h.lab h.lba hmsg0
    obtain ⟨r1, r2, r3, r4, r5, r6, r7, r8⟩ := clientRecv_inv (a := st.a) hc s1 s2 s9
    exact ⟨r1, r2, acc_of h.acca r3 r4, acc_of h.accb s3 s4, hist_push h.hist hq0 r4 r5 r6 r7 r8⟩
  | dup1 =>
    simp only [xchgS, hm1]
    obtain ⟨s1, s2, s3, s4, _, _, _, _, s9⟩ := serve_inv (b := st.b) hc h.lab h.lba hmsg0
    obtain ⟨t1, t2, t3, t4, t5, _, t7, _, _⟩ :=
      serve_inv (b := (serve c st.b (mkQuery c st.a).2).1) (q := (mkQuery c st.a).2) hc s1 s2 hmsg0
    have s9' : RespOk sab sba (serve c (serve c st.b (mkQuery c st.a).2).1 (mkQuery c st.a).2).1
        (serve c st.b (mkQuery c st.a).2).2 := by
      refine s9.step t4 t5 t7 ?_
      intro ack pkt g j hr
      obtain ⟨e1, e2⟩ := serve_tight st.b (mkQuery c st.a).2 ack pkt g j hr
      have := t1.hr2; have := s1.hr1; have := t2.hr1; have := s2.hr2
      exact ⟨by omega, fun _ _ => by omega⟩
    obtain ⟨r1, r2, r3, r4, r5, r6, r7, r8⟩ := clientRecv_inv (a := st.a) hc t1 t2 s9'
    exact ⟨r1, r2, acc_of h.acca r3 r4, acc_of h.accb (t3.trans s3) (t4.trans s4),
      hist_push h.hist hq0 r4 r5 r6 r7 r8⟩
  | dup2 =>
    simp only [xchgS, hm1]
    obtain ⟨s1, s2, s3, s4, _⟩ := serve_inv (b := st.b) hc h.lab h.lba hmsg0
    obtain ⟨t1, t2, t3, t4, _, _, _, _, t9⟩ :=
      serve_inv (b := (serve c st.b (mkQuery c st.a).2).1) (q := (mkQuery c st.a).2) hc s1 s2 hmsg0
    obtain ⟨r1, r2, r3, r4, r5, r6, r7, r8⟩ := clientRecv_inv (a := st.a) hc t1 t2 t9
    exact ⟨r1, r2, acc_of h.acca r3 r4, acc_of h.accb (t3.trans s3) (t4.trans s4),
      hist_push h.hist hq0 r4 r5 r6 r7 r8⟩

end sys


/-! ### writes, reads, histories -/

section hist
variable {c : Cfg} {sab sba K Bd : Nat}

theorem addChunks_inv {s A : Nat} {i : InQ} :
    ∀ (cs : List (List Nat)) (o : OutQ), LinkInv c s A Bd o i → o.out.length + cs.length ≤ Bd →
      LinkInv c s A Bd (cs.foldl OutQ.addChunk o) i ∧
      (cs.foldl OutQ.addChunk o).WR = cs.reverse ++ o.WR ∧ (cs.foldl OutQ.addChunk o).hd = o.hd := by
  intro cs
  induction cs with
  | nil => intro o h _; exact ⟨h, rfl, rfl⟩
  | cons d ds ih =>
    intro o h hb
    simp only [List.length_cons] at hb
    have h1 := h.addChunk d (by omega)
    have hl : (o.addChunk d).out.length = o.out.length + 1 := by simp [OutQ.addChunk]
    obtain ⟨a1, a2, a3⟩ := ih (o.addChunk d) h1 (by omega)
    refine ⟨a1, ?_, ?_⟩
    · simp only [List.foldl_cons]; rw [a2]; simp [OutQ.addChunk]
    · simp only [List.foldl_cons]; rw [a3]; simp [OutQ.addChunk, OutQ.hd]

theorem LinkInv.of_inq {s A : Nat} {o : OutQ} {i i' : InQ} (h : LinkInv c s A Bd o i)
    (h1 : i'.next = i.next) (h2 : i'.cnt = i.cnt) (h3 : i'.relR = i.relR) (h4 : i'.future = i.future) :
    LinkInv c s A Bd o i' := by
  refine ⟨h.hnW, h.hlen, h.hnext, h.hout, h.hacked, h.hidx, h.hackl, ?_, ?_, ?_, ?_, ?_, ?_, h.hB⟩
  · rw [h1, h2]; exact h.hinext
  · have := h.hrel; unfold InQ.rel at *; rw [h3, h2]; exact this
  · rw [h4]; exact h.hfut
  · rw [h2]; exact h.hr1
  · rw [h2]; exact h.hr2
  · rw [h2]; exact h.hrn

theorem PktIs.mono_app {s : Nat} {o o' : OutQ} {j : Nat} {p : Pkt} (h : PktIs s o j p)
    {cs : List (List Nat)} (hw : o'.WR = cs ++ o.WR) : PktIs s o' j p := by
  obtain ⟨d, hd, hp⟩ := h
  refine ⟨d, ?_, hp⟩
  unfold OutQ.W at *
  rw [hw, List.reverse_append]
  have hj : j < o.WR.reverse.length := by
    rcases Nat.lt_or_ge j o.WR.reverse.length with h | h
    · exact h
    · rw [List.getElem?_eq_none h] at hd; cases hd
  rw [List.getElem?_append_left hj]; exact hd

def evOk (mtu K Bd : Nat) : Ev → Bool
  | .write _ data => decide ((chunks mtu data).length ≤ Bd)
  | .read _ _ => true
  | .xchg (.rp k) => decide (k ≤ K)
  | .xchg _ => true
  | .inject _ _ _ => false
  | .fack _ _ => false

theorem write_inv {s A : Nat} {e : End} {i : InQ} {mtu : Nat} (hm : 0 < mtu) (data : List Nat)
    (l : LinkInv c s A Bd e.outq i) (hacc : e.acc = e.outq.W.flatten)
    (hb : (chunks mtu data).length ≤ Bd) :
    LinkInv c s A Bd (writeEnd mtu e data).outq i ∧
    (writeEnd mtu e data).acc = (writeEnd mtu e data).outq.W.flatten ∧
    (writeEnd mtu e data).inq = e.inq ∧ (writeEnd mtu e data).outq.hd = e.outq.hd ∧
    ∃ cs, (writeEnd mtu e data).outq.WR = cs ++ e.outq.WR := by
  unfold writeEnd
  split
  · exact ⟨l, hacc, rfl, rfl, [], rfl⟩
  · next hne =>
    have hnil : e.outq.out = [] := by simpa using hne
    obtain ⟨a1, a2, a3⟩ := addChunks_inv (chunks mtu data) e.outq l (by rw [hnil]; simpa using hb)
    refine ⟨a1, ?_, rfl, a3, _, a2⟩
    show (data :: e.accR).reverse.flatten = _
    unfold End.acc OutQ.W at *
    rw [a2]
    simp [hacc, chunks_flatten hm]

theorem step_inv {st : Sys} {mtu : Nat} (hm : 0 < mtu) (hc : Consts c (K + 1) Bd)
    (h : SysInv c sab sba K Bd st) (ev : Ev) (hev : evOk mtu K Bd ev = true) :
    SysInv c sab sba K Bd (stepS c mtu st ev) := by
  cases ev with
  | write side data =>
    have hb : (chunks mtu data).length ≤ Bd := by simpa [evOk] using hev
    cases side with
    | false =>
      obtain ⟨w1, w2, w3, w4, cs, w5⟩ := write_inv hm data h.lab h.acca hb
      refine ⟨w1, ?_, w2, h.accb, ?_⟩
      · show LinkInv c sba (K + 1) Bd st.b.outq (writeEnd mtu st.a data).inq
        rw [w3]; exact h.lba
      · intro k q hq
        have hq' := h.hist k q hq
        refine ⟨hq'.hack, ?_, ?_, ?_⟩
        · show _ ≤ (writeEnd mtu st.a data).inq.cnt
          rw [w3]; exact hq'.hg1
        · show (writeEnd mtu st.a data).inq.cnt ≤ _
          rw [w3]; exact hq'.hg2
        · intro p hp
          obtain ⟨x, y, z⟩ := hq'.hpkt p hp
          refine ⟨x.mono_app w5, ?_, ?_⟩
          · show _ ≤ (writeEnd mtu st.a data).outq.hd
            rw [w4]; exact y
          · show (writeEnd mtu st.a data).outq.hd ≤ _
            rw [w4]; exact z
    | true =>
      obtain ⟨w1, w2, w3, w4, cs, w5⟩ := write_inv hm data h.lba h.accb hb
      refine ⟨?_, w1, h.acca, w2, h.hist⟩
      show LinkInv c sab (K + 1) Bd st.a.outq (writeEnd mtu st.b data).inq
      rw [w3]; exact h.lab
  | read side n =>
    cases side with
    | false =>
      simp only [stepS, readEnd]
      split
      · exact h
      · refine ⟨h.lab, h.lba.of_inq rfl rfl rfl rfl, h.acca, h.accb, ?_⟩
        intro k q hq
        have hq' := h.hist k q hq
        exact ⟨hq'.hack, hq'.hg1, hq'.hg2, hq'.hpkt⟩
    | true =>
      simp only [stepS, readEnd]
      split
      · exact h
      · exact ⟨h.lab.of_inq rfl rfl rfl rfl, h.lba, h.acca, h.accb, h.hist⟩
  | xchg f =>
    apply xchg_inv hc h f
    cases f <;> simp_all [evOk, Fate.Ok]
  | inject _ _ _ => simp [evOk] at hev
  | fack _ _ => simp [evOk] at hev

theorem run_inv {mtu : Nat} (hm : 0 < mtu) (hc : Consts c (K + 1) Bd) :
    ∀ (evs : List Ev) (st : Sys), SysInv c sab sba K Bd st → evs.all (evOk mtu K Bd) = true →
      SysInv c sab sba K Bd (runS c mtu st evs) := by
  intro evs
  induction evs with
  | nil => intro st h _; exact h
  | cons e es ih =>
    intro st h hall
    simp only [List.all_cons, Bool.and_eq_true] at hall
    exact ih _ (step_inv hm hc h e hall.1) hall.2

theorem init_link (s A : Nat) (hs : s < MOD) :
    LinkInv c s A Bd { next := s } { next := s } := by
  refine ⟨rfl, Nat.le_refl _, ?_, rfl, rfl, ?_, Nat.zero_le _, ?_, rfl, rfl, Nat.le_refl _,
    Nat.le_succ _, Nat.le_refl _, Nat.zero_le _⟩
  · show s = seqOf s 0
    unfold seqOf; omega
  · intro p g hp; simp at hp
  · show s = seqOf s 0
    unfold seqOf; omega

theorem init_inv (hsab : sab < MOD) (hsba : sba < MOD) : SysInv c sab sba K Bd (init sab sba) :=
  ⟨init_link sab _ hsab, init_link sba _ hsba, rfl, rfl, fun k q hq => by simp [init] at hq⟩

/-- consequences of the invariant for one direction -/
theorem LinkInv.prefix {s A : Nat} {o : OutQ} {i : InQ} (l : LinkInv c s A Bd o i) :
    i.rel <+: o.W.flatten := by
  rw [l.hrel]
  refine ⟨(o.W.drop i.cnt).flatten, ?_⟩
  rw [← List.flatten_append, List.take_append_drop]

theorem LinkInv.drained {s A : Nat} {o : OutQ} {i : InQ} (l : LinkInv c s A Bd o i)
    (h : o.out = []) : i.rel = o.W.flatten := by
  rw [l.hrel]
  have h1 := l.hr1; have h2 := l.hrn; have h3 := l.hnW; have h4 := o.W_length
  have : o.W.length ≤ i.cnt := by unfold OutQ.hd at h1; rw [h] at h1; simp at h1; omega
  rw [List.take_of_length_le this]

end hist

end SA.Queue

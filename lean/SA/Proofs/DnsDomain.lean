/-
  SA.Proofs.DnsDomain — lemmas about the tunnel domain's spelling shared by C09 and C10: a name that ends in
  two unescaped dots (what PrepareHostname builds from a domain written with its final dot) does not pack.
-/
import SA.Model.DnsWire
namespace SA.DnsWire

/-- two unescaped dots at the end never pack -/
theorem packLoop_dotdot (cur : List Nat) (acc : List (List Nat)) (w : Bool) :
    packLoop 0 [dot, dot] cur acc w = none := by
  cases w <;> by_cases h64 : cur.length ≥ 64 <;> cases cur <;> simp_all [packLoop, dot, bsl]

/-- a name without backslashes that ends in two dots does not pack, whatever was collected before -/
theorem packLoop_ends_dotdot (s : List Nat) (hs : ∀ c ∈ s, c ≠ bsl) :
    ∀ (cur : List Nat) (acc : List (List Nat)) (w : Bool), packLoop 0 (s ++ [dot, dot]) cur acc w = none := by
  induction s with
  | nil => intro cur acc w; exact packLoop_dotdot cur acc w
  | cons c s ih =>
    intro cur acc w
    have hc : c ≠ bsl := hs c (by simp)
    have hs' : ∀ x ∈ s, x ≠ bsl := fun x hx => hs x (by simp [hx])
    have hne : (s ++ [dot, dot]).isEmpty = false := by cases s <;> simp
    simp only [List.cons_append, packLoop]
    have hcb : (c == bsl) = false := by simpa using hc
    simp only [hcb, Bool.false_eq_true, if_false]
    by_cases hd : (c == dot) = true
    · simp only [hd, if_true]
      by_cases hw : w = true
      · simp [hw]
      · simp only [hw, Bool.false_eq_true, if_false]
        by_cases h64 : cur.length ≥ 64
        · simp [h64]
        · simp only [h64, if_false]
          by_cases he : cur.isEmpty = true
          · simp [he, hne]
          · simp only [he, Bool.false_eq_true, if_false]
            exact ih hs' _ _ _
    · simp only [hd, Bool.false_eq_true, if_false]
      exact ih hs' _ _ _

theorem nameOverWire_dotdot (s : List Nat) (hs : ∀ c ∈ s, c ≠ bsl) :
    nameOverWire (s ++ [dot, dot]) = .error .pack := by
  simp [nameOverWire, packName, packLoop_ends_dotdot s hs]

theorem dotifyAux_mem (stride : Nat) : ∀ (fuel : Nat) (buf : List Nat), ∀ c ∈ dotifyAux stride fuel buf, c = dot ∨ c ∈ buf := by
  intro fuel
  induction fuel with
  | zero => intro buf c hc; right; simpa [dotifyAux] using hc
  | succ n ih =>
    intro buf c hc
    simp only [dotifyAux] at hc
    split at hc
    · rcases List.mem_append.mp hc with h | h
      · right; exact List.mem_of_mem_take h
      · rcases List.mem_cons.mp h with h | h
        · left; exact h
        · rcases ih _ c h with h | h
          · left; exact h
          · right; exact List.mem_of_mem_drop h
    · right; exact hc

/-- PrepareHostname over a domain spelled with its final dot: the name ends in two dots -/
theorem prepareHostname_fqdn (data p host : List Nat) (h : prepareHostname data (p ++ [dot]) = some host)
    (hd : ∀ c ∈ data, c ≠ bsl) (hp : ∀ c ∈ p, c ≠ bsl) :
    nameOverWire host = .error .pack := by
  have hd' : ∀ c ∈ (if data.length > SA.Gen.labelMaxLen then dotify data else data), c ≠ bsl := by
    intro c hc
    split at hc
    · rcases dotifyAux_mem _ _ _ c hc with h | h
      · rw [h]; decide
      · exact hd c h
    · exact hd c hc
  unfold prepareHostname at h
  simp only at h
  generalize (if data.length > SA.Gen.labelMaxLen then dotify data else data) = d at h hd'
  by_cases hlen : (d ++ dot :: (p ++ [dot] ++ [dot])).length > SA.Gen.hostnameMaxLen - SA.Gen.C09.prepareSlack
  · rw [if_pos hlen] at h
    cases h
  · rw [if_neg hlen] at h
    simp only [Option.some.injEq] at h
    subst h
    have : d ++ dot :: (p ++ [dot] ++ [dot]) = (d ++ dot :: p) ++ [dot, dot] := by simp
    rw [this]
    apply nameOverWire_dotdot
    intro c hc
    rcases List.mem_append.mp hc with h | h
    · exact hd' c h
    · rcases List.mem_cons.mp h with h | h
      · rw [h]; decide
      · exact hp c h

end SA.DnsWire

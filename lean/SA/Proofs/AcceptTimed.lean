/-
  Helper lemmas for C15's timed accept model (SA.Model.AcceptTimed).
-/
import SA.Model.AcceptTimed
import SA.Proofs.Accept
namespace SA.Accept

/-- an untimed step never removes an established session -/
theorem astep_finished_mono (spawn : Bool) (stalled : Nat → Bool) {s s' : ASt} (a : AAct) (p : Nat)
    (hs : astep spawn stalled s a = some s') (hp : p ∈ s.finished) : p ∈ s'.finished := by
  cases a with
  | arrive id => simp [astep] at hs; subst hs; exact hp
  | accept =>
    simp only [astep] at hs
    split at hs
    · split at hs <;> (simp at hs; subst hs; exact hp)
    · simp at hs
  | handler id =>
    simp only [astep] at hs
    split at hs
    · simp at hs
    · split at hs
      · simp at hs; subst hs; exact List.mem_cons_of_mem _ hp
      · split at hs
        · simp at hs; subst hs; exact List.mem_cons_of_mem _ hp
        · simp at hs

/-- a step of the timed model whose watchdog (if any) closes its own connection never removes an
    established session -/
theorem tstep_finished_mono (wd : Watchdog) (hwd : wd ≠ .shared) (stalled : Nat → Bool) {s s' : TSt} (a : TAct)
    (p : Nat) (hs : tstep wd stalled s a = some s') (hp : p ∈ s.base.finished) : p ∈ s'.base.finished := by
  cases a with
  | act a =>
    cases a with
    | accept =>
      simp only [tstep] at hs
      split at hs
      · rename_i b hb; simp at hs; subst hs; exact astep_finished_mono true stalled .accept p hb hp
      · simp at hs
    | arrive id =>
      simp only [tstep] at hs
      split at hs
      · rename_i b hb; simp at hs; subst hs; exact astep_finished_mono true stalled (.arrive id) p hb hp
      · simp at hs
    | handler id =>
      simp only [tstep] at hs
      split at hs
      · rename_i b hb; simp at hs; subst hs; exact astep_finished_mono true stalled (.handler id) p hb hp
      · simp at hs
  | timeout id =>
    cases wd with
    | none => simp [tstep] at hs
    | shared => exact absurd rfl hwd
    | own =>
      simp only [tstep] at hs
      split at hs
      · rename_i ha
        simp at hs; subst hs
        simp only [armed, Bool.decide_and, Bool.and_eq_true, decide_eq_true_eq] at ha
        have hne : p ≠ id := fun h => ha.2 (h ▸ hp)
        simp only [closeConn]
        exact (List.mem_erase_of_ne hne).mpr hp
      · simp at hs

theorem trun_finished_mono (wd : Watchdog) (hwd : wd ≠ .shared) (stalled : Nat → Bool) (s : TSt) (acts : List TAct)
    (p : Nat) (hp : p ∈ s.base.finished) : p ∈ (trun wd stalled s acts).base.finished := by
  induction acts generalizing s with
  | nil => exact hp
  | cons a as ih =>
    simp only [trun]
    split
    · rename_i s' hs; exact ih s' (tstep_finished_mono wd hwd stalled a p hs hp)
    · exact ih s hp

/-- without a watchdog the timed model is the untimed one -/
theorem trun_none (stalled : Nat → Bool) (s : TSt) (acts : List TAct) :
    (trun .none stalled s acts).base = arun true stalled s.base (baseActs acts) := by
  induction acts generalizing s with
  | nil => rfl
  | cons a as ih =>
    cases a with
    | timeout id => simp only [trun, tstep, baseActs]; exact ih s
    | act a =>
      cases a with
      | accept =>
        simp only [trun, tstep, baseActs, arun]
        cases h : astep true stalled s.base .accept with
        | none => simp only []; exact ih s
        | some b => simp only []; exact ih _
      | arrive id =>
        simp only [trun, tstep, baseActs, arun]
        cases h : astep true stalled s.base (.arrive id) with
        | none => simp only []; exact ih s
        | some b => simp only []; exact ih _
      | handler id =>
        simp only [trun, tstep, baseActs, arun]
        cases h : astep true stalled s.base (.handler id) with
        | none => simp only []; exact ih s
        | some b => simp only []; exact ih _

end SA.Accept

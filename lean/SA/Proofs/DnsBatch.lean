/-
  SA.Proofs.DnsBatch — a batch of opens served "at the same moment" (C13, concurrency).

  The handlers of the real listener run on one goroutine per datagram.  What makes the sequential model say anything
  about that is `usersLock`: `newUser`, `closeConnection` and the pruning task touch the session tables inside ONE
  critical section each (regenerated fact `SA.Gen.lockPaths_*`, checked by `pathAtomic` below), so each of them is an
  atomic step and a concurrent batch is the sequential run of its steps in SOME order.  This file proves that for a
  batch of opens the order does not matter:

  * `opens σ as` — the opens of the clients `as` served one after the other in the listed order;
  * `opens_anon` / `opens_perm` — the identifiers answered (position by position) and the whole server state with the
    owner field of the session objects blanked are the same for every list of clients of the same length, in
    particular for every permutation: the orders differ only in WHICH client is told which identifier;
  * `opens_ids_nodup`, `opens_ids_free`, `opens_lowest` — the identifiers answered are pairwise distinct, were free
    before the batch, and no free slot below an answered identifier is left;
  * `opens_owner` — the k-th client that was answered `some i` owns the object in live slot i afterwards, an object
    that did not exist before the batch;
  * `pathAtomic` — the checker for the regenerated lock structure, and `splitOpen…`: the two halves of a `newUser` that
    releases the lock between finding the slot and storing into it (the witness lives in SA.Props.C13).
-/
import SA.Proofs.DnsOpen

namespace SA.DnsServer
open SA.Go SA.Go.Res

/-! ### the batch -/

/-- the opens of the clients `as`, served one after the other in the listed order: final state, and what each client
    is told (`some id`, or `none` = server full) -/
def opens (σ : Srv) : List Nat → Srv × List (Option Nat)
  | [] => (σ, [])
  | a :: as => ((opens (newUser σ a).1 as).1, (newUser σ a).2 :: (opens (newUser σ a).1 as).2)

def Sess.anon (s : Sess) : Sess := { s with owner := 0 }

/-- the server state with the owner of every session object blanked -/
def Srv.anon (σ : Srv) : Srv := { σ with heap := σ.heap.map Sess.anon }

theorem anon_fields {σ τ : Srv} (h : σ.anon = τ.anon) :
    σ.live = τ.live ∧ σ.retired = τ.retired ∧ σ.now = τ.now ∧ σ.heap.map Sess.anon = τ.heap.map Sess.anon := by
  cases σ; cases τ
  simp only [Srv.anon, Srv.mk.injEq] at h
  exact ⟨h.1, h.2.1, h.2.2.2, h.2.2.1⟩

theorem newUser_anon {σ τ : Srv} (h : σ.anon = τ.anon) (a b : Nat) :
    (newUser σ a).1.anon = (newUser τ b).1.anon ∧ (newUser σ a).2 = (newUser τ b).2 := by
  obtain ⟨hl, hr, hn, hh⟩ := anon_fields h
  have hlen : σ.heap.length = τ.heap.length := by simpa using congrArg List.length hh
  unfold newUser
  rw [← hl]
  cases firstFree σ.live with
  | none => exact ⟨h, rfl⟩
  | some i =>
    refine ⟨?_, rfl⟩
    simp only [Srv.anon, List.map_append, List.map_cons, List.map_nil, Sess.anon, hl, hr, hn, hh, hlen]

/-- the identifiers answered and the anonymised state depend on the NUMBER of clients only -/
theorem opens_anon : ∀ (as bs : List Nat) (σ τ : Srv), σ.anon = τ.anon → as.length = bs.length →
    (opens σ as).1.anon = (opens τ bs).1.anon ∧ (opens σ as).2 = (opens τ bs).2
  | [], [], _, _, h, _ => ⟨h, rfl⟩
  | [], _ :: _, _, _, _, hl => by simp at hl
  | _ :: _, [], _, _, _, hl => by simp at hl
  | a :: as, b :: bs, σ, τ, h, hl => by
    obtain ⟨h1, h2⟩ := newUser_anon h a b
    obtain ⟨h3, h4⟩ := opens_anon as bs _ _ h1 (by simpa using hl)
    exact ⟨h3, by simp only [opens, h2, h4]⟩

theorem opens_perm (σ : Srv) {as bs : List Nat} (hp : as.Perm bs) :
    (opens σ as).1.anon = (opens σ bs).1.anon ∧ (opens σ as).2 = (opens σ bs).2 :=
  opens_anon as bs σ σ rfl hp.length_eq

/-! ### the identifiers answered -/

theorem set_some_none {l : List (Option Nat)} {i j x : Nat} (h : (l.set i (some x))[j]? = some none) : l[j]? = some none := by
  rw [List.getElem?_set] at h
  by_cases hij : i = j
  · subst hij
    simp only [if_true] at h
    split at h <;> simp at h
  · simpa [hij] using h

theorem newUser_cases' (σ : Srv) (a : Nat) :
    ((newUser σ a).1 = σ ∧ (newUser σ a).2 = none) ∨
    (∃ i, (newUser σ a).2 = some i ∧ σ.live[i]? = some none ∧
      (newUser σ a).1 = { σ with live := σ.live.set i (some σ.heap.length),
                                 heap := σ.heap ++ [{ uid := i, owner := a, last := σ.now }] }) :=
  newUser_cases (σ' := (newUser σ a).1) (u := (newUser σ a).2) rfl

theorem newUser_keeps_free {σ : Srv} {a j : Nat} (h : (newUser σ a).1.live[j]? = some none) : σ.live[j]? = some none := by
  rcases newUser_cases' σ a with ⟨he, _⟩ | ⟨i, _, _, he⟩
  · rw [he] at h; exact h
  · rw [he] at h; exact set_some_none h

theorem newUser_keeps_occupied {σ : Srv} {a j s : Nat} (h : σ.live[j]? = some (some s)) :
    (newUser σ a).1.live[j]? = some (some s) := by
  rcases newUser_cases' σ a with ⟨he, _⟩ | ⟨i, _, hfree, he⟩
  · rw [he]; exact h
  · rw [he]
    have hij : i ≠ j := by
      intro e; subst e; rw [hfree] at h; simp at h
    simp [List.getElem?_set, hij, h]

theorem opens_keeps_occupied : ∀ (as : List Nat) (σ : Srv) (j s : Nat), σ.live[j]? = some (some s) →
    (opens σ as).1.live[j]? = some (some s)
  | [], _, _, _, h => h
  | a :: as, σ, j, s, h => opens_keeps_occupied as _ j s (newUser_keeps_occupied (a := a) h)

/-- an identifier answered in the batch was free before the batch -/
theorem opens_ids_free : ∀ (as : List Nat) (σ : Srv) (i : Nat), some i ∈ (opens σ as).2 → σ.live[i]? = some none
  | [], _, _, h => by simp [opens] at h
  | a :: as, σ, i, h => by
    simp only [opens, List.mem_cons] at h
    rcases h with h | h
    · have : newUser σ a = ((newUser σ a).1, some i) := by rw [h]
      exact (newUser_opens this).1
    · exact newUser_keeps_free (a := a) (opens_ids_free as _ i h)

/-- the identifiers answered in one batch are pairwise distinct -/
theorem opens_ids_nodup : ∀ (as : List Nat) (σ : Srv), ((opens σ as).2.filterMap id).Nodup
  | [], _ => by simp [opens]
  | a :: as, σ => by
    have ih := opens_ids_nodup as (newUser σ a).1
    cases hr : (newUser σ a).2 with
    | none => simpa [opens, hr] using ih
    | some i =>
      simp only [opens, hr, List.filterMap_cons, id_eq]
      refine List.nodup_cons.mpr ⟨?_, ih⟩
      intro hmem
      have hmem' : some i ∈ (opens (newUser σ a).1 as).2 := by
        rcases List.mem_filterMap.mp hmem with ⟨x, hx, hxi⟩
        simp only [id_eq] at hxi
        rw [← hxi]; exact hx
      have hfree := opens_ids_free as _ i hmem'
      have hnu : newUser σ a = ((newUser σ a).1, some i) := by rw [← hr]
      rw [(newUser_opens hnu).2.1] at hfree
      simp at hfree

theorem firstFree_lowest : ∀ (l : List (Option Nat)) (i : Nat), firstFree l = some i → ∀ j, j < i → ∃ s, l[j]? = some (some s)
  | [], _, h, _, _ => by simp [firstFree] at h
  | none :: _, i, h, j, hj => by
    simp [firstFree] at h; omega
  | some x :: r, i, h, j, hj => by
    simp only [firstFree, Option.map_eq_some_iff] at h
    obtain ⟨i', hi', rfl⟩ := h
    cases j with
    | zero => exact ⟨x, by simp⟩
    | succ j =>
      obtain ⟨s, hs⟩ := firstFree_lowest r i' hi' j (by omega)
      exact ⟨s, by simpa using hs⟩

theorem newUser_lowest {σ : Srv} {a i : Nat} (h : (newUser σ a).2 = some i) : ∀ j, j < i → ∃ s, σ.live[j]? = some (some s) := by
  unfold newUser at h
  cases hf : firstFree σ.live with
  | none => simp [hf] at h
  | some i' =>
    simp [hf] at h
    subst h
    exact firstFree_lowest _ _ hf

/-- the lowest free slots: below an identifier answered in the batch no slot is free afterwards -/
theorem opens_lowest : ∀ (as : List Nat) (σ : Srv) (i : Nat), some i ∈ (opens σ as).2 →
    ∀ j, j < i → ∃ s, (opens σ as).1.live[j]? = some (some s)
  | [], _, _, h, _, _ => by simp [opens] at h
  | a :: as, σ, i, h, j, hj => by
    simp only [opens, List.mem_cons] at h
    rcases h with h | h
    · obtain ⟨s, hs⟩ := newUser_lowest h.symm j hj
      exact ⟨s, opens_keeps_occupied as _ j s (newUser_keeps_occupied (a := a) hs)⟩
    · exact opens_lowest as _ i h j hj

/-! ### every client that was answered has a session object of its own -/

theorem newUser_sess_old {σ : Srv} {a sid : Nat} (h : sid < σ.heap.length) : (newUser σ a).1.sess sid = σ.sess sid := by
  rcases newUser_cases' σ a with ⟨he, _⟩ | ⟨i, _, _, he⟩
  · rw [he]
  · rw [he]; exact sess_append_old σ _ _ _ sid h

theorem newUser_heap_le (σ : Srv) (a : Nat) : σ.heap.length ≤ (newUser σ a).1.heap.length := by
  rcases newUser_cases' σ a with ⟨he, _⟩ | ⟨i, _, _, he⟩
  · rw [he]; exact Nat.le_refl _
  · rw [he]; simp

theorem opens_sess_old : ∀ (as : List Nat) (σ : Srv) (sid : Nat), sid < σ.heap.length → (opens σ as).1.sess sid = σ.sess sid
  | [], _, _, _ => rfl
  | a :: as, σ, sid, h => by
    simp only [opens]
    rw [opens_sess_old as _ sid (Nat.lt_of_lt_of_le h (newUser_heap_le σ a)), newUser_sess_old h]

/-- the k-th client of the batch, told identifier i, owns the session object in live slot i after the batch, and that
    object did not exist before the batch (its heap index is not below the old heap length) -/
theorem opens_owner : ∀ (as : List Nat) (σ : Srv) (k i a : Nat), (opens σ as).2[k]? = some (some i) → as[k]? = some a →
    ∃ sid, σ.heap.length ≤ sid ∧ (opens σ as).1.live[i]? = some (some sid) ∧
      ((opens σ as).1.sess sid).owner = a ∧ ((opens σ as).1.sess sid).uid = i
  | [], _, _, _, _, h, _ => by simp [opens] at h
  | b :: as, σ, 0, i, a, h, ha => by
    simp only [opens, List.getElem?_cons_zero, Option.some.injEq] at h ha
    subst ha
    have hnu : newUser σ b = ((newUser σ b).1, some i) := by rw [← h]
    obtain ⟨_, h2, h3, h4, _, _, _⟩ := newUser_opens hnu
    refine ⟨σ.heap.length, Nat.le_refl _, opens_keeps_occupied as _ i _ h2, ?_, ?_⟩
    · simp only [opens]; rw [opens_sess_old as _ _ (by omega), h4]
    · simp only [opens]; rw [opens_sess_old as _ _ (by omega), h4]
  | b :: as, σ, k + 1, i, a, h, ha => by
    simp only [opens, List.getElem?_cons_succ] at h ha
    obtain ⟨sid, h1, h2, h3, h4⟩ := opens_owner as (newUser σ b).1 k i a h ha
    exact ⟨sid, Nat.le_trans (newUser_heap_le σ b) h1, h2, h3, h4⟩

/-! ### the lock structure (regenerated: `SA.Gen.lockPaths_*`) -/

structure LockSt where
  held : Bool := false
  deferred : Bool := false  -- `defer Unlock()` is pending: the lock is held until the function returns
  touched : Bool := false   -- a session table was accessed
  released : Bool := false  -- … and the lock was released after that
  deriving DecidableEq, Repr

/-- one event of a control-flow path: 0 Lock, 1 defer Unlock, 2 Unlock, 3..6 an access to a session table -/
def lockStep (s : LockSt) (e : Nat) : Option LockSt :=
  if e = 0 then (if s.held then none else some { s with held := true })
  else if e = 1 then (if s.held ∧ ¬ s.deferred then some { s with deferred := true } else none)
  else if e = 2 then (if s.held ∧ ¬ s.deferred then some { s with held := false, released := s.touched } else none)
  else if s.held ∧ ¬ s.released then some { s with touched := true } else none

def lockRun : LockSt → List Nat → Option LockSt
  | s, [] => some s
  | s, e :: es => match lockStep s e with
    | none => none
    | some s' => lockRun s' es

/-- every access of the path happens while `usersLock` is held, all of them inside one critical section, and the lock
    is released at the end (explicitly or by the pending `defer`) -/
def pathAtomic (p : List Nat) : Bool :=
  match lockRun {} p with
  | none => false
  | some s => s.held == s.deferred

/-- the path reads the live table and stores into it afterwards (find a slot, then occupy it) -/
def findsThenStores : List Nat → Bool
  | [] => false
  | e :: es => (e == 3 && es.contains 4) || findsThenStores es

/-! ### a `newUser` in two critical sections -/

/-- first half: find the lowest free slot (and release the lock) -/
def findSlot (σ : Srv) : Option Nat := firstFree σ.live

/-- second half: build the session and store it into the slot found earlier -/
def storeSlot (σ : Srv) (i addr : Nat) : Srv :=
  { σ with live := σ.live.set i (some σ.heap.length), heap := σ.heap ++ [{ uid := i, owner := addr, last := σ.now }] }

/-- today's `newUser` is the two halves with nothing in between -/
theorem newUser_eq_find_store (σ : Srv) (a : Nat) :
    newUser σ a = match findSlot σ with
      | none => (σ, none)
      | some i => (storeSlot σ i a, some i) := by
  unfold newUser findSlot storeSlot
  cases firstFree σ.live <;> rfl

end SA.DnsServer

/-
  Helper lemmas for C15's accept-failure model (SA.Model.AcceptFail).
-/
import SA.Model.AcceptFail
import SA.Proofs.Accept
namespace SA.Accept

/-- with the policy "go back to Accept whatever failed" a running loop stays running and the model is the untimed
    scheduler model on the history without the failures -/
theorem frun_retry (retry : ErrClass → Bool) (hr : ∀ c, retry c = true) (stalled : Nat → Bool) (s : FSt)
    (hal : s.alive = true) (acts : List FAct) :
    frun retry stalled s acts = { base := arun true stalled s.base (fbase acts), alive := true } := by
  induction acts generalizing s with
  | nil => cases s; simp_all [frun, fbase, arun]
  | cons a as ih =>
    cases a with
    | fail c =>
      have : ({ s with alive := true } : FSt) = s := by cases s; simp_all
      simp only [frun, fstep, fbase, hal, hr c, if_true, this]
      exact ih s hal
    | act a =>
      have hc : ¬ (a = .accept ∧ s.alive = false) := by simp [hal]
      simp only [frun, fstep, fbase, arun, if_neg hc]
      cases h : astep true stalled s.base a with
      | none => simp only []; exact ih s hal
      | some b => simp only []; exact ih _ hal

/-- a scheduler step other than accept never takes a waiting peer out of the queue -/
theorem astep_pending_keep (stalled : Nat → Bool) {s s' : ASt} (a : AAct) (ha : a ≠ .accept) (p : Nat)
    (hs : astep true stalled s a = some s') (hp : p ∈ s.pending) : p ∈ s'.pending := by
  cases a with
  | accept => exact absurd rfl ha
  | arrive id => simp [astep] at hs; subst hs; exact List.mem_append_left _ hp
  | handler id =>
    simp only [astep] at hs
    split at hs
    · simp at hs
    · split at hs
      · simp at hs; subst hs; exact hp
      · split at hs
        · simp at hs; subst hs; exact hp
        · simp at hs

/-- once the loop has left, a waiting peer waits for ever: whatever happens afterwards (arrivals, handshakes of peers
    accepted earlier, further events) it is still in the queue and the loop is still gone -/
theorem frun_dead (retry : ErrClass → Bool) (stalled : Nat → Bool) (s : FSt) (hal : s.alive = false) (p : Nat)
    (hp : p ∈ s.base.pending) (acts : List FAct) :
    p ∈ (frun retry stalled s acts).base.pending ∧ (frun retry stalled s acts).alive = false := by
  induction acts generalizing s with
  | nil => exact ⟨hp, hal⟩
  | cons a as ih =>
    cases a with
    | fail c => simp only [frun, fstep, hal]; exact ih s hal hp
    | act a =>
      by_cases hacc : a = .accept
      · subst hacc
        simp only [frun, fstep, hal, and_self, if_true]
        exact ih s hal hp
      · have hc : ¬ (a = .accept ∧ s.alive = false) := fun h => hacc h.1
        simp only [frun, fstep, if_neg hc]
        cases h : astep true stalled s.base a with
        | none => simp only []; exact ih s hal hp
        | some b => simp only []; exact ih _ hal (astep_pending_keep stalled a hacc p h hp)

end SA.Accept

/-
  SA.Proofs.HandshakeComplete — completeness of the handshake readers on well-formed wire messages:
  the two line parsers accept every `a SP b SP c` line, `readRequest` / `readResponse` read a well-formed
  message back, and the server / client decision trees walk through to `established`.
-/
import SA.Proofs.HandshakeWire
namespace SA.Handshake

/-! ### `a SP b SP c` lines: the Go index / slice expressions evaluated -/

theorem goIndex_append (a b : B) (c : Nat) (h : c ∉ a) : goIndex (a ++ c :: b) c = (a.length : Int) := by
  have hne : ∀ x ∈ a, (x != c) = true := by
    intro x hx
    have : x ≠ c := fun e => h (e ▸ hx)
    simpa using this
  unfold goIndex
  have hc : (a ++ c :: b).contains c = true := by simp
  rw [if_pos hc, takeWhile_append_of_all _ hne, List.takeWhile_cons_of_neg (by simp)]
  simp

theorem drop_length_succ (a b : B) (c : Nat) : (a ++ c :: b).drop (a.length + 1) = b := by
  induction a with
  | nil => rfl
  | cons x a ih => simp

structure ThreeParts (line a b c : B) : Prop where
  i1 : goIndex line 32 = (a.length : Int)
  tl : goSliceFrom line ((a.length : Int) + 1) = some (b ++ 32 :: c)
  i2 : goIndex (b ++ 32 :: c) 32 = (b.length : Int)
  s1 : goSlice line 0 (a.length : Int) = some a
  s2 : goSlice line ((a.length : Int) + 1) ((b.length : Int) + (a.length : Int) + 1) = some b
  s3 : goSliceFrom line ((b.length : Int) + (a.length : Int) + 1 + 1) = some c

theorem threeParts (a b c : B) (ha : 32 ∉ a) (hb : 32 ∉ b) :
    ThreeParts (a ++ 32 :: (b ++ 32 :: c)) a b c := by
  have hl : ((a ++ 32 :: (b ++ 32 :: c)).length : Int) = a.length + 1 + (b.length + 1 + c.length) := by
    simp only [List.length_append, List.length_cons]; omega
  have q1 : ((a.length : Int) + 1).toNat = a.length + 1 := by omega
  have q2 : ((b.length : Int) + (a.length : Int) + 1).toNat - ((a.length : Int) + 1).toNat = b.length := by omega
  have q3 : ((b.length : Int) + (a.length : Int) + 1 + 1).toNat = (a.length + 1) + (b.length + 1) := by omega
  have q4 : ((a.length : Int)).toNat - (0 : Int).toNat = a.length := by omega
  refine ⟨goIndex_append a _ 32 ha, ?_, goIndex_append b c 32 hb, ?_, ?_, ?_⟩
  · rw [goSliceFrom_some ⟨by omega, by omega⟩, q1, drop_length_succ]
  · rw [goSlice_some ⟨by omega, by omega, by omega⟩, q4]
    simp
  · rw [goSlice_some ⟨by omega, by omega, by omega⟩, q2, q1, drop_length_succ]
    simp
  · rw [goSliceFrom_some ⟨by omega, by omega⟩, q3, ← List.drop_drop, drop_length_succ, drop_length_succ]

theorem parseRequestLine_render (m u p : B) (hm : 32 ∉ m) (hu : 32 ∉ u) :
    parseRequestLine (m ++ [32] ++ u ++ [32] ++ p) = .ok (m, u, p) := by
  have e : m ++ [32] ++ u ++ [32] ++ p = m ++ 32 :: (u ++ 32 :: p) := by simp
  rw [e]
  have t := threeParts m u p hm hu
  have n1 : ¬ ((m.length : Int) < 0 ∨ (u.length : Int) < 0) := by omega
  simp only [parseRequestLine, t.i1, t.tl, t.i2, n1, if_false, t.s1, t.s2, t.s3]

theorem parseResponseLine_render (proto st text : B) (code : Int) (hp : 32 ∉ proto) (hs : 32 ∉ st)
    (hc : parseInt32 st = some code) :
    parseResponseLine (proto ++ [32] ++ st ++ [32] ++ text) = .ok (proto, code, text) := by
  have e : proto ++ [32] ++ st ++ [32] ++ text = proto ++ 32 :: (st ++ 32 :: text) := by simp
  rw [e]
  have t := threeParts proto st text hp hs
  have n1 : ¬ ((proto.length : Int) < 0 ∨ (st.length : Int) < 0) := by omega
  simp only [parseResponseLine, t.i1, t.tl, t.i2, n1, if_false, t.s1, t.s2, t.s3, hc]

/-! ### whole messages -/

/-- a first-line field that may not contain a space or a line feed (method, URL; protocol of a response) -/
def wfWord (u : B) : Bool := !u.contains 32 && !u.contains 10
/-- the last first-line field: anything without a line feed -/
def wfTail (p : B) : Bool := !p.contains 10

theorem wfWord_spec {u : B} (h : wfWord u = true) : 32 ∉ u ∧ 10 ∉ u := by
  simpa [wfWord] using h
theorem wfTail_spec {p : B} (h : wfTail p = true) : 10 ∉ p := by
  simpa [wfTail] using h

theorem line_no_lf (a b c : B) (ha : 10 ∉ a) (hb : 10 ∉ b) (hc : 10 ∉ c) : 10 ∉ a ++ [32] ++ b ++ [32] ++ c := by
  simp only [List.mem_append, List.mem_singleton, not_or]
  exact ⟨⟨⟨⟨ha, by decide⟩, hb⟩, by decide⟩, hc⟩

theorem readRequest_wire (m u p : B) (hs : Headers) (hm : wfWord m = true) (hu : wfWord u = true)
    (hp : wfTail p = true) (hw : wfHeaders hs = true) (f : Nat) (hf : hs.length < f) (rest : B) :
    readRequest f ⟨wireRequest m u p hs ++ rest, []⟩ = .ok (⟨m, u, p, parsedHeaders hs⟩, ⟨rest, []⟩) := by
  obtain ⟨m1, m2⟩ := wfWord_spec hm
  obtain ⟨u1, u2⟩ := wfWord_spec hu
  have hl := line_no_lf m u p m2 u2 (wfTail_spec hp)
  unfold readRequest wireRequest
  rw [readHeader_wire _ hl _ hw f hf rest]
  simp only [parseRequestLine_render m u p m1 u1]

theorem readResponse_wire (proto st text : B) (code : Int) (hs : Headers) (hpr : wfWord proto = true)
    (hst : wfWord st = true) (hc : parseInt32 st = some code)
    (ht : wfTail text = true) (hw : wfHeaders hs = true) (f : Nat) (hf : hs.length < f) (rest : B) :
    readResponse f ⟨wireResponse proto st text hs ++ rest, []⟩ =
      .ok (⟨proto, code, text, parsedHeaders hs⟩, ⟨rest, []⟩) := by
  obtain ⟨p1, p2⟩ := wfWord_spec hpr
  obtain ⟨s1, s2⟩ := wfWord_spec hst
  have hl := line_no_lf proto st text p2 s2 (wfTail_spec ht)
  unfold readResponse wireResponse
  rw [readHeader_wire _ hl _ hw f hf rest]
  simp only [parseResponseLine_render proto st text code p1 s1 hc]

/-! ### version choice -/

/-- server.go negotiateVersion, as a partial function: the first version of the server's list
    (`SupportedProtocolVersions`, in that order) that occurs in the client's comma-separated list -/
def firstSupported (accepted : B) : Option B :=
  Gen.supportedVersions.find? (fun v => (splitField accepted).contains v)

theorem negotiate_of_firstSupported {acc v : B} (h : firstSupported acc = some v) :
    negotiate acc = v ∧ v ≠ [] := by
  unfold firstSupported at h
  refine ⟨by simp only [negotiate, h], ?_⟩
  have hm : v ∈ Gen.supportedVersions := List.mem_of_find?_eq_some h
  have hn : ([] : B) ∉ Gen.supportedVersions := by decide
  intro e; exact hn (e ▸ hm)

theorem firstSupported_of_negotiate {acc v : B} (h : negotiate acc = v) (hne : v ≠ []) :
    firstSupported acc = some v := by
  unfold firstSupported
  simp only [negotiate] at h
  cases hf : Gen.supportedVersions.find? (fun v => (splitField acc).contains v) with
  | none => rw [hf] at h; exact absurd h.symm hne
  | some w => rw [hf] at h; simp only at h; rw [h]

/-! ### the server on a well-formed pair of requests -/

/-- the `Security: StartTLS` test of server.go upgrade (case-insensitive) -/
def asksStartTls (hs : Headers) : Bool :=
  goUpper (hget (parsedHeaders hs) bSecurity) == goUpper Gen.srvSecurityToken

/-- the session the server reports for a well-formed stream -/
def expectedSession (cfg : SrvCfg) (v : B) (startTls : Bool) (rest : B) : Outcome :=
  if startTls then .established v .tls true []
  else .established v (if cfg.secure then .underlying else .none) cfg.secure rest

theorem serverOn_complete (cfg : SrvCfg) (tls : B → Bool) (f : Nat)
    (u p : B) (hs1 : Headers) (u2 p2 : B) (hs2 : Headers) (rest v : B)
    (hu : wfWord u = true) (hp : wfTail p = true) (hw1 : wfHeaders hs1 = true)
    (hu2 : wfWord u2 = true) (hp2 : wfTail p2 = true) (hw2 : wfHeaders hs2 = true)
    (hf1 : hs1.length < f) (hf2 : hs2.length < f)
    (hv : firstSupported (hget (parsedHeaders hs1) Gen.acceptsProtocolVersion) = some v)
    (hc : goLower (hget (parsedHeaders hs2) bConnection) = Gen.srvUpgradeConnection)
    (hup : hget (parsedHeaders hs2) bUpgrade = Gen.srvUpgradePrefix ++ v)
    (htls : asksStartTls hs2 = true → cfg.secure = false ∧ cfg.cert = .ok ∧ tls rest = true) :
    (serverOn cfg tls f
      ⟨wireRequest Gen.requestMethod u p hs1 ++ (wireRequest Gen.srvUpgradeMethod u2 p2 hs2 ++ rest), []⟩).out
      = expectedSession cfg v (asksStartTls hs2) rest := by
  obtain ⟨hn, hne⟩ := negotiate_of_firstSupported hv
  have r1 := readRequest_wire Gen.requestMethod u p hs1 (by decide) hu hp hw1 f hf1
    (wireRequest Gen.srvUpgradeMethod u2 p2 hs2 ++ rest)
  have r2 := readRequest_wire Gen.srvUpgradeMethod u2 p2 hs2 (by decide) hu2 hp2 hw2 f hf2 rest
  have hmeth : Gen.requestMethod = Gen.srvAnnounceMethod := by decide
  unfold serverOn
  rw [r1]
  simp only [hmeth, ne_eq, not_true_eq_false, if_false, hn, hne, r2, hc, hup]
  unfold expectedSession
  by_cases ha : asksStartTls hs2 = true
  · obtain ⟨c1, c2, c3⟩ := htls ha
    have ha' : goUpper (hget (parsedHeaders hs2) bSecurity) = goUpper Gen.srvSecurityToken := by
      simpa [asksStartTls] using ha
    have hsup : supportTls cfg = true := by simp [supportTls, c1, c2]
    simp [ha, ha', hsup, c2, c3, Rd.flat]
  · have ha' : ¬ goUpper (hget (parsedHeaders hs2) bSecurity) = goUpper Gen.srvSecurityToken := by
      simpa [asksStartTls] using ha
    simp [ha, ha', Rd.flat]

/-! ### the client on a well-formed pair of replies -/

theorem clientOn_complete (s0 : Bool) (tls : B → Bool) (f : Nat)
    (pr st text : B) (hs1 : Headers) (pr2 st2 text2 : B) (hs2 : Headers) (rest : B)
    (hpr : wfWord pr = true) (hst : wfWord st = true) (ht : wfTail text = true) (hw1 : wfHeaders hs1 = true)
    (hpr2 : wfWord pr2 = true) (hst2 : wfWord st2 = true) (ht2 : wfTail text2 = true) (hw2 : wfHeaders hs2 = true)
    (hf1 : hs1.length < f) (hf2 : hs2.length < f)
    (hc1 : parseInt32 st = some Gen.cliHandshakeStatus) (hc2 : parseInt32 st2 = some Gen.cliUpgradeStatus)
    (htls : shouldStartTls s0 (hget (parsedHeaders hs1) Gen.capabilitiesHdr) = true → tls rest = true) :
    (clientOn s0 tls f ⟨wireResponse pr st text hs1 ++ (wireResponse pr2 st2 text2 hs2 ++ rest), []⟩).out
      = if shouldStartTls s0 (hget (parsedHeaders hs1) Gen.capabilitiesHdr)
        then .established (hget (parsedHeaders hs1) bProtocolVersion) .tls true []
        else .established (hget (parsedHeaders hs1) bProtocolVersion)
          (if s0 then .underlying else .none) s0 rest := by
  have r1 := readResponse_wire pr st text _ hs1 hpr hst hc1 ht hw1 f hf1 (wireResponse pr2 st2 text2 hs2 ++ rest)
  have r2 := readResponse_wire pr2 st2 text2 _ hs2 hpr2 hst2 hc2 ht2 hw2 f hf2 rest
  unfold clientOn
  rw [r1]
  simp only [ne_eq, not_true_eq_false, if_false, r2]
  by_cases ha : shouldStartTls s0 (hget (parsedHeaders hs1) Gen.capabilitiesHdr) = true
  · simp [ha, htls ha, Rd.flat]
  · simp [ha, Rd.flat]

/-! ### exact characterisation of the server's `established` outcome in terms of its two reads -/

theorem tlsReady_iff (cfg : SrvCfg) :
    (supportTls cfg = true ∧ ¬ (cfg.cert == CertMode.okerr) = true) ↔ (cfg.secure = false ∧ cfg.cert = .ok) := by
  obtain ⟨s, c⟩ := cfg
  cases s <;> cases c <;> simp [supportTls]

theorem serverOn_established_iff (cfg : SrvCfg) (tls : B → Bool) (f : Nat) (r : Rd) (v : B) :
    (∃ t s l, (serverOn cfg tls f r).out = .established v t s l) ↔
    ∃ req r1 req2 r2, readRequest f r = .ok (req, r1) ∧ req.method = Gen.srvAnnounceMethod ∧
      negotiate (hget req.headers Gen.acceptsProtocolVersion) = v ∧ v ≠ [] ∧
      readRequest f r1 = .ok (req2, r2) ∧ req2.method = Gen.srvUpgradeMethod ∧
      goLower (hget req2.headers bConnection) = Gen.srvUpgradeConnection ∧
      hget req2.headers bUpgrade = Gen.srvUpgradePrefix ++ v ∧
      (goUpper (hget req2.headers bSecurity) = goUpper Gen.srvSecurityToken →
        cfg.secure = false ∧ cfg.cert = .ok ∧ tls r2.flat = true) := by
  unfold serverOn
  cases e1 : readRequest f r with
  | err => simp
  | panic => simp
  | ok x =>
    obtain ⟨req, r1⟩ := x
    simp only
    by_cases hm : req.method = Gen.srvAnnounceMethod
    · by_cases hv : negotiate (hget req.headers Gen.acceptsProtocolVersion) = []
      · simp only [hm, ne_eq, not_true_eq_false, if_false, hv, if_true]
        constructor
        · rintro ⟨t, s, l, h⟩; cases h
        · rintro ⟨req', r1', _, _, h, _, hn, hne, _⟩
          simp only [Parsed.ok.injEq, Prod.mk.injEq] at h
          obtain ⟨rfl, rfl⟩ := h
          exact absurd (hv ▸ hn).symm hne
      · simp only [hm, ne_eq, not_true_eq_false, if_false, hv]
        cases e2 : readRequest f r1 with
        | err =>
          simp only
          constructor
          · rintro ⟨t, s, l, h⟩; cases h
          · rintro ⟨req', r1', _, _, h, _, _, _, h2, _⟩
            simp only [Parsed.ok.injEq, Prod.mk.injEq] at h
            obtain ⟨rfl, rfl⟩ := h
            rw [e2] at h2; cases h2
        | panic =>
          simp only
          constructor
          · rintro ⟨t, s, l, h⟩; cases h
          · rintro ⟨req', r1', _, _, h, _, _, _, h2, _⟩
            simp only [Parsed.ok.injEq, Prod.mk.injEq] at h
            obtain ⟨rfl, rfl⟩ := h
            rw [e2] at h2; cases h2
        | ok y =>
          obtain ⟨req2, r2⟩ := y
          simp only
          have key : (∃ req' r1' req2' r2', Parsed.ok (req, r1) = Parsed.ok (req', r1') ∧
              req'.method = Gen.srvAnnounceMethod ∧
              negotiate (hget req'.headers Gen.acceptsProtocolVersion) = v ∧ v ≠ [] ∧
              readRequest f r1' = .ok (req2', r2') ∧ req2'.method = Gen.srvUpgradeMethod ∧
              goLower (hget req2'.headers bConnection) = Gen.srvUpgradeConnection ∧
              hget req2'.headers bUpgrade = Gen.srvUpgradePrefix ++ v ∧
              (goUpper (hget req2'.headers bSecurity) = goUpper Gen.srvSecurityToken →
                cfg.secure = false ∧ cfg.cert = .ok ∧ tls r2'.flat = true)) ↔
            (negotiate (hget req.headers Gen.acceptsProtocolVersion) = v ∧
              req2.method = Gen.srvUpgradeMethod ∧
              goLower (hget req2.headers bConnection) = Gen.srvUpgradeConnection ∧
              hget req2.headers bUpgrade = Gen.srvUpgradePrefix ++ v ∧
              (goUpper (hget req2.headers bSecurity) = goUpper Gen.srvSecurityToken →
                cfg.secure = false ∧ cfg.cert = .ok ∧ tls r2.flat = true)) := by
            constructor
            · rintro ⟨req', r1', req2', r2', h, _, hn, _, h2, a, b, c, d⟩
              simp only [Parsed.ok.injEq, Prod.mk.injEq] at h
              obtain ⟨rfl, rfl⟩ := h
              rw [e2] at h2
              simp only [Parsed.ok.injEq, Prod.mk.injEq] at h2
              obtain ⟨rfl, rfl⟩ := h2
              exact ⟨hn, a, b, c, d⟩
            · rintro ⟨hn, a, b, c, d⟩
              exact ⟨req, r1, req2, r2, rfl, hm, hn, hn ▸ hv, e2, a, b, c, d⟩
          rw [key]
          by_cases hm2 : req2.method = Gen.srvUpgradeMethod
          case neg => simp [hm2]
          by_cases hc : goLower (hget req2.headers bConnection) = Gen.srvUpgradeConnection
          case neg => simp [hm2, hc]
          by_cases hu : hget req2.headers bUpgrade =
              Gen.srvUpgradePrefix ++ negotiate (hget req.headers Gen.acceptsProtocolVersion)
          case neg =>
            simp only [hm2, hc, hu, not_true_eq_false, not_false_eq_true, if_true, if_false]
            constructor
            · rintro ⟨t, s, l, h⟩; cases h
            · rintro ⟨hn, _, _, c, _⟩; rw [hn] at hu; exact absurd c hu
          simp only [hm2, hc, hu, not_true_eq_false, if_false, true_and]
          by_cases hs : goUpper (hget req2.headers bSecurity) = goUpper Gen.srvSecurityToken
          · have tr := tlsReady_iff cfg
            simp only [hs, if_true, true_implies]
            by_cases h1 : supportTls cfg = true
            · by_cases h2 : (cfg.cert == CertMode.okerr) = true
              · have : ¬ (cfg.secure = false ∧ cfg.cert = .ok) := fun h => (tr.mpr h).2 h2
                simp only [h1, h2, if_true]
                constructor
                · rintro ⟨t, s, l, h⟩; cases h
                · rintro ⟨_, _, c1, c2, _⟩; exact absurd ⟨c1, c2⟩ this
              · have ok := tr.mp ⟨h1, h2⟩
                simp only [h1, h2, if_true, Bool.false_eq_true, if_false]
                by_cases h3 : tls r2.flat = true
                · simp only [h3, if_true, Outcome.established.injEq]
                  constructor
                  · rintro ⟨t, s, l, h, _⟩; exact ⟨h, by rw [← h], ok.1, ok.2, trivial⟩
                  · rintro ⟨h, _⟩; exact ⟨_, _, _, h, rfl, rfl, rfl⟩
                · simp only [h3, Bool.false_eq_true, if_false]
                  constructor
                  · rintro ⟨t, s, l, h⟩; cases h
                  · rintro ⟨_, _, _, _, c3⟩; exact c3.elim
            · have : ¬ (cfg.secure = false ∧ cfg.cert = .ok) := fun h => h1 (tr.mpr h).1
              simp only [h1, Bool.false_eq_true, if_false]
              constructor
              · rintro ⟨t, s, l, h⟩; cases h
              · rintro ⟨_, _, c1, c2, _⟩; exact absurd ⟨c1, c2⟩ this
          · simp only [hs, if_false, Outcome.established.injEq, false_implies, and_true]
            constructor
            · rintro ⟨t, s, l, h, _⟩; exact ⟨h, by rw [← h]⟩
            · rintro ⟨h, _⟩; exact ⟨_, _, _, h, rfl, rfl, rfl⟩
    · simp only [hm, ne_eq, not_false_eq_true, if_true]
      constructor
      · rintro ⟨t, s, l, h⟩; cases h
      · rintro ⟨req', r1', _, _, h, hm', _⟩
        simp only [Parsed.ok.injEq, Prod.mk.injEq] at h
        obtain ⟨rfl, rfl⟩ := h
        exact absurd hm' hm

end SA.Handshake

/-
  SA.Proofs.QueueWindow — the acceptance-window loop of `InQueue.Append` as the code runs it
  (`windowLoop`, a uint16 counter that is incremented until it equals `next + Hi`) equals the closed form
  `inWindow` used by the invariants, for all loop bounds and all uint16 arguments.
-/
import SA.Model.Queue
namespace SA.Queue

/-- from a uint16 start `i`, with enough fuel to reach `stop`, the loop sets the flag exactly when `seq`
    is one of the `(stop - i) mod 2^16` values `i, i+1, …, stop-1` -/
theorem windowLoop_eq (stop seq : Nat) (hstop : stop < MOD) (hseq : seq < MOD) :
    ∀ (f i : Nat) (acc : Bool), i < MOD → (stop + MOD - i) % MOD < f →
      windowLoop stop seq f i acc = (acc || decide ((seq + MOD - i) % MOD < (stop + MOD - i) % MOD)) := by
  intro f
  induction f with
  | zero => intro i acc _ h; omega
  | succ f ih =>
    intro i acc hi hf
    unfold windowLoop
    by_cases he : i = stop
    · rw [if_pos he]
      have : ¬ ((seq + MOD - i) % MOD < (stop + MOD - i) % MOD) := by omega
      simp [this]
    · rw [if_neg he, ih ((i + 1) % MOD) _ (Nat.mod_lt _ (by omega)) (by omega), Bool.or_assoc]
      congr 1
      rw [← Bool.decide_or]
      apply decide_eq_decide.mpr
      constructor
      · intro h; omega
      · intro h; omega

/-- the loop in the code = the closed form -/
theorem inWindowL_eq (c : Cfg) {next seq : Nat} (hseq : seq < MOD) :
    inWindowL c next seq = inWindow c next seq := by
  unfold inWindowL inWindow
  rw [windowLoop_eq _ _ (Nat.mod_lt _ (by omega)) hseq MOD _ false (Nat.mod_lt _ (by omega))
    (Nat.mod_lt _ (by omega))]
  simp only [Bool.false_or]
  apply decide_eq_decide.mpr
  have : ((next + c.whi) % MOD + MOD - (next + c.wlo) % MOD) % MOD = (c.whi + MOD - c.wlo % MOD) % MOD := by
    omega
  rw [this]

end SA.Queue

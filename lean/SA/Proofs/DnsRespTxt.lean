/-
  SA.Proofs.DnsRespTxt — WrapDnsResponseTxt over every payload length.

  The Go loop (model: `txtStrings`, with its two accumulators) is shown equal to a plain description:
  cut the payload into 253-byte pieces, group the pieces 250 to a record, put the two-character order
  tag in front of the first piece of each record, double the backslashes of every string
  (`txtStrings_spec`).  One such record survives packTxtString / unpackString / unescapePresentation
  as the concatenation of its pieces (`txt_record`), so the records that arrive are `Tagged`.
-/
import SA.Proofs.DnsRespMulti

namespace SA.DnsResp
open SA.DnsWire SA.WireCodec SA.DnsReq

def escIf (s : List Nat) : List Nat := if SA.Gen.C09.wrapTxtEscapes then escapeBackslashes s else s

def txtStr (order : Nat) (cur : List (List Nat)) (p : List Nat) : List Nat :=
  escIf ((if cur.isEmpty then orderTag order else []) ++ p)

def txtNext (order : Nat) (cur : List (List Nat)) : Nat := if cur.isEmpty then order + 1 else order

/-- the loop of `txtStrings` over the pieces instead of over the remaining data -/
def txtLoop (perRec : Nat) : Nat → List (List Nat) → List (List (List Nat)) → List (List Nat) → List (List (List Nat))
  | _, [], recs, cur => if cur.isEmpty then recs.reverse else (cur.reverse :: recs).reverse
  | order, p :: ps, recs, cur =>
    if (txtStr order cur p :: cur).length = perRec then
      txtLoop perRec (txtNext order cur) ps ((txtStr order cur p :: cur).reverse :: recs) []
    else
      txtLoop perRec (txtNext order cur) ps recs (txtStr order cur p :: cur)

theorem txtStrings_eq_loop (chunk perRec fuel order x : Nat) (data : List Nat)
    (recs : List (List (List Nat))) (cur : List (List Nat)) :
    txtStrings chunk perRec fuel order x data recs cur = txtLoop perRec order (pieces chunk fuel data) recs cur := by
  induction fuel generalizing order x data recs cur with
  | zero => simp [txtStrings, pieces, txtLoop]
  | succ n ih =>
    unfold txtStrings pieces
    by_cases he : data.isEmpty = true
    · simp [he, txtLoop]
    · simp only [he, Bool.false_eq_true, if_false]
      rw [txtLoop]
      simp only [txtStr, txtNext, escIf, ih]

theorem txtLoop_recs (perRec : Nat) (ps : List (List Nat)) (order : Nat) (recs : List (List (List Nat))) (cur : List (List Nat)) :
    txtLoop perRec order ps recs cur = recs.reverse ++ txtLoop perRec order ps [] cur := by
  induction ps generalizing order recs cur with
  | nil =>
    unfold txtLoop
    by_cases hc : cur.isEmpty = true <;> simp [hc]
  | cons p ps ih =>
    rw [txtLoop, txtLoop]
    by_cases h : (txtStr order cur p :: cur).length = perRec
    · rw [if_pos h, if_pos h, ih _ (_ :: recs), ih _ [_]]; simp
    · rw [if_neg h, if_neg h, ih]

/-- one TXT record: the strings of a group of pieces, the tag in front of the first -/
def txtRec (o : Nat) : List (List Nat) → List (List Nat)
  | [] => []
  | p :: ps => escIf (orderTag o ++ p) :: ps.map escIf

def txtRecs : Nat → List (List (List Nat)) → List (List (List Nat))
  | _, [] => []
  | o, g :: gs => txtRec o g :: txtRecs (o + 1) gs

theorem txtRecs_length (o : Nat) (gs : List (List (List Nat))) : (txtRecs o gs).length = gs.length := by
  induction gs generalizing o with
  | nil => rfl
  | cons g gs ih => simp [txtRecs, ih]

/-- inside a record: the strings collected so far are completed by the next pieces -/
theorem txtLoop_cur (perRec : Nat) (ps : List (List Nat)) (order : Nat) (cur : List (List Nat))
    (hne : cur ≠ []) (hlt : cur.length < perRec) :
    txtLoop perRec order ps [] cur
      = (cur.reverse ++ (ps.take (perRec - cur.length)).map escIf)
          :: txtLoop perRec order (ps.drop (perRec - cur.length)) [] [] := by
  have he : ∀ c : List (List Nat), c ≠ [] → c.isEmpty = false := by
    intro c hc; cases c with | nil => exact absurd rfl hc | cons _ _ => rfl
  induction ps generalizing cur with
  | nil => simp [txtLoop, he cur hne]
  | cons p ps ih =>
    obtain ⟨k, hk⟩ : ∃ k, perRec - cur.length = k + 1 := ⟨perRec - cur.length - 1, by omega⟩
    rw [txtLoop]
    have hs : txtStr order cur p = escIf p := by simp [txtStr, he cur hne]
    have hn : txtNext order cur = order := by simp [txtNext, he cur hne]
    rw [hs, hn, hk]
    by_cases hfull : (escIf p :: cur).length = perRec
    · rw [if_pos hfull, txtLoop_recs]
      have hk0 : k = 0 := by simp only [List.length_cons] at hfull; omega
      subst hk0
      simp
    · rw [if_neg hfull, ih (escIf p :: cur) (by simp) (by simp only [List.length_cons] at hfull ⊢; omega)]
      have : perRec - (escIf p :: cur).length = k := by simp only [List.length_cons]; omega
      rw [this]
      simp

/-- at a record boundary: the next `perRec` pieces make the next record -/
theorem txtLoop_start (perRec : Nat) (hp : 0 < perRec) (p : List Nat) (ps : List (List Nat)) (order : Nat) :
    txtLoop perRec order (p :: ps) [] []
      = txtRec order ((p :: ps).take perRec) :: txtLoop perRec (order + 1) ((p :: ps).drop perRec) [] [] := by
  obtain ⟨k, hk⟩ : ∃ k, perRec = k + 1 := ⟨perRec - 1, by omega⟩
  subst hk
  rw [txtLoop]
  have hs : txtStr order [] p = escIf (orderTag order ++ p) := by simp [txtStr]
  have hn : txtNext order [] = order + 1 := by simp [txtNext]
  rw [hs, hn]
  by_cases h1 : [escIf (orderTag order ++ p)].length = k + 1
  · have hk0 : k = 0 := by simp only [List.length_cons, List.length_nil] at h1; omega
    subst hk0
    rw [if_pos h1, txtLoop_recs]
    simp [txtRec]
  · rw [if_neg h1, txtLoop_cur (k + 1) ps (order + 1) [escIf (orderTag order ++ p)] (by simp)
      (by simp only [List.length_cons, List.length_nil] at h1 ⊢; omega)]
    simp [txtRec]

theorem txtLoop_spec (perRec : Nat) (hp : 0 < perRec) (fuel : Nat) (ps : List (List Nat)) (order : Nat)
    (hf : ps.length ≤ fuel) :
    txtLoop perRec order ps [] [] = txtRecs order (pieces perRec fuel ps) := by
  induction fuel generalizing ps order with
  | zero =>
    have : ps = [] := List.eq_nil_of_length_eq_zero (by omega)
    subst this; simp [txtLoop, pieces, txtRecs]
  | succ n ih =>
    cases ps with
    | nil => simp [txtLoop, pieces, txtRecs]
    | cons p ps =>
      rw [txtLoop_start perRec hp]
      unfold pieces
      simp only [List.isEmpty_cons, Bool.false_eq_true, if_false, txtRecs]
      rw [ih _ _ (by rw [List.length_drop]; simp only [List.length_cons] at hf ⊢; omega)]

/-- **WrapDnsResponseTxt, in plain terms** -/
theorem txtStrings_spec (data : List Nat) :
    txtStrings SA.Gen.C09.wrapChunkTxt SA.Gen.C09.wrapTxtStrings data.length 0 0 data [] []
      = txtRecs 0 (pieces SA.Gen.C09.wrapTxtStrings data.length (pieces SA.Gen.C09.wrapChunkTxt data.length data)) := by
  rw [txtStrings_eq_loop]
  refine txtLoop_spec _ (by decide) _ _ _ ?_
  rw [pieces_length _ (by decide) _ _ (Nat.le_refl _)]
  have : SA.Gen.C09.wrapChunkTxt = 253 := rfl
  rw [this]; omega

/-! ### one TXT record over the wire -/

theorem txtFromWire_flatten (ws : List (List Nat)) : (ws.map txtFromWire).flatten = txtFromWire ws.flatten := by
  induction ws with
  | nil => rfl
  | cons w ws ih => simp [txtFromWire, List.flatMap_append] at ih ⊢; rw [ih]

theorem sum_len_le (l : List (List Nat)) (b : Nat) (h : ∀ w ∈ l, w.length + 1 ≤ b) :
    (l.map (fun w => w.length + 1)).sum ≤ l.length * b := by
  induction l with
  | nil => simp
  | cons w l ih =>
    have h1 := h w (List.mem_cons_self)
    have h2 := ih (fun x hx => h x (List.mem_cons_of_mem _ hx))
    simp only [List.map_cons, List.sum_cons, List.length_cons, Nat.succ_mul]
    omega

theorem tagChar_plain : ∀ m, m < 32 → escTxtByte (SA.Gen.C09.c09cb32.getD m 0) = [SA.Gen.C09.c09cb32.getD m 0] := by decide

theorem tagChar_byte : ∀ m, m < 32 → SA.Gen.C09.c09cb32.getD m 0 < 256 := by decide

theorem escTxtByte_b32Char (n : Nat) : escTxtByte (b32Char n) = [b32Char n] :=
  tagChar_plain (n % 32) (Nat.mod_lt _ (by decide))

theorem orderTag_bytes (o : Nat) : SA.Bytes (orderTag o) := by
  intro b hb
  simp only [orderTag, List.mem_cons, List.not_mem_nil, or_false] at hb
  rcases hb with rfl | rfl <;> exact tagChar_byte _ (Nat.mod_lt _ (by decide))

theorem map_txtToWire_escIf (ws : List (List Nat)) : (ws.map escIf).map txtToWire = ws := by
  induction ws with
  | nil => rfl
  | cons w ws ih =>
    have hw : txtToWire (escIf w) = w := by
      have : SA.Gen.C09.wrapTxtEscapes = true := by decide
      simp only [escIf, this, if_true]; exact txtToWireGo_escape w
    simp only [List.map_cons, hw] at ih ⊢
    rw [ih]

/-- one record of WrapDnsResponseTxt through Pack, Unpack, TypePriority and UnwrapDnsResponse -/
theorem txt_record (L o : Nat) (g : List (List Nat)) (hne : g ≠ [])
    (hlen : g.length ≤ SA.Gen.C09.wrapTxtStrings)
    (hp : ∀ p ∈ g, p.length ≤ SA.Gen.C09.wrapChunkTxt ∧ SA.Bytes p) :
    ∃ r', rrOverWire (.txt (txtRec o g)) = .ok r' ∧ typePriority r' = some (tagKey .txt o)
      ∧ unwrapOne L r' = some g.flatten := by
  cases g with
  | nil => exact absurd rfl hne
  | cons p ps =>
    have h253 : SA.Gen.C09.wrapChunkTxt = 253 := rfl
    have h250 : SA.Gen.C09.wrapTxtStrings = 250 := rfl
    rw [h253] at hp; rw [h250] at hlen
    have hws : (txtRec o (p :: ps)).map txtToWire = (orderTag o ++ p) :: ps := by
      have := map_txtToWire_escIf ((orderTag o ++ p) :: ps)
      simpa [txtRec] using this
    have hshort : ∀ w ∈ (orderTag o ++ p) :: ps, w.length + 1 ≤ 256 := by
      intro w hw
      rcases List.mem_cons.mp hw with rfl | hw
      · have := (hp p (List.mem_cons_self)).1
        simp [orderTag]; omega
      · have := (hp w (List.mem_cons_of_mem _ hw)).1
        omega
    have hany : ((orderTag o ++ p) :: ps).any (fun w => decide (w.length > 255)) = false := by
      rw [List.any_eq_false]
      intro w hw
      have := hshort w hw
      simp; omega
    have hsum : ¬ ((((orderTag o ++ p) :: ps).map (fun w => w.length + 1)).sum > 65535) := by
      have := sum_len_le _ 256 hshort
      simp only [List.length_cons] at this hlen
      have h2 : (ps.length + 1) * 256 ≤ 250 * 256 := Nat.mul_le_mul_right _ hlen
      omega
    refine ⟨.txt (((orderTag o ++ p) :: ps).map txtFromWire), ?_, ?_, ?_⟩
    · simp only [rrOverWire, hws, hany, Bool.false_eq_true, if_false, hsum]
    · have : txtFromWire (orderTag o ++ p) = b32Char o :: b32Char (o / 16) :: txtFromWire p := by
        simp [txtFromWire, orderTag, escTxtByte_b32Char]
      simp only [List.map_cons, typePriority, this, tagKey, key32]
    · have hb : SA.Bytes ((orderTag o ++ p) :: ps).flatten := by
        intro b hb
        simp only [List.flatten_cons, List.mem_append] at hb
        rcases hb with (hb | hb) | hb
        · exact orderTag_bytes o b hb
        · exact (hp p (List.mem_cons_self)).2 b hb
        · obtain ⟨w, hw, hbw⟩ := List.mem_flatten.mp hb
          exact (hp w (List.mem_cons_of_mem _ hw)).2 b hbw
      have hun : SA.Gen.C09.unwrapUnescapesTxt = true := by decide
      simp only [unwrapOne, hun, if_true, txtFromWire_flatten, unesc_txtFromWire _ hb]
      simp [orderTag]

/-- what arrives for TXT is `Tagged` with the groups of pieces -/
theorem tagged_txtRecs (L : Nat) (gs : List (List (List Nat))) (o : Nat)
    (hg : ∀ g ∈ gs, g ≠ [] ∧ g.length ≤ SA.Gen.C09.wrapTxtStrings
      ∧ ∀ p ∈ g, p.length ≤ SA.Gen.C09.wrapChunkTxt ∧ SA.Bytes p) :
    ∃ got, answersOverWire ((txtRecs o gs).map .txt) = .ok got ∧ got.length = gs.length
      ∧ Tagged L (tagKey .txt) o got (gs.map List.flatten) := by
  induction gs generalizing o with
  | nil => exact ⟨[], rfl, rfl, Tagged.nil o⟩
  | cons g gs ih =>
    obtain ⟨h1, h2, h3⟩ := hg g (List.mem_cons_self)
    obtain ⟨r', hr1, hr2, hr3⟩ := txt_record L o g h1 h2 h3
    obtain ⟨got, hg1, hg2, hg3⟩ := ih (o + 1) (fun x hx => hg x (List.mem_cons_of_mem _ hx))
    refine ⟨r' :: got, ?_, by simp [hg2], Tagged.cons o r' _ _ _ hr2 hr3 hg3⟩
    simp only [txtRecs, List.map_cons, answersOverWire, hr1, hg1]

/-- TXT: wrapping always succeeds, every record packs, and what arrives is `Tagged` -/
theorem tagged_txt (domain data : List Nat) (hb : SA.Bytes data) :
    ∃ answers got gs, wrap .txt domain data = some answers ∧ answersOverWire answers = .ok got
      ∧ got.length = answers.length ∧ answers.length = gs.length
      ∧ gs = pieces SA.Gen.C09.wrapTxtStrings data.length (pieces SA.Gen.C09.wrapChunkTxt data.length data)
      ∧ (gs.map List.flatten).flatten = data
      ∧ Tagged domain.length (tagKey .txt) 0 got (gs.map List.flatten) := by
  have hps := pieces_bounds SA.Gen.C09.wrapChunkTxt (by decide) data.length data
  have hsub := pieces_mem_sub SA.Gen.C09.wrapChunkTxt data.length data
  have hgs := pieces_bounds SA.Gen.C09.wrapTxtStrings (by decide) data.length (pieces SA.Gen.C09.wrapChunkTxt data.length data)
  have hgsub := pieces_mem_sub SA.Gen.C09.wrapTxtStrings data.length (pieces SA.Gen.C09.wrapChunkTxt data.length data)
  have hlenps : (pieces SA.Gen.C09.wrapChunkTxt data.length data).length ≤ data.length := by
    rw [pieces_length _ (by decide) _ _ (Nat.le_refl _)]
    have : SA.Gen.C09.wrapChunkTxt = 253 := rfl
    rw [this]; omega
  generalize hgdef : pieces SA.Gen.C09.wrapTxtStrings data.length (pieces SA.Gen.C09.wrapChunkTxt data.length data) = gs at *
  obtain ⟨got, h1, h2, h3⟩ := tagged_txtRecs domain.length gs 0 (fun g hg => by
    refine ⟨(hgs g hg).1, (hgs g hg).2, fun p hp => ?_⟩
    have hpp := hgsub g hg p hp
    exact ⟨(hps p hpp).2, fun b hbp => hb b (hsub p hpp b hbp)⟩)
  refine ⟨(txtRecs 0 gs).map .txt, got, gs, ?_, h1, ?_, ?_, rfl, ?_, h3⟩
  · simp only [wrap, txtStrings_spec, hgdef]
  · rw [h2, List.length_map, txtRecs_length]
  · rw [List.length_map, txtRecs_length]
  · have hfl : gs.flatten = pieces SA.Gen.C09.wrapChunkTxt data.length data := by
      rw [← hgdef]; exact pieces_flatten _ (by decide) _ _ hlenps
    have : (gs.map List.flatten).flatten = gs.flatten.flatten := by
      clear h1 h2 h3 hgs hgsub hgdef hfl
      induction gs with
      | nil => rfl
      | cons g gs ih => simp [ih]
    rw [this, hfl]
    exact pieces_flatten _ (by decide) _ _ (Nat.le_refl _)

end SA.DnsResp

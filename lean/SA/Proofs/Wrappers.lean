/-
  Helper lemmas for C19 (SA.Model.Wrappers).
-/
import SA.Model.Wrappers
namespace SA.Wrappers

def isRes : W → Bool
  | .res .. => true
  | _ => false

/-- every flag false, every count 0 -/
def Fresh : W → Prop
  | .res _ _ _ c => c = 0
  | .safe _ flag i => flag = false ∧ Fresh i
  | .deleg i => Fresh i
  | .pair r w => Fresh r ∧ Fresh w

/-- every flag true, every count 1 -/
def Done : W → Prop
  | .res _ _ _ c => c = 1
  | .safe _ flag i => flag = true ∧ Done i
  | .deleg i => Done i
  | .pair r w => Done r ∧ Done w

/-- no bare resource is reachable except directly under a `safe` node -/
def Guarded : W → Prop
  | .res .. => False
  | .safe _ _ i => isRes i = true ∨ Guarded i
  | .deleg i => Guarded i
  | .pair r w => Guarded r ∧ Guarded w

theorem fresh_closedQ {w : W} (hg : Guarded w) (hf : Fresh w) : closedQ w = some false := by
  induction w with
  | res => exact hg.elim
  | safe k flag i _ => simp [closedQ, hf.1]
  | deleg i ih => exact ih hg hf
  | pair r w ihr ihw =>
    simp [closedQ, ihr hg.1 hf.1]

theorem done_closedQ {w : W} (hg : Guarded w) (hd : Done w) : closedQ w = some true := by
  induction w with
  | res => exact hg.elim
  | safe k flag i _ => simp [closedQ, hd.1]
  | deleg i ih => exact ih hg hd
  | pair r w ihr ihw =>
    simp [closedQ, ihr hg.1 hd.1, ihw hg.2 hd.2]

theorem done_close {w : W} (hg : Guarded w) (hd : Done w) : close w = (w, true) := by
  induction w with
  | res => exact hg.elim
  | safe k flag i _ => simp [close, hd.1]
  | deleg i ih => simp [close, ih hg hd]
  | pair r w ihr ihw =>
    simp [close, done_closedQ hg.1 hd.1, done_closedQ hg.2 hd.2]

theorem close_guarded {w : W} (hg : Guarded w) : Guarded (close w).1 := by
  induction w with
  | res => exact hg.elim
  | safe k flag i ih =>
    simp only [close]
    split
    · exact hg
    · split
      · exact hg
      · cases i with
        | res => simp [close, Guarded, isRes]
        | safe k' f' i' =>
          rcases hg with h | h
          · simp [isRes] at h
          · exact Or.inr (ih h)
        | deleg i' =>
          rcases hg with h | h
          · simp [isRes] at h
          · exact Or.inr (ih h)
        | pair a b =>
          rcases hg with h | h
          · simp [isRes] at h
          · exact Or.inr (ih h)
  | deleg i ih => exact ih hg
  | pair r w ihr ihw =>
    simp only [close]
    constructor
    · split
      · exact hg.1
      · exact ihr hg.1
    · split
      · exact hg.2
      · exact ihw hg.2

/-- closing a fresh, guarded composition closes every resource exactly once -/
theorem fresh_close_done {w : W} (hg : Guarded w) (hf : Fresh w) : Done (close w).1 := by
  induction w with
  | res => exact hg.elim
  | safe k flag i ih =>
    have hflag : flag = false := hf.1
    subst hflag
    cases i with
    | res id h f c =>
      have hc : c = 0 := hf.2
      subst hc
      by_cases hh : h = true <;> simp [close, closedQ, Done, hh]
    | safe k' f' i' =>
      rcases hg with h | h
      · simp [isRes] at h
      · have := fresh_closedQ h hf.2
        simp only [close, this]
        simp
        exact ⟨rfl, ih h hf.2⟩
    | deleg i' =>
      rcases hg with h | h
      · simp [isRes] at h
      · have := fresh_closedQ h hf.2
        simp only [close, this]
        simp
        exact ⟨rfl, ih h hf.2⟩
    | pair a b =>
      rcases hg with h | h
      · simp [isRes] at h
      · have := fresh_closedQ h hf.2
        simp only [close, this]
        simp
        exact ⟨rfl, ih h hf.2⟩
  | deleg i ih => exact ih hg hf
  | pair r w ihr ihw =>
    have h1 := fresh_closedQ hg.1 hf.1
    have h2 := fresh_closedQ hg.2 hf.2
    simp only [close, h1, h2]
    simp
    exact ⟨ihr hg.1 hf.1, ihw hg.2 hf.2⟩

theorem fresh_counts {w : W} (hf : Fresh w) : ∀ c ∈ counts w, c = 0 := by
  induction w with
  | res id h f c => intro x hx; simp [counts] at hx; rw [hx]; exact hf
  | safe k flag i ih => exact ih hf.2
  | deleg i ih => exact ih hf
  | pair r w ihr ihw =>
    intro x hx
    simp [counts] at hx
    rcases hx with h | h
    · exact ihr hf.1 x h
    · exact ihw hf.2 x h

theorem done_counts {w : W} (hd : Done w) : ∀ c ∈ counts w, c = 1 := by
  induction w with
  | res id h f c => intro x hx; simp [counts] at hx; rw [hx]; exact hd
  | safe k flag i ih => exact ih hd.2
  | deleg i ih => exact ih hd
  | pair r w ihr ihw =>
    intro x hx
    simp [counts] at hx
    rcases hx with h | h
    · exact ihr hd.1 x h
    · exact ihw hd.2 x h

theorem mkSafe_fresh {k : Kind} {w : W} (hf : Fresh w) : Fresh (mkSafe k w) := by
  cases w with
  | safe k' f i =>
    simp only [mkSafe]; split
    · exact hf
    · exact ⟨rfl, hf⟩
  | res => exact ⟨rfl, hf⟩
  | deleg => exact ⟨rfl, hf⟩
  | pair => exact ⟨rfl, hf⟩

theorem mkSafe_guarded {k : Kind} {w : W} (h : isRes w = true ∨ Guarded w) : Guarded (mkSafe k w) := by
  cases w with
  | safe k' f i =>
    simp only [mkSafe]; split
    · rcases h with h | h
      · simp [isRes] at h
      · exact h
    · exact h
  | res => exact h
  | deleg => exact h
  | pair => exact h

theorem build_fresh (d : Desc) : Fresh (build d) := by
  induction d with
  | res => rfl
  | safe k d ih => exact mkSafe_fresh ih
  | named k d ih => exact mkSafe_fresh ih
  | pair r w ihr ihw => exact ⟨mkSafe_fresh ihr, mkSafe_fresh ihw⟩
  | sim d ih => exact mkSafe_fresh ih
  | strm d ih => exact mkSafe_fresh ih

theorem build_res_or_guarded (d : Desc) : isRes (build d) = true ∨ Guarded (build d) := by
  induction d with
  | res => left; rfl
  | safe k d ih => right; exact mkSafe_guarded ih
  | named k d ih => right; exact mkSafe_guarded ih
  | pair r w ihr ihw => right; exact ⟨mkSafe_guarded ihr, mkSafe_guarded ihw⟩
  | sim d ih => right; exact mkSafe_guarded ih
  | strm d ih => right; exact mkSafe_guarded ih

theorem build_guarded (d : Desc) (hw : d.isWrapper = true) : Guarded (build d) := by
  rcases build_res_or_guarded d with h | h
  · cases d <;> simp [Desc.isWrapper] at hw
    all_goals (first | (simp [build, isRes] at h; done) | skip)
    all_goals exact (by
      first
        | exact mkSafe_guarded (build_res_or_guarded _)
        | exact ⟨mkSafe_guarded (build_res_or_guarded _), mkSafe_guarded (build_res_or_guarded _)⟩)
  · exact h

end SA.Wrappers

/-
  Helper lemmas for C19 (SA.Model.Wrappers).  Everything about `closedQG`/`closeG`/… is proved for
  the connective `true` (`&&`); SA.Props.C19 transfers it to the model of the code through the
  regenerated fact `SA.Gen.c19PairClosedAnd` (definitional unfolding — it stops type-checking
  when the fact changes).
-/
import SA.Model.Wrappers
namespace SA.Wrappers

/-- every flag false, every count 0 -/
def Fresh : W → Prop
  | .res _ _ _ c => c = 0
  | .safe _ flag i => flag = false ∧ Fresh i
  | .deleg i => Fresh i
  | .pair r w => Fresh r ∧ Fresh w

/-- every flag true, every count 1 -/
def Done : W → Prop
  | .res _ _ _ c => c = 1
  | .safe _ flag i => flag = true ∧ Done i
  | .deleg i => Done i
  | .pair r w => Done r ∧ Done w

/-- no bare resource is reachable except directly under a `safe` node -/
def Guarded : W → Prop
  | .res .. => False
  | .safe _ _ i => isRes i = true ∨ Guarded i
  | .deleg i => Guarded i
  | .pair r w => Guarded r ∧ Guarded w

/-- a bare resource, or guarded -/
def RG (w : W) : Prop := isRes w = true ∨ Guarded w

/-- "if it is a bare resource, it has not been closed" -/
def cnt0 : W → Prop
  | .res _ _ _ c => c = 0
  | _ => True

/-- the invariant of every reachable state: no count above 1; a set flag means the whole subtree
    is closed; a bare resource under a wrapper whose flag is not set has not been closed -/
def Inv : W → Prop
  | .res _ _ _ c => c ≤ 1
  | .safe _ fl i => Inv i ∧ (fl = true → Done i) ∧ (fl = false → cnt0 i)
  | .deleg i => Inv i
  | .pair r w => Inv r ∧ Inv w

/-- same shape, flags only get set, counts only grow -/
def Le : W → W → Prop
  | .res id h f c, .res id' h' f' c' => id = id' ∧ h = h' ∧ f = f' ∧ c ≤ c'
  | .safe k fl i, .safe k' fl' i' => k = k' ∧ (fl = true → fl' = true) ∧ Le i i'
  | .deleg i, .deleg i' => Le i i'
  | .pair r w, .pair r' w' => Le r r' ∧ Le w w'
  | _, _ => False

theorem cnt0_of_not_res {w : W} (h : isRes w = false) : cnt0 w := by
  cases w <;> simp [isRes] at h <;> trivial

theorem guarded_not_res {w : W} (h : Guarded w) : isRes w = false := by
  cases w <;> first | exact h.elim | rfl

theorem cnt0_of_guarded {w : W} (h : Guarded w) : cnt0 w := cnt0_of_not_res (guarded_not_res h)

theorem rg_not_res {w : W} (h : RG w) (hn : isRes w = false) : Guarded w := by
  rcases h with h | h
  · rw [hn] at h; cases h
  · exact h

/-! ### status query and close on a subtree -/

theorem done_closedQ {w : W} (hg : Guarded w) (hd : Done w) : closedQG true w = some true := by
  induction w with
  | res => exact hg.elim
  | safe k flag i _ => simp [closedQG, hd.1]
  | deleg i ih => exact ih hg hd
  | pair r w ihr ihw =>
    simp [closedQG, ihr hg.1 hd.1, ihw hg.2 hd.2]

theorem done_close {w : W} (hg : Guarded w) (hd : Done w) : closeG true w = (w, true) := by
  induction w with
  | res => exact hg.elim
  | safe k flag i _ => simp [closeG, hd.1]
  | deleg i ih => simp [closeG, ih hg hd]
  | pair r w ihr ihw =>
    simp [closeG, done_closedQ hg.1 hd.1, done_closedQ hg.2 hd.2]

/-- **"reports closed ⇒ is closed"** on a subtree (this is what fails with `||`) -/
theorem closedQ_true_done {w : W} (hi : Inv w) (hg : RG w) (h0 : cnt0 w)
    (hq : closedQG true w = some true) : Done w := by
  induction w with
  | res id h f c =>
    have : c = 0 := h0
    subst this
    cases h <;> simp [closedQG] at hq
  | safe k fl i _ =>
    simp [closedQG] at hq
    subst hq
    exact ⟨rfl, hi.2.1 rfl⟩
  | deleg i ih =>
    have h := rg_not_res hg rfl
    exact ih hi (Or.inr h) (cnt0_of_guarded h) hq
  | pair r w ihr ihw =>
    have h := rg_not_res hg rfl
    simp [closedQG] at hq
    exact ⟨ihr hi.1 (Or.inr h.1) (cnt0_of_guarded h.1) hq.1,
           ihw hi.2 (Or.inr h.2) (cnt0_of_guarded h.2) hq.2⟩

/-- closing any object in a reachable state leaves its whole subtree closed exactly once -/
theorem close_done_inv {w : W} (hi : Inv w) (hg : RG w) (h0 : cnt0 w) :
    Done (closeG true w).1 ∧ Inv (closeG true w).1 := by
  induction w with
  | res id h f c =>
    have : c = 0 := h0
    subst this
    simp [closeG, Done, Inv]
  | safe k fl i ih =>
    have h : RG i := rg_not_res hg rfl
    cases fl with
    | true =>
      have hd := hi.2.1 rfl
      simp only [closeG]
      exact ⟨⟨rfl, hd⟩, hi⟩
    | false =>
      have hc := hi.2.2 rfl
      by_cases hq : closedQG true i = some true
      · have hd := closedQ_true_done hi.1 h hc hq
        simp only [closeG, hq]
        exact ⟨⟨rfl, hd⟩, hi.1, fun _ => hd, fun e => by cases e⟩
      · have hr := ih hi.1 h hc
        simp only [closeG, hq]
        exact ⟨⟨rfl, hr.1⟩, hr.2, fun _ => hr.1, fun e => by cases e⟩
  | deleg i ih =>
    have h := rg_not_res hg rfl
    exact ih hi (Or.inr h) (cnt0_of_guarded h)
  | pair r w ihr ihw =>
    have h := rg_not_res hg rfl
    have hr := ihr hi.1 (Or.inr h.1) (cnt0_of_guarded h.1)
    have hw := ihw hi.2 (Or.inr h.2) (cnt0_of_guarded h.2)
    simp only [closeG]
    by_cases hq1 : closedQG true r = some true <;> by_cases hq2 : closedQG true w = some true
    · have d1 := closedQ_true_done hi.1 (Or.inr h.1) (cnt0_of_guarded h.1) hq1
      have d2 := closedQ_true_done hi.2 (Or.inr h.2) (cnt0_of_guarded h.2) hq2
      simp only [hq1, hq2]
      exact ⟨⟨d1, d2⟩, hi⟩
    · have d1 := closedQ_true_done hi.1 (Or.inr h.1) (cnt0_of_guarded h.1) hq1
      simp only [hq1, hq2]
      exact ⟨⟨d1, hw.1⟩, hi.1, hw.2⟩
    · have d2 := closedQ_true_done hi.2 (Or.inr h.2) (cnt0_of_guarded h.2) hq2
      simp only [hq1, hq2]
      exact ⟨⟨hr.1, d2⟩, hr.2, hi.2⟩
    · simp only [hq1, hq2]
      exact ⟨⟨hr.1, hw.1⟩, hr.2, hw.2⟩

/-! ### the order `Le` -/

theorem le_refl (w : W) : Le w w := by
  induction w with
  | res => simp [Le]
  | safe k fl i ih => exact ⟨rfl, id, ih⟩
  | deleg i ih => exact ih
  | pair r w ihr ihw => exact ⟨ihr, ihw⟩

theorem le_trans {a b c : W} (h1 : Le a b) (h2 : Le b c) : Le a c := by
  induction a generalizing b c with
  | res id h f n =>
    cases b <;> try exact h1.elim
    cases c <;> try exact h2.elim
    simp only [Le] at h1 h2 ⊢
    exact ⟨h1.1.trans h2.1, h1.2.1.trans h2.2.1, h1.2.2.1.trans h2.2.2.1, Nat.le_trans h1.2.2.2 h2.2.2.2⟩
  | safe k fl i ih =>
    cases b <;> try exact h1.elim
    cases c <;> try exact h2.elim
    exact ⟨h1.1.trans h2.1, fun e => h2.2.1 (h1.2.1 e), ih h1.2.2 h2.2.2⟩
  | deleg i ih =>
    cases b <;> try exact h1.elim
    cases c <;> try exact h2.elim
    exact ih h1 h2
  | pair r w ihr ihw =>
    cases b <;> try exact h1.elim
    cases c <;> try exact h2.elim
    exact ⟨ihr h1.1 h2.1, ihw h1.2 h2.2⟩

theorem close_le (cj : Bool) (w : W) : Le w (closeG cj w).1 := by
  induction w with
  | res => simp [closeG, Le]
  | safe k fl i ih =>
    simp only [closeG]
    split
    · exact le_refl _
    · split
      · exact ⟨rfl, fun _ => rfl, le_refl _⟩
      · exact ⟨rfl, fun _ => rfl, ih⟩
  | deleg i ih => exact ih
  | pair r w ihr ihw =>
    simp only [closeG]
    constructor
    · split
      · exact le_refl _
      · exact ihr
    · split
      · exact le_refl _
      · exact ihw

theorem closeAt_le (cj : Bool) (w : W) (p : Path) : Le w (closeAtG cj w p).1 := by
  induction w generalizing p with
  | res =>
    cases p with
    | nil => exact close_le cj _
    | cons b p => cases b <;> exact le_refl _
  | safe k fl i ih =>
    cases p with
    | nil => exact close_le cj _
    | cons b p =>
      cases b
      · exact ⟨rfl, id, ih p⟩
      · exact le_refl _
  | deleg i ih =>
    cases p with
    | nil => exact close_le cj _
    | cons b p =>
      cases b
      · exact ih p
      · exact le_refl _
  | pair r w ihr ihw =>
    cases p with
    | nil => exact close_le cj _
    | cons b p =>
      cases b
      · exact ⟨ihr p, le_refl _⟩
      · exact ⟨le_refl _, ihw p⟩

theorem le_isRes {w w' : W} (h : Le w w') : isRes w' = isRes w := by
  cases w <;> cases w' <;> first | exact h.elim | rfl

theorem le_guarded {w w' : W} (h : Le w w') (hg : Guarded w) : Guarded w' := by
  induction w generalizing w' with
  | res => exact hg.elim
  | safe k fl i ih =>
    cases w' <;> try exact h.elim
    rcases hg with hg | hg
    · exact Or.inl ((le_isRes h.2.2).trans hg)
    · exact Or.inr (ih h.2.2 hg)
  | deleg i ih =>
    cases w' <;> try exact h.elim
    simp only [Le] at h
    have := ih h hg
    exact this
  | pair r w ihr ihw =>
    cases w' <;> try exact h.elim
    exact ⟨ihr h.1 hg.1, ihw h.2 hg.2⟩

theorem sub_nil (w : W) : sub w [] = some w := by cases w <;> rfl

theorem le_sub {w w' : W} (h : Le w w') {p : Path} {t : W} (hs : sub w p = some t) :
    ∃ t', sub w' p = some t' ∧ Le t t' := by
  induction w generalizing w' p with
  | res =>
    cases p with
    | nil => simp [sub] at hs; subst hs; exact ⟨w', sub_nil w', h⟩
    | cons b p => simp [sub] at hs
  | safe k fl i ih =>
    cases p with
    | nil => simp [sub] at hs; subst hs; exact ⟨w', sub_nil w', h⟩
    | cons b p =>
      cases w' <;> try exact h.elim
      cases b
      · exact ih h.2.2 hs
      · simp [sub] at hs
  | deleg i ih =>
    cases p with
    | nil => simp [sub] at hs; subst hs; exact ⟨w', sub_nil w', h⟩
    | cons b p =>
      cases w' <;> try exact h.elim
      cases b
      · exact ih h hs
      · simp [sub] at hs
  | pair r w ihr ihw =>
    cases p with
    | nil => simp [sub] at hs; subst hs; exact ⟨w', sub_nil w', h⟩
    | cons b p =>
      cases w' <;> try exact h.elim
      cases b
      · exact ihr h.1 hs
      · exact ihw h.2 hs

/-- a closed subtree stays closed in every later state that satisfies the invariant -/
theorem done_le {t t' : W} (hd : Done t) (h : Le t t') (hi : Inv t') : Done t' := by
  induction t generalizing t' with
  | res id hh f c =>
    cases t' <;> try exact h.elim
    have h1 : c = 1 := hd
    have h2 := h.2.2.2
    have h3 : _ ≤ 1 := hi
    subst h1
    exact Nat.le_antisymm h3 h2
  | safe k fl i ih =>
    cases t' <;> try exact h.elim
    exact ⟨h.2.1 hd.1, ih hd.2 h.2.2 hi.1⟩
  | deleg i ih =>
    cases t' <;> try exact h.elim
    simp only [Le] at h
    have := ih hd h hi
    exact this
  | pair r w ihr ihw =>
    cases t' <;> try exact h.elim
    exact ⟨ihr hd.1 h.1 hi.1, ihw hd.2 h.2 hi.2⟩

/-! ### objects at a path -/

theorem wrapperAt_iff {w : W} {p : Path} :
    wrapperAt w p = true ↔ ∃ t, sub w p = some t ∧ isRes t = false := by
  unfold wrapperAt
  cases h : sub w p with
  | none => simp
  | some t => simp

theorem sub_inv {w : W} (hi : Inv w) {p : Path} {t : W} (hs : sub w p = some t) : Inv t := by
  induction w generalizing p with
  | res =>
    cases p with
    | nil => simp [sub] at hs; subst hs; exact hi
    | cons b p => simp [sub] at hs
  | safe k fl i ih =>
    cases p with
    | nil => simp [sub] at hs; subst hs; exact hi
    | cons b p =>
      cases b
      · exact ih hi.1 hs
      · simp [sub] at hs
  | deleg i ih =>
    cases p with
    | nil => simp [sub] at hs; subst hs; exact hi
    | cons b p =>
      cases b
      · exact ih hi hs
      · simp [sub] at hs
  | pair r w ihr ihw =>
    cases p with
    | nil => simp [sub] at hs; subst hs; exact hi
    | cons b p =>
      cases b
      · exact ihr hi.1 hs
      · exact ihw hi.2 hs

theorem sub_done {w : W} (hd : Done w) {p : Path} {t : W} (hs : sub w p = some t) : Done t := by
  induction w generalizing p with
  | res =>
    cases p with
    | nil => simp [sub] at hs; subst hs; exact hd
    | cons b p => simp [sub] at hs
  | safe k fl i ih =>
    cases p with
    | nil => simp [sub] at hs; subst hs; exact hd
    | cons b p =>
      cases b
      · exact ih hd.2 hs
      · simp [sub] at hs
  | deleg i ih =>
    cases p with
    | nil => simp [sub] at hs; subst hs; exact hd
    | cons b p =>
      cases b
      · exact ih hd hs
      · simp [sub] at hs
  | pair r w ihr ihw =>
    cases p with
    | nil => simp [sub] at hs; subst hs; exact hd
    | cons b p =>
      cases b
      · exact ihr hd.1 hs
      · exact ihw hd.2 hs

theorem sub_guarded {w : W} (hg : RG w) {p : Path} {t : W} (hs : sub w p = some t)
    (hn : isRes t = false) : Guarded t := by
  induction w generalizing p with
  | res =>
    cases p with
    | nil => simp [sub] at hs; subst hs; simp [isRes] at hn
    | cons b p => simp [sub] at hs
  | safe k fl i ih =>
    have h := rg_not_res hg rfl
    cases p with
    | nil => simp [sub] at hs; subst hs; exact h
    | cons b p =>
      cases b
      · exact ih h hs
      · simp [sub] at hs
  | deleg i ih =>
    have h := rg_not_res hg rfl
    cases p with
    | nil => simp [sub] at hs; subst hs; exact h
    | cons b p =>
      cases b
      · exact ih (Or.inr h) hs
      · simp [sub] at hs
  | pair r w ihr ihw =>
    have h := rg_not_res hg rfl
    cases p with
    | nil => simp [sub] at hs; subst hs; exact h
    | cons b p =>
      cases b
      · exact ihr (Or.inr h.1) hs
      · exact ihw (Or.inr h.2) hs

/-- a `Close` that changes nothing on the object changes nothing on the tree -/
theorem closeAt_fix (cj : Bool) {w : W} {p : Path} {t : W} (hs : sub w p = some t)
    (hc : closeG cj t = (t, true)) : closeAtG cj w p = (w, true) := by
  induction w generalizing p with
  | res =>
    cases p with
    | nil => simp [sub] at hs; subst hs; exact hc
    | cons b p => simp [sub] at hs
  | safe k fl i ih =>
    cases p with
    | nil => simp [sub] at hs; subst hs; exact hc
    | cons b p =>
      cases b
      · simp [closeAtG, ih hs]
      · simp [sub] at hs
  | deleg i ih =>
    cases p with
    | nil => simp [sub] at hs; subst hs; exact hc
    | cons b p =>
      cases b
      · simp [closeAtG, ih hs]
      · simp [sub] at hs
  | pair r w ihr ihw =>
    cases p with
    | nil => simp [sub] at hs; subst hs; exact hc
    | cons b p =>
      cases b
      · simp [closeAtG, ihr hs]
      · simp [closeAtG, ihw hs]

/-- closing at a path keeps the invariant of the whole tree and leaves the addressed subtree closed -/
theorem closeAt_inv {w : W} (hi : Inv w) (hg : RG w) {p : Path} (hv : wrapperAt w p = true) :
    Inv (closeAtG true w p).1 ∧ ∃ t, sub (closeAtG true w p).1 p = some t ∧ Done t := by
  obtain ⟨t0, hs0, hn0⟩ := wrapperAt_iff.mp hv
  induction w generalizing p with
  | res =>
    cases p with
    | nil => simp [sub] at hs0; subst hs0; simp [isRes] at hn0
    | cons b p => simp [sub] at hs0
  | safe k fl i ih =>
    have h : RG i := rg_not_res hg rfl
    cases p with
    | nil =>
      have := close_done_inv hi hg trivial
      exact ⟨this.2, _, sub_nil _, this.1⟩
    | cons b p =>
      cases b
      · have hs0' : sub i p = some t0 := hs0
        have hv' : wrapperAt i p = true := wrapperAt_iff.mpr ⟨t0, hs0', hn0⟩
        have hr := ih hi.1 h hv' hs0'
        have hni : isRes i = false := by
          cases i <;> first | rfl | (cases p <;> simp [sub] at hs0' ; subst hs0'; simp [isRes] at hn0)
        have hgi := rg_not_res h hni
        refine ⟨⟨hr.1, ?_, ?_⟩, hr.2⟩
        · intro e
          have hd := hi.2.1 e
          have : closeAtG true i p = (i, true) :=
            closeAt_fix true hs0' (done_close (sub_guarded h hs0' hn0) (sub_done hd hs0'))
          rw [this]; exact hd
        · intro _
          exact cnt0_of_not_res ((le_isRes (closeAt_le true i p)).trans hni)
      · simp [sub] at hs0
  | deleg i ih =>
    have h := rg_not_res hg rfl
    cases p with
    | nil =>
      have := close_done_inv hi hg trivial
      exact ⟨this.2, _, sub_nil _, this.1⟩
    | cons b p =>
      cases b
      · have hs0' : sub i p = some t0 := hs0
        exact ih hi (Or.inr h) (wrapperAt_iff.mpr ⟨t0, hs0', hn0⟩) hs0'
      · simp [sub] at hs0
  | pair r w ihr ihw =>
    have h := rg_not_res hg rfl
    cases p with
    | nil =>
      have := close_done_inv hi hg trivial
      exact ⟨this.2, _, sub_nil _, this.1⟩
    | cons b p =>
      cases b
      · have hs0' : sub r p = some t0 := hs0
        have hr := ihr hi.1 (Or.inr h.1) (wrapperAt_iff.mpr ⟨t0, hs0', hn0⟩) hs0'
        exact ⟨⟨hr.1, hi.2⟩, hr.2⟩
      · have hs0' : sub w p = some t0 := hs0
        have hr := ihw hi.2 (Or.inr h.2) (wrapperAt_iff.mpr ⟨t0, hs0', hn0⟩) hs0'
        exact ⟨⟨hi.1, hr.1⟩, hr.2⟩

/-! ### counts -/

theorem fresh_counts {w : W} (hf : Fresh w) : ∀ c ∈ counts w, c = 0 := by
  induction w with
  | res id h f c => intro x hx; simp [counts] at hx; rw [hx]; exact hf
  | safe k flag i ih => exact ih hf.2
  | deleg i ih => exact ih hf
  | pair r w ihr ihw =>
    intro x hx
    simp [counts] at hx
    rcases hx with h | h
    · exact ihr hf.1 x h
    · exact ihw hf.2 x h

theorem done_counts {w : W} (hd : Done w) : ∀ c ∈ counts w, c = 1 := by
  induction w with
  | res id h f c => intro x hx; simp [counts] at hx; rw [hx]; exact hd
  | safe k flag i ih => exact ih hd.2
  | deleg i ih => exact ih hd
  | pair r w ihr ihw =>
    intro x hx
    simp [counts] at hx
    rcases hx with h | h
    · exact ihr hd.1 x h
    · exact ihw hd.2 x h

theorem inv_counts {w : W} (hi : Inv w) : ∀ c ∈ counts w, c ≤ 1 := by
  induction w with
  | res id h f c => intro x hx; simp [counts] at hx; rw [hx]; exact hi
  | safe k flag i ih => exact ih hi.1
  | deleg i ih => exact ih hi
  | pair r w ihr ihw =>
    intro x hx
    simp [counts] at hx
    rcases hx with h | h
    · exact ihr hi.1 x h
    · exact ihw hi.2 x h

/-! ### the initial state -/

theorem fresh_inv {w : W} (hf : Fresh w) : Inv w := by
  induction w with
  | res id h f c => have : c = 0 := hf; subst this; exact Nat.zero_le 1
  | safe k fl i ih =>
    refine ⟨ih hf.2, fun e => ?_, fun _ => ?_⟩
    · rw [hf.1] at e; cases e
    · cases i <;> first | exact hf.2 | trivial
  | deleg i ih => exact ih hf
  | pair r w ihr ihw => exact ⟨ihr hf.1, ihw hf.2⟩

theorem mkSafe_fresh {k : Kind} {w : W} (hf : Fresh w) : Fresh (mkSafe k w) := by
  cases w with
  | safe k' f i =>
    simp only [mkSafe, mkSafeP]; split
    · exact hf
    · exact ⟨rfl, hf⟩
  | res => exact ⟨rfl, hf⟩
  | deleg => exact ⟨rfl, hf⟩
  | pair => exact ⟨rfl, hf⟩

theorem mkSafe_guarded {k : Kind} {w : W} (h : RG w) : Guarded (mkSafe k w) := by
  cases w with
  | safe k' f i =>
    simp only [mkSafe, mkSafeP]; split
    · exact rg_not_res h rfl
    · exact h
  | res => exact h
  | deleg => exact h
  | pair => exact h

theorem build_fresh (d : Desc) : Fresh (build d) := by
  induction d with
  | res => rfl
  | safe k d ih => exact mkSafe_fresh ih
  | named k d ih => exact mkSafe_fresh ih
  | pair r w ihr ihw => exact ⟨mkSafe_fresh ihr, mkSafe_fresh ihw⟩
  | sim d ih => exact mkSafe_fresh ih
  | strm d ih => exact mkSafe_fresh ih

theorem build_rg (d : Desc) : RG (build d) := by
  induction d with
  | res => left; rfl
  | safe k d ih => right; exact mkSafe_guarded ih
  | named k d ih => right; exact mkSafe_guarded ih
  | pair r w ihr ihw => right; exact ⟨mkSafe_guarded ihr, mkSafe_guarded ihw⟩
  | sim d ih => right; exact mkSafe_guarded ih
  | strm d ih => right; exact mkSafe_guarded ih

theorem build_guarded (d : Desc) (hw : d.isWrapper = true) : Guarded (build d) := by
  cases d with
  | res => simp [Desc.isWrapper] at hw
  | safe k d => exact mkSafe_guarded (build_rg d)
  | named k d => exact mkSafe_guarded (build_rg d)
  | pair r w => exact ⟨mkSafe_guarded (build_rg r), mkSafe_guarded (build_rg w)⟩
  | sim d => exact mkSafe_guarded (build_rg d)
  | strm d => exact mkSafe_guarded (build_rg d)

/-! ### flags: who can set them -/

/-- `q` is a prefix of `f` -/
def pre : Path → Path → Bool
  | [], _ => true
  | _ :: _, [] => false
  | a :: q, b :: f => a == b && pre q f

/-- the closed flag of the Safe* object at a path -/
def flagAt (w : W) (f : Path) : Option Bool :=
  match sub w f with
  | some (.safe _ fl _) => some fl
  | _ => none

/-- the Safe* objects (relative paths) whose flags make up an object's status: a Safe* object
    itself, the embedded one of a delegating wrapper, both halves of a pair -/
def deps : W → List Path
  | .res .. => []
  | .safe .. => [[]]
  | .deleg i => (deps i).map (false :: ·)
  | .pair r w => (deps r).map (false :: ·) ++ (deps w).map (true :: ·)

theorem flagAt_cons_safe (k fl i b f) : flagAt (.safe k fl i) (b :: f) = if b then none else flagAt i f := by
  cases b <;> simp [flagAt, sub]

theorem flagAt_cons_deleg (i b f) : flagAt (.deleg i) (b :: f) = if b then none else flagAt i f := by
  cases b <;> simp [flagAt, sub]

theorem flagAt_cons_pair (r w b f) : flagAt (.pair r w) (b :: f) = if b then flagAt w f else flagAt r f := by
  cases b <;> simp [flagAt, sub]

/-- a `Close` addressed to `q` leaves alone every flag that is neither at nor below `q` -/
theorem closeAt_flag (cj : Bool) (w : W) (q f : Path) (h : pre q f = false) :
    flagAt (closeAtG cj w q).1 f = flagAt w f := by
  induction w generalizing q f with
  | res =>
    cases q with
    | nil => simp [pre] at h
    | cons a q => cases a <;> rfl
  | safe k fl i ih =>
    cases q with
    | nil => simp [pre] at h
    | cons a q =>
      cases a
      · cases f with
        | nil => simp [closeAtG, flagAt, sub]
        | cons b f =>
          cases b
          · simp only [closeAtG, flagAt_cons_safe]
            exact ih q f (by simpa [pre] using h)
          · simp [closeAtG, flagAt_cons_safe]
      · rfl
  | deleg i ih =>
    cases q with
    | nil => simp [pre] at h
    | cons a q =>
      cases a
      · cases f with
        | nil => simp [closeAtG, flagAt, sub]
        | cons b f =>
          cases b
          · simp only [closeAtG, flagAt_cons_deleg]
            exact ih q f (by simpa [pre] using h)
          · simp [closeAtG, flagAt_cons_deleg]
      · rfl
  | pair r w ihr ihw =>
    cases q with
    | nil => simp [pre] at h
    | cons a q =>
      cases f with
      | nil => cases a <;> simp [closeAtG, flagAt, sub]
      | cons b f =>
        cases a <;> cases b
        · simp only [closeAtG, flagAt_cons_pair]
          exact ihr q f (by simpa [pre] using h)
        · simp [closeAtG, flagAt_cons_pair]
        · simp [closeAtG, flagAt_cons_pair]
        · simp only [closeAtG, flagAt_cons_pair]
          exact ihw q f (by simpa [pre] using h)

theorem flagAt_append {w t : W} {p : Path} (hs : sub w p = some t) (f : Path) :
    flagAt w (p ++ f) = flagAt t f := by
  induction w generalizing p with
  | res =>
    cases p with
    | nil => simp [sub] at hs; subst hs; rfl
    | cons b p => simp [sub] at hs
  | safe k fl i ih =>
    cases p with
    | nil => simp [sub] at hs; subst hs; rfl
    | cons b p =>
      cases b
      · simp only [List.cons_append, flagAt_cons_safe]; exact ih hs
      · simp [sub] at hs
  | deleg i ih =>
    cases p with
    | nil => simp [sub] at hs; subst hs; rfl
    | cons b p =>
      cases b
      · simp only [List.cons_append, flagAt_cons_deleg]; exact ih hs
      · simp [sub] at hs
  | pair r w ihr ihw =>
    cases p with
    | nil => simp [sub] at hs; subst hs; rfl
    | cons b p =>
      cases b
      · simp only [List.cons_append, flagAt_cons_pair]; exact ihr hs
      · simp only [List.cons_append, flagAt_cons_pair]; exact ihw hs

theorem fresh_flagAt {w : W} (hf : Fresh w) {f : Path} {fl : Bool} (h : flagAt w f = some fl) :
    fl = false := by
  induction w generalizing f with
  | res => cases f <;> simp [flagAt, sub] at h
  | safe k fl' i ih =>
    cases f with
    | nil => simp [flagAt, sub] at h; rw [← h]; exact hf.1
    | cons b f =>
      rw [flagAt_cons_safe] at h
      cases b
      · exact ih hf.2 h
      · simp at h
  | deleg i ih =>
    cases f with
    | nil => simp [flagAt, sub] at h
    | cons b f =>
      rw [flagAt_cons_deleg] at h
      cases b
      · exact ih hf h
      · simp at h
  | pair r w ihr ihw =>
    cases f with
    | nil => simp [flagAt, sub] at h
    | cons b f =>
      rw [flagAt_cons_pair] at h
      cases b
      · exact ihr hf.1 h
      · exact ihw hf.2 h

theorem deps_flag {t : W} {f : Path} (hf : f ∈ deps t) : ∃ fl, flagAt t f = some fl := by
  induction t generalizing f with
  | res => simp [deps] at hf
  | safe k fl i _ => simp [deps] at hf; subst hf; exact ⟨fl, rfl⟩
  | deleg i ih =>
    simp [deps] at hf
    obtain ⟨g, hg, rfl⟩ := hf
    simpa [flagAt_cons_deleg] using ih hg
  | pair r w ihr ihw =>
    simp [deps] at hf
    rcases hf with ⟨g, hg, rfl⟩ | ⟨g, hg, rfl⟩
    · simpa [flagAt_cons_pair] using ihr hg
    · simpa [flagAt_cons_pair] using ihw hg

/-- one of the flags that make up the status is not set ⇒ `Closed()` answers false -/
theorem closedQ_false_of_flag {t : W} {f : Path} (hf : f ∈ deps t) (h : flagAt t f = some false) :
    closedQG true t = some false := by
  induction t generalizing f with
  | res => simp [deps] at hf
  | safe k fl i _ =>
    simp [deps] at hf; subst hf
    simp [flagAt, sub] at h
    simp [closedQG, h]
  | deleg i ih =>
    simp [deps] at hf
    obtain ⟨g, hg, rfl⟩ := hf
    rw [flagAt_cons_deleg] at h
    exact ih hg (by simpa using h)
  | pair r w ihr ihw =>
    simp [deps] at hf
    rcases hf with ⟨g, hg, rfl⟩ | ⟨g, hg, rfl⟩
    · rw [flagAt_cons_pair] at h
      have := ihr hg (by simpa using h)
      simp [closedQG, this]
    · rw [flagAt_cons_pair] at h
      have := ihw hg (by simpa using h)
      simp [closedQG, this]

/-! ### runs of path-addressed ops -/

def ValidP (w : W) (ops : List (Path × Op)) : Prop := ∀ o ∈ ops, wrapperAt w o.1 = true

theorem le_wrapperAt {w w' : W} (h : Le w w') {p : Path} (hv : wrapperAt w p = true) :
    wrapperAt w' p = true := by
  obtain ⟨t, hs, hn⟩ := wrapperAt_iff.mp hv
  obtain ⟨t', hs', hl⟩ := le_sub h hs
  exact wrapperAt_iff.mpr ⟨t', hs', (le_isRes hl).trans hn⟩

theorem le_validP {w w' : W} (h : Le w w') {ops : List (Path × Op)} (hv : ValidP w ops) :
    ValidP w' ops := fun o ho => le_wrapperAt h (hv o ho)

theorem step_le (cj : Bool) (w : W) (p : Path) (op : Op) : Le w (stepAtG cj w p op).1 := by
  cases op <;> first | exact closeAt_le cj w p | exact le_refl w

theorem step_inv {w : W} (hi : Inv w) (hg : Guarded w) {p : Path} (hv : wrapperAt w p = true)
    (op : Op) : Inv (stepAtG true w p op).1 := by
  cases op <;> first | exact (closeAt_inv hi (Or.inr hg) hv).1 | exact hi

theorem runP_inv {w : W} (hi : Inv w) (hg : Guarded w) (ops : List (Path × Op)) (hv : ValidP w ops) :
    Inv (runPG true w ops).1 ∧ Guarded (runPG true w ops).1 ∧ Le w (runPG true w ops).1 := by
  induction ops generalizing w with
  | nil => exact ⟨hi, hg, le_refl w⟩
  | cons o ops ih =>
    have hl := step_le true w o.1 o.2
    have h1 := step_inv hi hg (hv o (by simp)) o.2
    have h2 := le_guarded hl hg
    have h3 : ValidP (stepAtG true w o.1 o.2).1 ops :=
      le_validP hl (fun x hx => hv x (by simp [hx]))
    have := ih h1 h2 h3
    exact ⟨this.1, this.2.1, le_trans hl this.2.2⟩

theorem runP_append (cj : Bool) (w : W) (a b : List (Path × Op)) :
    (runPG cj w (a ++ b)).1 = (runPG cj (runPG cj w a).1 b).1 := by
  induction a generalizing w with
  | nil => rfl
  | cons op a ih => simp [runPG, ih]

theorem runP_append_out (cj : Bool) (w : W) (a b : List (Path × Op)) :
    (runPG cj w (a ++ b)).2 = (runPG cj w a).2 ++ (runPG cj (runPG cj w a).1 b).2 := by
  induction a generalizing w with
  | nil => rfl
  | cons op a ih => simp [runPG, ih]

/-- a flag not at or below any `Close` of the run is what it was -/
theorem runP_flag (cj : Bool) (w : W) (ops : List (Path × Op)) (f : Path)
    (h : ∀ o ∈ ops, o.2 = Op.close → pre o.1 f = false) :
    flagAt (runPG cj w ops).1 f = flagAt w f := by
  induction ops generalizing w with
  | nil => rfl
  | cons o ops ih =>
    have h2 : ∀ x ∈ ops, x.2 = Op.close → pre x.1 f = false := fun x hx => h x (by simp [hx])
    simp only [runPG]
    rw [ih _ h2]
    obtain ⟨p, op⟩ := o
    cases op <;> first
      | exact closeAt_flag cj w p f (h (p, Op.close) (by simp) rfl)
      | rfl

theorem runP_noclose_fresh (cj : Bool) {w : W} (hf : Fresh w) (ops : List (Path × Op))
    (hn : ∀ o ∈ ops, o.2 ≠ Op.close) : Fresh (runPG cj w ops).1 := by
  induction ops generalizing w with
  | nil => exact hf
  | cons o ops ih =>
    have h1 := hn o (by simp)
    have h2 : ∀ x ∈ ops, x.2 ≠ Op.close := fun x hx => hn x (by simp [hx])
    obtain ⟨p, op⟩ := o
    have : (stepAtG cj w p op).1 = w := by cases op <;> first | exact absurd rfl h1 | rfl
    simp only [runPG, this]
    exact ih hf h2

end SA.Wrappers

/-
  Helper lemmas for SA.Props.C05 (core only).
-/
import SA.Model.TlsConfig
namespace SA.TlsConfig

/-! ### host names -/

theorem splitLastColon_none {p : Name} (hp : ∀ c ∈ p, c ≠ ':') : splitLastColon p = none := by
  induction p with
  | nil => rfl
  | cons c cs ih =>
    have h1 : c ≠ ':' := hp c (by simp)
    have h2 : ∀ d ∈ cs, d ≠ ':' := fun d hd => hp d (by simp [hd])
    simp [splitLastColon, ih h2, h1]

theorem splitLastColon_append (h p : Name) (hp : ∀ c ∈ p, c ≠ ':') :
    splitLastColon (h ++ ':' :: p) = some (h, p) := by
  induction h with
  | nil => simp [splitLastColon, splitLastColon_none hp]
  | cons c cs ih => simp [splitLastColon, ih]

/-- a host label: no ':' and no brackets -/
def Plain (s : Name) : Prop := ∀ c ∈ s, c ≠ ':' ∧ c ≠ '[' ∧ c ≠ ']'

theorem plain_of_digits {p : Name} (hp : p.all isDigit = true) : Plain p := by
  intro c hc
  have := List.all_eq_true.mp hp c hc
  simp only [isDigit, Bool.and_eq_true, decide_eq_true_eq] at this
  refine ⟨?_, ?_, ?_⟩ <;> (intro e; subst e; revert this; decide)

theorem contains_false_of {s : Name} {x : Char} (h : ∀ c ∈ s, c ≠ x) : s.contains x = false := by
  cases hc : s.contains x with
  | false => rfl
  | true => exact absurd rfl (h x (List.contains_iff_mem.mp hc))

theorem splitHostPort_hostport (h p : Name) (hh : Plain h) (hp : Plain p) :
    splitHostPort (h ++ ':' :: p) = some (h, p) := by
  have hpc : ∀ c ∈ p, c ≠ ':' := fun c hc => (hp c hc).1
  have hhead : (h ++ ':' :: p).head? ≠ some '[' := by
    cases h with
    | nil => simp
    | cons c cs => simpa using (hh c (by simp)).2.1
  have hb1 : h.contains ':' = false := contains_false_of (fun c hc => (hh c hc).1)
  have hb2 : (h ++ ':' :: p).contains '[' = false := by
    apply contains_false_of
    intro c hc
    rcases List.mem_append.mp hc with h1 | h1
    · exact (hh c h1).2.1
    · rcases List.mem_cons.mp h1 with h2 | h2
      · subst h2; decide
      · exact (hp c h2).2.1
  have hb3 : (h ++ ':' :: p).contains ']' = false := by
    apply contains_false_of
    intro c hc
    rcases List.mem_append.mp hc with h1 | h1
    · exact (hh c h1).2.2
    · rcases List.mem_cons.mp h1 with h2 | h2
      · subst h2; decide
      · exact (hp c h2).2.2
  simp only [splitHostPort, splitLastColon_append h p hpc, if_neg hhead, hb1, hb2, hb3]
  simp

theorem startTlsName_hostport (h p : Name) (hh : Plain h) (hp : Plain p) :
    startTlsName true (h ++ ':' :: p) = h := by
  simp [startTlsName, splitHostPort_hostport h p hh hp]

theorem urlHostname_hostport (h p : Name) (hh : Plain h) (hp : p.all isDigit = true) :
    urlHostname (h ++ ':' :: p) = h := by
  have hpc : ∀ c ∈ p, c ≠ ':' := fun c hc => (plain_of_digits hp c hc).1
  have hhead : h.head? ≠ some '[' := by
    cases h with
    | nil => simp
    | cons c cs => simpa using (hh c (by simp)).2.1
  simp only [urlHostname, splitLastColon_append h p hpc, hp, if_true]
  rw [if_neg]
  intro hc
  exact hhead hc.1

/-! ### cert.go -/

/-- the CA pool the `ca-certificate[-file]` option denotes (none: absent or unusable) -/
def caPool (o : Opts) : Option (List String) :=
  match readSrc o.ca .cafile with
  | .ok b => parseCAs b
  | _ => none

/- `hseed`: the pool starts empty (regenerated shape of addCaCertificates, `SA.Gen.caPoolStartsEmpty`); supplied by
   `C05_ca_pool_shape` in SA.Props.C05, so that a change of the shape breaks the theorems that rest on it and
   nothing else -/
theorem addCa_ok (hseed : poolSeed = []) {o : Opts} {conf c : TlsCfg} (hroot : conf.rootCAs = none) (hcca : conf.clientCAs = none)
    (h : addCaCertificates o conf = .ok c) :
    c.rootCAs = caPool o ∧ c.clientCAs = caPool o ∧ c.certs = conf.certs ∧
      c.insecureSkipVerify = conf.insecureSkipVerify ∧ c.clientAuth = conf.clientAuth ∧
      c.serverName = conf.serverName := by
  unfold addCaCertificates addCaCertificatesFrom at h
  rw [hseed] at h
  unfold caPool
  cases hr : readSrc o.ca .cafile with
  | err e => simp [hr] at h
  | panic => simp [hr] at h
  | ok b =>
    simp only [hr] at h
    by_cases hb : b = .nil
    · simp only [hb, if_true] at h
      cases h
      simp [hb, parseCAs, hroot, hcca]
    · simp only [hb, if_false] at h
      cases hp : parseCAs b with
      | none => simp [hp] at h
      | some pool =>
        simp only [hp] at h
        cases h
        simp [hp]

/-- whatever the pool starts from, addCaCertificates touches nothing but the two pools -/
theorem addCa_keeps {o : Opts} {conf c : TlsCfg} (h : addCaCertificates o conf = .ok c) :
    c.certs = conf.certs ∧ c.insecureSkipVerify = conf.insecureSkipVerify ∧ c.clientAuth = conf.clientAuth ∧
      c.serverName = conf.serverName := by
  unfold addCaCertificates addCaCertificatesFrom at h
  cases hr : readSrc o.ca .cafile with
  | err e => simp [hr] at h
  | panic => simp [hr] at h
  | ok b =>
    simp only [hr] at h
    by_cases hb : b = .nil
    · simp only [hb, if_true] at h
      cases h
      simp
    · simp only [hb, if_false] at h
      cases hp : parseCAs b with
      | none => simp [hp] at h
      | some pool =>
        simp only [hp] at h
        cases h
        simp

/-- the client config leaves cert.go unnamed, whatever the pool holds -/
theorem client_serverName_nil {o : Opts} {c : TlsCfg} (h : clientGetTlsConfig o = .ok c) : c.serverName = [] := by
  unfold clientGetTlsConfig at h
  cases hc : configGetTlsConfig o with
  | err e => simp [hc] at h
  | panic => simp [hc] at h
  | ok conf =>
    have hn : conf.serverName = [] := by
      unfold configGetTlsConfig at hc
      cases hk : getX509KeyPair o with
      | err e => simp [hk] at hc
      | panic => simp [hk] at hc
      | ok crt =>
        simp only [hk] at hc
        exact (addCa_keeps hc).2.2.2
    simp only [hc] at h
    cases hf : o.flag <;> simp [hf] at h <;> subst h <;> simp [hn]

/-- everything Config.GetTlsConfig leaves in the config -/
theorem config_ok (hseed : poolSeed = []) {o : Opts} {c : TlsCfg} (h : configGetTlsConfig o = .ok c) :
    c.rootCAs = caPool o ∧ c.clientCAs = caPool o ∧ c.insecureSkipVerify = false ∧
      c.clientAuth = .noClientCert ∧ c.serverName = [] := by
  unfold configGetTlsConfig at h
  cases hk : getX509KeyPair o with
  | err e => simp [hk] at h
  | panic => simp [hk] at h
  | ok crt =>
    simp only [hk] at h
    have := addCa_ok hseed (conf := { certs := crt.toList }) rfl rfl h
    simp [this]

theorem client_ok (hseed : poolSeed = []) {o : Opts} {c : TlsCfg} (h : clientGetTlsConfig o = .ok c) :
    c.rootCAs = caPool o ∧ c.insecureSkipVerify = o.flag ∧ c.serverName = [] ∧
      ∃ c0, configGetTlsConfig o = .ok c0 ∧ c.certs = c0.certs := by
  unfold clientGetTlsConfig at h
  cases hc : configGetTlsConfig o with
  | err e => simp [hc] at h
  | panic => simp [hc] at h
  | ok conf =>
    have := config_ok hseed hc
    simp only [hc] at h
    cases hf : o.flag <;> simp [hf] at h <;> subst h <;> simp [this]

theorem server_ok (hseed : poolSeed = []) {g : Bool} {o : Opts} {c : TlsCfg} (h : serverGetTlsConfig g o = .ok c) :
    ∃ c0, configGetTlsConfig o = .ok c0 ∧ c.certs = c0.certs ∧ c.clientCAs = caPool o ∧
      c.clientAuth = (if g && o.flag then .requireAndVerifyClientCert else .noClientCert) := by
  unfold serverGetTlsConfig at h
  cases hc : configGetTlsConfig o with
  | err e =>
    simp only [hc] at h
    split at h <;> cases h
  | panic => simp [hc] at h
  | ok conf =>
    have := config_ok hseed hc
    simp only [hc] at h
    refine ⟨conf, rfl, ?_⟩
    cases hg : (g && o.flag) <;> simp [hg] at h <;> subst h <;> simp [this]

/-! ## histories through one manager -/

/-- with a new object per call, an attempt neither reads nor changes the manager's state -/
theorem attemptOn_fresh (F : Facts) (o : Opts) (a : Attempt) (m : Mgr) :
    attemptOn F true o a m = ((attemptOn F true o a none).1, m) := by
  unfold attemptOn mgrGet
  cases a.asks F <;> simp
  cases clientGetTlsConfig o <;> simp

/-- a config without a session cache: crypto/tls neither reads nor writes the ticket store -/
theorem sessionWithT_noCache (X : X509) (F : Facts) (hc : F.sessionCache = none) (a : Attempt) (c : Option TlsCfg)
    (ts : List Ticket) : sessionWithT X F a c ts = (sessionWith X F a c, ts) := by
  unfold sessionWithT
  rw [hc]

/-- one step of a history over a new-object-per-call manager without session cache: the attempt made alone, and the
    rest of the history from the SAME manager state and ticket store -/
theorem runHist_cons_fresh (X : X509) (F : Facts) (hc : F.sessionCache = none) (fo : Bool) (s : Step) (ss : List Step)
    (m : Mgr) (ts : List Ticket) :
    runHist X F true fo (s :: ss) m ts =
      some (alone X F s.co s.att) ::
        (if fo && connectsWith X F s.att (alone X F s.co s.att).cfg then ss.map (fun _ => none)
         else runHist X F true fo ss m ts) := by
  have hf := attemptOn_fresh F s.co s.att (if s.newMgr then none else m)
  have hs := sessionWithT_noCache X F hc s.att (attemptOn F true s.co s.att none).1 ts
  have hm : (if s.newMgr = true then m else if s.newMgr = true then none else m) = m := by
    cases s.newMgr <;> simp
  simp only [runHist, hf, hs, alone, Bool.and_not_self, Bool.false_eq_true, if_false, hm]
  rfl

/-- every attempt that is made in a history - whatever configuration was in force for the earlier attempts, through
    the one configuration object or through objects of their own, from any state of the object and any ticket store -
    behaves as it does alone, when the object is new per call and no session cache outlives a config -/
theorem runHist_fresh (X : X509) (F : Facts) (hc : F.sessionCache = none) (fo : Bool) :
    ∀ (ss : List Step) (m : Mgr) (ts : List Ticket) (i : Nat) (out : Outcome),
      (runHist X F true fo ss m ts)[i]? = some (some out) →
      ∃ s, ss[i]? = some s ∧ out = alone X F s.co s.att := by
  intro ss
  induction ss with
  | nil => intro m ts i out h; simp [runHist] at h
  | cons s ss ih =>
    intro m ts i out h
    rw [runHist_cons_fresh X F hc] at h
    cases i with
    | zero =>
      simp only [List.getElem?_cons_zero, Option.some.injEq] at h
      exact ⟨s, rfl, h.symm⟩
    | succ i =>
      simp only [List.getElem?_cons_succ] at h
      split at h
      · simp only [List.getElem?_map] at h
        cases hh : ss[i]? <;> simp [hh] at h
      · obtain ⟨b, hb, hout⟩ := ih _ _ i out h
        exact ⟨b, by simpa using hb, hout⟩

/-- without fail-over every attempt is made, and each behaves as it does alone -/
theorem runHist_seq_fresh (X : X509) (F : Facts) (hc : F.sessionCache = none) :
    ∀ (ss : List Step) (m : Mgr) (ts : List Ticket),
      runHist X F true false ss m ts = ss.map (fun s => some (alone X F s.co s.att)) := by
  intro ss
  induction ss with
  | nil => intro m ts; rfl
  | cons s ss ih =>
    intro m ts
    rw [runHist_cons_fresh X F hc, ih]
    simp

/-- a new object that went through its upstream kind carries into the handshake exactly what the
    single-attempt model (`clientCfgFor`, `nameFor`) says -/
theorem kindWrites_fresh (F : Facts) (k : Kind) (hostport resolved : Name) (c : TlsCfg) (hn : c.serverName = []) :
    let c' := kindWrites F k hostport c
    { c' with serverName := effName k hostport resolved c' } =
      { (if forcesInsecure F.sites k then { c with insecureSkipVerify := true } else c) with
          serverName := nameFor F k hostport resolved } ∧ c'.certs = c.certs := by
  cases hfi : forcesInsecure F.sites k <;> cases k <;>
    simp [kindWrites, effName, nameFor, socketTlsName, hfi, hn] <;>
    (try (cases hs : F.setsHostname <;> cases hu : (urlHostname hostport).isEmpty <;> simp_all)) <;>
    (try (cases hz : (startTlsName F.stripsPort hostport).isEmpty <;> simp_all))

/-- the session outcome of an attempt on its own is the single-attempt model `established`, for a
    peer that answers on the carrier -/
theorem alone_est (X : X509) (F : Facts) (o : Opts) (a : Attempt) :
    (alone X F o a).est = (a.up && established X F a.kind a.hostport a.resolved o a.so) := by
  unfold alone attemptOn mgrGet established clientCfgFor
  simp only [if_true]
  cases hc : clientGetTlsConfig o with
  | err e => cases a.asks F <;> simp [sessionWith]
  | panic => cases a.asks F <;> simp [sessionWith]
  | ok c =>
    have hn := client_serverName_nil hc
    have hk := kindWrites_fresh F a.kind a.hostport a.resolved c hn
    cases hasks : a.asks F with
    | true =>
      simp only [if_true, sessionWith]
      cases hup : a.up <;> simp only [Bool.false_and, Bool.true_and]
      cases hs : serverGetTlsConfig F.guardErrNil a.so with
      | err e => cases forcesInsecure F.sites a.kind <;> simp
      | panic => cases forcesInsecure F.sites a.kind <;> simp
      | ok scfg =>
        cases hp : scfg.certs.head? with
        | none => cases forcesInsecure F.sites a.kind <;> simp [hp]
        | some peer =>
          cases hfi : forcesInsecure F.sites a.kind <;> simp only [hfi, if_true, if_false, Bool.false_eq_true] at hk ⊢ <;>
            simp only [hp] <;> rw [hk.1, hk.2]
    | false =>
      -- only StartTLS can fail to ask: the peer is down or offers no STARTTLS
      simp only [Bool.false_eq_true, if_false, sessionWith]
      cases hkind : a.kind <;> simp [Attempt.asks, hkind] at hasks
      cases hup : a.up with
      | false => simp
      | true =>
        have hoff := hasks hup
        simp only [Bool.true_and]
        unfold offersStartTls at hoff
        cases hs : serverGetTlsConfig F.guardErrNil a.so with
        | err e => cases forcesInsecure F.sites Kind.startTls <;> simp
        | panic => cases forcesInsecure F.sites Kind.startTls <;> simp
        | ok scfg =>
          simp only [hs] at hoff
          have : scfg.certs = [] := by simpa using hoff
          cases forcesInsecure F.sites Kind.startTls <;> simp [this]

end SA.TlsConfig

/-
  SA.Proofs.QueueWrap — the run that loses data with the ack-cache trimming the tree had before the
  repair (`OutQueue.cleanAckedChunks`: `q.acked = q.acked[0:MaxCachedChunks]`, fact value 0), proved by
  an inductive characterisation of the run, not by evaluation.

  Run: stop-and-wait rounds `write one byte at A; delivered exchange`, any starting sequence numbers.
    phase 1 (`Ph1`, after k ≤ 65536 rounds): A.out = [], A's cache `out.acked` is the first
      min(k,128) sequence numbers ever acknowledged (it stops changing at k = 128: every later ack is
      appended and cut off again), B has released k chunks.
    phase 2 (`Ph2`, after 65536 + j rounds, j ≤ 128): the chunk of round 65536 + j carries sequence
      number (s + j) mod 2^16, which is one of the 128 cached numbers: `NextChunk` → `cleanAckedChunks`
      removes it from `out` unsent.  A.out = [] again (the Write returns success), B still has
      released 65536 chunks.
-/
import SA.Proofs.QueueLive
namespace SA.Queue

/-- the source facts of the tree before the repair: as regenerated today, except `outTrim = 0` -/
def Cfg.keepOldest : Cfg := { max := 128, outTrim := 0, inTrim := 2, wlo := 1, whi := 128, ackOff := 1 }

local notation "kc" => Cfg.keepOldest

/-- one stop-and-wait round: A writes one byte (one chunk at mtu 1), one delivered exchange -/
def round : List Ev := [Ev.write false [7], Ev.xchg .d]
def rounds (n : Nat) : List Ev := (List.replicate n round).flatten

theorem runS_append (c : Cfg) (mtu : Nat) :
    ∀ (l1 : List Ev) (st : Sys) (l2 : List Ev), runS c mtu st (l1 ++ l2) = runS c mtu (runS c mtu st l1) l2 := by
  intro l1
  induction l1 with
  | nil => intro st l2; rfl
  | cons e es ih => intro st l2; simp only [List.cons_append, runS]; exact ih _ _

theorem rounds_succ (n : Nat) : rounds (n + 1) = round ++ rounds n := by
  simp [rounds, List.replicate_succ]

theorem rounds_add (a b : Nat) : rounds (a + b) = rounds a ++ rounds b := by
  induction a with
  | zero => simp [rounds]
  | succ a ih => rw [Nat.add_right_comm, rounds_succ, rounds_succ, ih, List.append_assoc]

/-! ### pieces of one exchange, for arbitrary facts with `max = 128` -/

theorem cleanOut_nil (acked : List Nat) : cleanOut acked [] = [] := by
  induction acked with
  | nil => rfl
  | cons w ws ih => simpa [cleanOut, eraseFirstSeq] using ih

theorem cleanOut_single_mem {acked : List Nat} {v : Nat} {d : List Nat} (h : v ∈ acked) :
    cleanOut acked [⟨v, d⟩] = [] := by
  induction acked with
  | nil => cases h
  | cons w ws ih =>
    simp only [cleanOut, List.foldl_cons, eraseFirstSeq]
    by_cases hw : v = w
    · rw [if_pos hw]; exact cleanOut_nil ws
    · rw [if_neg hw]
      have : v ∈ ws := by
        rcases List.mem_cons.mp h with h | h
        · exact absurd h hw
        · exact h
      exact ih this

theorem cleanOut_single_not_mem {acked : List Nat} {v : Nat} {d : List Nat} (h : v ∉ acked) :
    cleanOut acked [⟨v, d⟩] = [⟨v, d⟩] := by
  apply cleanOut_none
  intro w hw p hp
  simp only [List.mem_singleton] at hp
  subst hp
  intro he; apply h; rw [show v = w from he]; exact hw

theorem updateAcked_fields {c : Cfg} (o : OutQ) {v g : Nat} (h : v ∉ o.acked) :
    (o.updateAcked c v g).out = eraseFirstSeq v (cleanOut o.acked o.out) ∧
    (o.updateAcked c v g).acked = applyTrim c.outTrim c.max (o.acked ++ [v]) ∧
    (o.updateAcked c v g).next = o.next := by
  unfold OutQ.updateAcked
  rw [if_neg h]
  unfold OutQ.clean
  simp only
  rw [cleanOut_snoc]
  exact ⟨rfl, by first | rfl | trivial, by first | rfl | trivial⟩

/-- B's out-queue in these runs: nothing queued, at most the one acknowledgement A keeps sending -/
theorem updB {c : Cfg} (hmax : 1 ≤ c.max) (o : OutQ) {v g : Nat} (hout : o.out = [])
    (hack : o.acked = [] ∨ o.acked = [v]) :
    ((o.updateAcked c v g).clean c).out = [] ∧ ((o.updateAcked c v g).clean c).acked = [v] := by
  rcases hack with h | h
  · have hn : v ∉ o.acked := by rw [h]; simp
    obtain ⟨f1, f2, _⟩ := updateAcked_fields (c := c) (g := g) o hn
    unfold OutQ.clean
    simp only
    rw [f1, f2, hout, h, cleanOut_nil]
    simp only [List.nil_append]
    rw [applyTrim_noop (by simpa using hmax), applyTrim_noop (by simpa using hmax)]
    exact ⟨by simp [eraseFirstSeq, cleanOut_nil], rfl⟩
  · have hm : v ∈ o.acked := by rw [h]; simp
    have : o.updateAcked c v g = o := by unfold OutQ.updateAcked; rw [if_pos hm]
    rw [this]
    unfold OutQ.clean
    simp only
    rw [hout, h, cleanOut_nil, applyTrim_noop (by simpa using hmax)]
    exact ⟨by first | rfl | trivial, by first | rfl | trivial⟩

theorem append_inorder {c : Cfg} {i : InQ} {p : Pkt} (h1 : p.seq ∉ i.acked) (h2 : p.seq = i.next)
    (hf : i.future = []) :
    i.append c (some p) =
      ({ i.appendPacket p with acked := applyTrim c.inTrim c.max (i.acked ++ [p.seq]) }, true) := by
  unfold InQ.append
  simp only
  rw [if_neg h1, if_pos h2]
  have hf' : (i.appendPacket p).future = [] := hf
  simp only [hf', List.length_nil, InQ.drain]
  rfl

/-- facts about the state before a delivered exchange in which A's queued chunk is new to its cache -/
structure PreSend (c : Cfg) (st : Sys) (v : Nat) (d : List Nat) : Prop where
  aout : st.a.outq.out = [⟨v, d⟩]
  anm : v ∉ st.a.outq.acked
  alen : st.a.outq.acked.length ≤ c.max
  back : ackOf c ((v + 1) % MOD) = v
  bnext : st.b.inq.next = v
  bnm : v ∉ st.b.inq.acked
  bfut : st.b.inq.future = []
  bout : st.b.outq.out = []
  backd : st.b.outq.acked = [] ∨ st.b.outq.acked = [ackOf c st.a.inq.next]

theorem xchg_send {c : Cfg} (hmax : 1 ≤ c.max) {st : Sys} {v : Nat} {d : List Nat}
    (h : PreSend c st v d) :
    (xchgS c st .d).a.outq.out = [] ∧
    (xchgS c st .d).a.outq.acked = applyTrim c.outTrim c.max (st.a.outq.acked ++ [v]) ∧
    (xchgS c st .d).a.outq.next = st.a.outq.next ∧
    (xchgS c st .d).a.inq = st.a.inq ∧
    (xchgS c st .d).a.accR = st.a.accR ∧
    (xchgS c st .d).b.inq =
      { st.b.inq.appendPacket ⟨v, d⟩ with acked := applyTrim c.inTrim c.max (st.b.inq.acked ++ [v]) } ∧
    (xchgS c st .d).b.outq.out = [] ∧
    (xchgS c st .d).b.outq.acked = [ackOf c st.a.inq.next] ∧
    (xchgS c st .d).b.accR = st.b.accR := by
  -- the query
  have hq1 : (mkQuery c st.a).1.outq.out = [⟨v, d⟩] := by
    show cleanOut st.a.outq.acked st.a.outq.out = _
    rw [h.aout]; exact cleanOut_single_not_mem h.anm
  have hq2 : (mkQuery c st.a).1.outq.acked = st.a.outq.acked := by
    show applyTrim c.outTrim c.max st.a.outq.acked = _
    exact applyTrim_noop h.alen
  have hq3 : (mkQuery c st.a).1.outq.next = st.a.outq.next := rfl
  have hq4 : (mkQuery c st.a).1.inq = st.a.inq := rfl
  have hq5 : (mkQuery c st.a).1.accR = st.a.accR := rfl
  have hqp : (mkQuery c st.a).2.pkt = some ⟨v, d⟩ := by
    show ((mkQuery c st.a).1.outq.out).head? = _
    rw [hq1]; rfl
  have hqa : (mkQuery c st.a).2.ack = ackOf c st.a.inq.next := rfl
  -- B
  have happ := append_inorder (c := c) (i := st.b.inq) (p := ⟨v, d⟩) h.bnm h.bnext.symm h.bfut
  have hok : (st.b.inq.append c (mkQuery c st.a).2.pkt).2 = true := by rw [hqp, happ]
  have hsv := serve_ok (b := st.b) (q := (mkQuery c st.a).2) hok
  obtain ⟨b1, b2⟩ := updB (c := c) hmax st.b.outq (v := (mkQuery c st.a).2.ack)
    (g := (mkQuery c st.a).2.gAck) h.bout (by rw [hqa]; exact h.backd)
  rw [hqp, happ] at hsv
  simp only [xchgS]
  rw [hsv]
  simp only [clientRecv]
  rw [b1]
  simp only [List.head?_nil, InQ.append]
  -- A handles the acknowledgement of its chunk
  have hack : ackOf c ({ st.b.inq.appendPacket ⟨v, d⟩ with
      acked := applyTrim c.inTrim c.max (st.b.inq.acked ++ [v]) } : InQ).next = v := by
    show ackOf c ((st.b.inq.next + 1) % MOD) = v
    rw [h.bnext]; exact h.back
  rw [hack]
  have hnm : v ∉ (mkQuery c st.a).1.outq.acked := by rw [hq2]; exact h.anm
  obtain ⟨f1, f2, f3⟩ := updateAcked_fields (c := c)
    (g := (st.b.inq.appendPacket ⟨v, d⟩).cnt) (mkQuery c st.a).1.outq hnm
  refine ⟨?_, ?_, ?_, hq4, hq5, by first | rfl | trivial, by first | rfl | trivial, ?_, by first | rfl | trivial⟩
  · rw [f1, hq1, hq2, cleanOut_single_not_mem h.anm]; simp [eraseFirstSeq]
  · rw [f2, hq2]
  · rw [f3, hq3]
  · rw [b2, hqa]

/-- facts about the state before a delivered exchange in which A's queued chunk carries a cached number -/
structure PreDrop (c : Cfg) (st : Sys) (v : Nat) (d : List Nat) : Prop where
  aout : st.a.outq.out = [⟨v, d⟩]
  am : v ∈ st.a.outq.acked
  alen : st.a.outq.acked.length ≤ c.max
  bnm : ackOf c st.b.inq.next ∉ st.a.outq.acked
  bout : st.b.outq.out = []
  backd : st.b.outq.acked = [] ∨ st.b.outq.acked = [ackOf c st.a.inq.next]

theorem xchg_drop {c : Cfg} (hmax : 1 ≤ c.max) {st : Sys} {v : Nat} {d : List Nat}
    (h : PreDrop c st v d) :
    (xchgS c st .d).a.outq.out = [] ∧
    (xchgS c st .d).a.outq.acked = applyTrim c.outTrim c.max (st.a.outq.acked ++ [ackOf c st.b.inq.next]) ∧
    (xchgS c st .d).a.outq.next = st.a.outq.next ∧
    (xchgS c st .d).a.inq = st.a.inq ∧
    (xchgS c st .d).a.accR = st.a.accR ∧
    (xchgS c st .d).b.inq = st.b.inq ∧
    (xchgS c st .d).b.outq.out = [] ∧
    (xchgS c st .d).b.outq.acked = [ackOf c st.a.inq.next] ∧
    (xchgS c st .d).b.accR = st.b.accR := by
  -- the query: `NextChunk` → `cleanAckedChunks` drops the chunk, unsent
  have hq1 : (mkQuery c st.a).1.outq.out = [] := by
    show cleanOut st.a.outq.acked st.a.outq.out = _
    rw [h.aout]; exact cleanOut_single_mem h.am
  have hq2 : (mkQuery c st.a).1.outq.acked = st.a.outq.acked := by
    show applyTrim c.outTrim c.max st.a.outq.acked = _
    exact applyTrim_noop h.alen
  have hq3 : (mkQuery c st.a).1.outq.next = st.a.outq.next := rfl
  have hq4 : (mkQuery c st.a).1.inq = st.a.inq := rfl
  have hq5 : (mkQuery c st.a).1.accR = st.a.accR := rfl
  have hqp : (mkQuery c st.a).2.pkt = none := by
    show ((mkQuery c st.a).1.outq.out).head? = _
    rw [hq1]; rfl
  have hqa : (mkQuery c st.a).2.ack = ackOf c st.a.inq.next := rfl
  have hok : (st.b.inq.append c (mkQuery c st.a).2.pkt).2 = true := by rw [hqp]; rfl
  have hsv := serve_ok (b := st.b) (q := (mkQuery c st.a).2) hok
  obtain ⟨b1, b2⟩ := updB (c := c) hmax st.b.outq (v := (mkQuery c st.a).2.ack)
    (g := (mkQuery c st.a).2.gAck) h.bout (by rw [hqa]; exact h.backd)
  rw [hqp] at hsv
  simp only [xchgS]
  rw [hsv]
  simp only [clientRecv]
  rw [b1]
  simp only [List.head?_nil, InQ.append]
  have hnm : ackOf c st.b.inq.next ∉ (mkQuery c st.a).1.outq.acked := by rw [hq2]; exact h.bnm
  obtain ⟨f1, f2, f3⟩ := updateAcked_fields (c := c) (g := st.b.inq.cnt) (mkQuery c st.a).1.outq hnm
  refine ⟨?_, ?_, ?_, hq4, hq5, by first | rfl | trivial, by first | rfl | trivial, ?_, by first | rfl | trivial⟩
  · rw [f1, hq1, cleanOut_nil]; rfl
  · rw [f2, hq2]
  · rw [f3, hq3]
  · rw [b2, hqa]

/-! ### the run with keep-oldest trimming -/

theorem writeEnd_one {e : End} (h : e.outq.out = []) :
    writeEnd 1 e [7] = { e with outq := e.outq.addChunk [7], accR := [7] :: e.accR, pend := some 1 } := by
  unfold writeEnd
  rw [if_neg (by simp [h])]
  rfl

theorem trim0_full {l : List Nat} (h : l.length = 128) (x : Nat) : applyTrim 0 128 (l ++ [x]) = l := by
  unfold applyTrim
  have h1 : (l ++ [x]).length > 128 := by simp [h]
  rw [if_pos h1, if_pos rfl, List.take_append_of_le_length (by omega), List.take_of_length_le (by omega)]

theorem trim0_range (f : Nat → Nat) (k : Nat) :
    applyTrim 0 128 ((List.range' 0 (min k 128)).map f ++ [f k]) = (List.range' 0 (min (k + 1) 128)).map f := by
  by_cases h : 128 ≤ k
  · have h1 : min k 128 = 128 := Nat.min_eq_right h
    have h2 : min (k + 1) 128 = 128 := Nat.min_eq_right (by omega)
    rw [h1, h2]
    exact trim0_full (by simp) _
  · have h1 : min k 128 = k := Nat.min_eq_left (by omega)
    have h2 : min (k + 1) 128 = k + 1 := Nat.min_eq_left (by omega)
    rw [h1, h2, applyTrim_noop (by simp; omega), List.range'_concat, List.map_append]
    simp

theorem flat_len (n x : Nat) : ((List.replicate n [x]).reverse.flatten).length = n := by
  induction n with
  | zero => rfl
  | succ n _ => simp [List.replicate_succ]

/-- the state after `k ≤ 65536` rounds -/
structure Ph1 (s sba k : Nat) (st : Sys) : Prop where
  anext : st.a.outq.next = seqOf s k
  aout : st.a.outq.out = []
  /-- A's ack cache: the first min(k,128) numbers ever acknowledged -/
  aack : st.a.outq.acked = (List.range' 0 (min k 128)).map (seqOf s)
  ainext : st.a.inq.next = sba
  aacc : st.a.accR = List.replicate k [7]
  bnext : st.b.inq.next = seqOf s k
  bcnt : st.b.inq.cnt = k
  bfut : st.b.inq.future = []
  back : InAck kc s st.b.inq
  brel : st.b.inq.relR = List.replicate k [7]
  bout : st.b.outq.out = []
  backd : st.b.outq.acked = [] ∨ st.b.outq.acked = [ackOf kc sba]

/-- one round = `runS` over `round` -/
def oneRound (st : Sys) : Sys := xchgS kc (stepS kc 1 st (.write false [7])) .d

theorem runS_round (st : Sys) (l : List Ev) : runS kc 1 st (round ++ l) = runS kc 1 (oneRound st) l := rfl

theorem ph1_round {s sba k : Nat} {st : Sys} (h : Ph1 s sba k st) (hk : k < MOD) :
    Ph1 s sba (k + 1) (oneRound st) := by
  have hw : stepS kc 1 st (.write false [7]) =
      { st with a := { st.a with outq := st.a.outq.addChunk [7], accR := [7] :: st.a.accR, pend := some 1 } } := by
    simp only [stepS]; rw [writeEnd_one h.aout]
  have hpre : PreSend kc (stepS kc 1 st (.write false [7])) (seqOf s k) [7] := by
    rw [hw]
    refine ⟨?_, ?_, ?_, ?_, h.bnext, ?_, h.bfut, h.bout, ?_⟩
    · show st.a.outq.out ++ [⟨st.a.outq.next, [7]⟩] = _
      rw [h.aout, h.anext]; rfl
    · show seqOf s k ∉ st.a.outq.acked
      rw [h.aack]
      intro hm
      obtain ⟨j, hj, he⟩ := List.mem_map.mp hm
      rw [List.mem_range'_1] at hj
      unfold seqOf at he
      omega
    · show st.a.outq.acked.length ≤ 128
      rw [h.aack]; simp; omega
    · show ((seqOf s k + 1) % MOD + MOD - 1 % MOD) % MOD = seqOf s k
      unfold seqOf; omega
    · have := h.back.not_next (show Cfg.keepOldest.max < MOD by decide)
      rw [h.bcnt] at this; exact this
    · show st.b.outq.acked = [] ∨ st.b.outq.acked = [ackOf kc st.a.inq.next]
      rw [h.ainext]; exact h.backd
  obtain ⟨x1, x2, x3, x4, x5, x6, x7, x8, _⟩ := xchg_send (c := kc) (by decide) hpre
  have e1 : (stepS kc 1 st (.write false [7])).a.outq = st.a.outq.addChunk [7] := by rw [hw]
  have e2 : (stepS kc 1 st (.write false [7])).a.accR = [7] :: st.a.accR := by rw [hw]
  have e3 : (stepS kc 1 st (.write false [7])).a.inq = st.a.inq := by rw [hw]
  have e4 : (stepS kc 1 st (.write false [7])).b = st.b := by rw [hw]
  rw [e1] at x2 x3
  rw [e3] at x4 x8
  rw [e2] at x5
  rw [e4] at x6
  have hpost : (st.b.inq.append kc (some ⟨seqOf s k, [7]⟩)).1 = (oneRound st).b.inq := by
    rw [append_inorder (c := kc) (i := st.b.inq) (p := ⟨seqOf s k, [7]⟩)
      (by have := h.back.not_next (show Cfg.keepOldest.max < MOD by decide); rw [h.bcnt] at this; exact this)
      h.bnext.symm h.bfut]
    exact x6.symm
  have hinack : InAck kc s (oneRound st).b.inq := by
    rw [← hpost]
    refine h.back.append rfl (by rw [h.bnext, h.bcnt]) h.bfut _ ?_
    rw [hpost]; unfold oneRound; rw [x6]; exact h.bfut
  unfold oneRound at hinack ⊢
  refine ⟨?_, x1, ?_, ?_, ?_, ?_, ?_, ?_, hinack, ?_, x7, ?_⟩
  · rw [x3]
    show (st.a.outq.next + 1) % MOD = _
    rw [h.anext]; unfold seqOf; omega
  · rw [x2]
    show applyTrim 0 128 (st.a.outq.acked ++ [seqOf s k]) = _
    rw [h.aack]; exact trim0_range _ _
  · rw [x4]; exact h.ainext
  · rw [x5]
    show [7] :: st.a.accR = _
    rw [h.aacc, List.replicate_succ]
  · rw [x6]
    show (st.b.inq.next + 1) % MOD = _
    rw [h.bnext]; unfold seqOf; omega
  · rw [x6]
    show st.b.inq.cnt + 1 = _
    rw [h.bcnt]
  · rw [x6]; exact h.bfut
  · rw [x6]
    show [7] :: st.b.inq.relR = _
    rw [h.brel, List.replicate_succ]
  · rw [x8]
    show Or _ ([ackOf kc st.a.inq.next] = _)
    rw [h.ainext]; exact Or.inr rfl

theorem ph1_run {s sba : Nat} : ∀ (n k : Nat) (st : Sys), Ph1 s sba k st → k + n ≤ MOD →
    Ph1 s sba (k + n) (runS kc 1 st (rounds n)) := by
  intro n
  induction n with
  | zero => intro k st h _; exact h
  | succ n ih =>
    intro k st h hk
    rw [rounds_succ, runS_round]
    have := ih (k + 1) (oneRound st) (ph1_round h (by omega)) (by omega)
    rw [Nat.add_right_comm] at this
    exact this

theorem ph1_init {s sba : Nat} (hs : s < MOD) : Ph1 s sba 0 (init s sba) := by
  refine ⟨?_, rfl, rfl, rfl, rfl, ?_, rfl, rfl, by simp [InAck, init], rfl, rfl, Or.inl rfl⟩
  · show s = seqOf s 0
    unfold seqOf; omega
  · show s = seqOf s 0
    unfold seqOf; omega

/-- the state after `n + j` rounds, `n = 65536`, `j ≤ 128` -/
structure Ph2 (s sba n j : Nat) (st : Sys) : Prop where
  anext : st.a.outq.next = seqOf s j
  aout : st.a.outq.out = []
  /-- A's ack cache: still the first 128 numbers ever acknowledged -/
  aack : st.a.outq.acked = (List.range' 0 128).map (seqOf s)
  ainext : st.a.inq.next = sba
  aacc : st.a.accR = List.replicate (n + j) [7]
  bnext : st.b.inq.next = s
  brel : st.b.inq.relR = List.replicate n [7]
  bout : st.b.outq.out = []
  backd : st.b.outq.acked = [] ∨ st.b.outq.acked = [ackOf kc sba]

theorem ph1_to_ph2 {s sba n : Nat} {st : Sys} (hs : s < MOD) (hn : n = MOD) (h : Ph1 s sba n st) :
    Ph2 s sba n 0 st := by
  refine ⟨?_, h.aout, ?_, h.ainext, h.aacc, ?_, h.brel, h.bout, h.backd⟩
  · rw [h.anext]; unfold seqOf; omega
  · rw [h.aack, Nat.min_eq_right (by omega)]
  · rw [h.bnext]; unfold seqOf; omega

theorem ph2_round {s sba n j : Nat} {st : Sys} (hs : s < MOD) (h : Ph2 s sba n j st) (hj : j < 128) :
    Ph2 s sba n (j + 1) (oneRound st) := by
  have hw : stepS kc 1 st (.write false [7]) =
      { st with a := { st.a with outq := st.a.outq.addChunk [7], accR := [7] :: st.a.accR, pend := some 1 } } := by
    simp only [stepS]; rw [writeEnd_one h.aout]
  have hpre : PreDrop kc (stepS kc 1 st (.write false [7])) (seqOf s j) [7] := by
    rw [hw]
    refine ⟨?_, ?_, ?_, ?_, h.bout, ?_⟩
    · show st.a.outq.out ++ [⟨st.a.outq.next, [7]⟩] = _
      rw [h.aout, h.anext]; rfl
    · show seqOf s j ∈ st.a.outq.acked
      rw [h.aack]
      exact List.mem_map.mpr ⟨j, List.mem_range'_1.mpr (by omega), rfl⟩
    · show st.a.outq.acked.length ≤ 128
      rw [h.aack]; simp
    · show (st.b.inq.next + MOD - 1 % MOD) % MOD ∉ st.a.outq.acked
      rw [h.aack, h.bnext]
      intro hm
      obtain ⟨i, hi, he⟩ := List.mem_map.mp hm
      rw [List.mem_range'_1] at hi
      unfold seqOf at he
      omega
    · show st.b.outq.acked = [] ∨ st.b.outq.acked = [ackOf kc st.a.inq.next]
      rw [h.ainext]; exact h.backd
  obtain ⟨x1, x2, x3, x4, x5, x6, x7, x8, _⟩ := xchg_drop (c := kc) (by decide) hpre
  have e1 : (stepS kc 1 st (.write false [7])).a.outq = st.a.outq.addChunk [7] := by rw [hw]
  have e2 : (stepS kc 1 st (.write false [7])).a.accR = [7] :: st.a.accR := by rw [hw]
  have e3 : (stepS kc 1 st (.write false [7])).a.inq = st.a.inq := by rw [hw]
  have e4 : (stepS kc 1 st (.write false [7])).b = st.b := by rw [hw]
  rw [e1] at x2 x3
  rw [e3] at x4 x8
  rw [e2] at x5
  rw [e4] at x6
  unfold oneRound
  refine ⟨?_, x1, ?_, ?_, ?_, ?_, ?_, x7, ?_⟩
  · rw [x3]
    show (st.a.outq.next + 1) % MOD = _
    rw [h.anext]; unfold seqOf; omega
  · rw [x2]
    show applyTrim 0 128 (st.a.outq.acked ++ [_]) = _
    rw [h.aack]; exact trim0_full (by simp) _
  · rw [x4]; exact h.ainext
  · rw [x5]
    show [7] :: st.a.accR = _
    rw [h.aacc, ← Nat.add_assoc, List.replicate_succ]
  · rw [x6]; exact h.bnext
  · rw [x6]; exact h.brel
  · rw [x8]
    show Or _ ([ackOf kc st.a.inq.next] = _)
    rw [h.ainext]; exact Or.inr rfl

theorem ph2_run {s sba n : Nat} (hs : s < MOD) : ∀ (m j : Nat) (st : Sys), Ph2 s sba n j st → j + m ≤ 128 →
    Ph2 s sba n (j + m) (runS kc 1 st (rounds m)) := by
  intro m
  induction m with
  | zero => intro j st h _; exact h
  | succ m ih =>
    intro j st h hj
    rw [rounds_succ, runS_round]
    have := ih (j + 1) (oneRound st) (ph2_round hs h (by omega)) (by omega)
    rw [Nat.add_right_comm] at this
    exact this

/-- the buggy run, symbolically: after `65536 + j` rounds (`j ≤ 128`) from any starting numbers, A's
    out-queue is empty (every Write has returned success), `65536 + j` bytes were accepted and B has
    released exactly the first `65536` -/
theorem wrap_state {s sba n : Nat} (hs : s < MOD) (hn : n = MOD) (j : Nat) (hj : j ≤ 128) :
    Ph2 s sba n j (runS kc 1 (init s sba) (rounds (n + j))) := by
  rw [rounds_add, runS_append]
  have h1 := ph1_run n 0 (init s sba) (ph1_init hs) (by omega)
  rw [Nat.zero_add] at h1
  have h2 := ph2_run hs j 0 _ (ph1_to_ph2 hs hn h1) (by omega)
  rw [Nat.zero_add] at h2
  exact h2

theorem wrap_counts {s sba n : Nat} (hs : s < MOD) (hn : n = MOD) (j : Nat) (hj : j ≤ 128) :
    (runS kc 1 (init s sba) (rounds (n + j))).a.outq.out = [] ∧
    (runS kc 1 (init s sba) (rounds (n + j))).b.inq.rel.length = n ∧
    (runS kc 1 (init s sba) (rounds (n + j))).a.acc.length = n + j := by
  have h := wrap_state (sba := sba) hs hn j hj
  refine ⟨h.aout, ?_, ?_⟩
  · unfold InQ.rel; rw [h.brel]; exact flat_len _ _
  · unfold End.acc; rw [h.aacc]; exact flat_len _ _

theorem rounds_ok (n : Nat) : (rounds n).all (evOk 1 0 1) = true := by
  rw [List.all_eq_true]
  intro e he
  obtain ⟨l, hl, hel⟩ := List.mem_flatten.mp he
  obtain ⟨_, rfl⟩ := List.mem_replicate.mp hl
  simp only [round, List.mem_cons, List.not_mem_nil, or_false] at hel
  rcases hel with rfl | rfl <;> decide

end SA.Queue

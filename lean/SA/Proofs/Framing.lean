/-
  Helper lemmas for C01 (SA.Model.Framing): every layer conserves the byte stream.
-/
import SA.Model.Framing
namespace SA.Framing

theorem srcRead_conserve (s : Src) (n : Nat) :
    (srcRead s n).1 ++ (srcRead s n).2.flatten = s.flatten := by
  induction s with
  | nil => simp [srcRead]
  | cons c rest ih =>
    cases c with
    | nil => simpa [srcRead] using ih
    | cons b bs =>
      simp only [srcRead]
      split
      · simp
      · simp only [List.flatten_cons]
        rw [← List.append_assoc, List.take_append_drop]

theorem srcRead_len (s : Src) (n : Nat) : (srcRead s n).1.length ≤ n ∨ (srcRead s n).1 = [] := by
  induction s with
  | nil => right; simp [srcRead]
  | cons c rest ih =>
    cases c with
    | nil => simpa [srcRead] using ih
    | cons b bs =>
      simp only [srcRead]
      split
      · left; assumption
      · left; simp [List.length_take]; omega

theorem srcRead_progress (s : Src) (n : Nat) (hn : 0 < n) (hc : s.flatten ≠ []) :
    (srcRead s n).1 ≠ [] := by
  induction s with
  | nil => simp at hc
  | cons c rest ih =>
    cases c with
    | nil => simp only [srcRead]; exact ih (by simpa using hc)
    | cons b bs =>
      simp only [srcRead]
      split
      · simp
      · cases n with
        | zero => omega
        | succ k => simp

theorem bufRead_conserve (size : Nat) (b : Buf) (n : Nat) :
    (bufRead size b n).1 ++ (bufRead size b n).2.content = b.content := by
  unfold bufRead Buf.content
  split
  · simp [← List.append_assoc]
  · rename_i h
    have hb : b.buf = [] := by simpa using h
    split
    · simp [hb, srcRead_conserve]
    · simp only [hb, List.nil_append]
      rw [← List.append_assoc, List.take_append_drop, srcRead_conserve]

theorem bufRead_progress (size : Nat) (hs : 0 < size) (b : Buf) (n : Nat) (hn : 0 < n)
    (hc : b.content ≠ []) : (bufRead size b n).1 ≠ [] := by
  unfold bufRead
  split
  · rename_i h
    cases hb : b.buf with
    | nil => simp [hb] at h
    | cons x xs => cases n with
      | zero => omega
      | succ k => simp
  · rename_i h
    have hb : b.buf = [] := by simpa using h
    have hsrc : b.src.flatten ≠ [] := by simpa [Buf.content, hb] using hc
    split
    · exact srcRead_progress _ _ hn hsrc
    · have := srcRead_progress b.src size hs hsrc
      cases hr : (srcRead b.src size).1 with
      | nil => exact absurd hr this
      | cons x xs => cases n with
        | zero => omega
        | succ k => simp [hr]

theorem wsWrite_flatten (size : Nat) (p : List Nat) : (wsWrite size p).flatten = p := by
  induction h : p.length using Nat.strongRecOn generalizing p with
  | _ k ih =>
    unfold wsWrite
    split
    · simp
    · split
      · simp
      · rename_i hsz hlen
        simp only [List.flatten_cons]
        rw [ih (p.drop size).length (by simp [← h]; omega) _ rfl, List.take_append_drop]

theorem wsWrite_le (size : Nat) (hs : 0 < size) (p : List Nat) : ∀ m ∈ wsWrite size p, m.length ≤ size := by
  induction h : p.length using Nat.strongRecOn generalizing p with
  | _ k ih =>
    unfold wsWrite
    split
    · omega
    · split
      · intro m hm; simp at hm; subst hm; assumption
      · rename_i hsz hlen
        intro m hm
        simp at hm
        rcases hm with hm | hm
        · subst hm; simp [List.length_take]; omega
        · exact ih (p.drop size).length (by simp [← h]; omega) _ rfl m hm

/-- with the tail kept, a websocket read never fails and conserves the stream -/
theorem wsRead_keeps (w : Ws) (n : Nat) :
    (wsRead true w n).1 ≠ .err ∧
    (∀ bs, (wsRead true w n).1 = .data bs → bs ++ (wsRead true w n).2.content = w.content) ∧
    ((wsRead true w n).1 = .eof → w.content = []) := by
  unfold wsRead Ws.content
  split
  · refine ⟨by simp, ?_, by simp⟩
    intro bs h
    simp at h; subst h
    simp [← List.append_assoc]
  · rename_i h
    have hp : w.pending = [] := by simpa using h
    cases hm : w.msgs with
    | nil => simp [hp]
    | cons m rest =>
      simp only []
      split
      · refine ⟨by simp, ?_, by simp⟩
        intro bs h; simp at h; subst h; simp [hp]
      · refine ⟨by simp, ?_, by simp⟩
        intro bs h; simp at h; subst h
        simp [hp, ← List.append_assoc]

theorem copyLoop_flatten (bufSize : Nat) (hb : 0 < bufSize) (s : Src) (fuel : Nat)
    (hf : s.flatten.length < fuel) : (copyLoop bufSize fuel s).flatten = s.flatten := by
  induction fuel generalizing s with
  | zero => omega
  | succ k ih =>
    simp only [copyLoop]
    have hc := srcRead_conserve s bufSize
    split
    · rename_i h
      by_cases he : s.flatten = []
      · simp [he]
      · exact absurd h (srcRead_progress s bufSize hb he)
    · rename_i h
      simp only [List.flatten_cons]
      have hlen : (srcRead s bufSize).2.flatten.length < k := by
        have : (srcRead s bufSize).1.length + (srcRead s bufSize).2.flatten.length = s.flatten.length := by
          rw [← List.length_append, hc]
        have hpos : 0 < (srcRead s bufSize).1.length := List.length_pos_iff.mpr h
        omega
      rw [ih _ hlen, hc]

end SA.Framing

/-
  SA.Proofs.DnsReq — every request decodes to itself (header, body, command dispatch), and its
  encoding only uses bytes that are safe inside a DNS name.
-/
import SA.Proofs.DnsWire
import SA.Model.DnsReq

namespace SA.DnsReq
open SA.DnsWire SA.WireCodec

def SafeByte (b : Nat) : Prop := b ≠ 46 ∧ b ≠ 92 ∧ b < 256

instance (b : Nat) : Decidable (SafeByte b) := by unfold SafeByte; infer_instance

/-- the field ranges of the property's quantifier -/
def ReqOk : Req → Prop
  | .version ver => ver < 4294967296
  | .options uid _ _ _ down up frag =>
    uid < SA.Gen.C09.maxUserId ∧ (∀ d, down = some d → d ∈ registryCodes) ∧ (∀ u, up = some u → u ∈ registryCodes)
      ∧ (∀ f, frag = some f → f < 4294967295)
  | .packet uid ack pkt => uid < SA.Gen.C09.maxUserId ∧ ack < 65536 ∧ (∀ p, pkt = some p → p.1 < 65536 ∧ SA.Bytes p.2)
  | .downEnc code => code ∈ registryCodes
  | .upEnc uid pattern => uid < SA.Gen.C09.maxUserId ∧ ∀ b ∈ pattern, SafeByte b
  | .fragSize uid frag => uid < SA.Gen.C09.maxUserId ∧ frag < 4294967296

/-- the three cache-busting characters: any three name-safe bytes (the code draws them from a–z0–9) -/
def CacheOk (cache : List Nat) : Prop := cache.length = 3 ∧ ∀ b ∈ cache, SafeByte b

theorem registry_facts : ∀ c ∈ registryCodes, fromCode c = some c ∧ SafeByte c ∧ c ≠ 32 := by decide

theorem bytes_le16 (x : Nat) : SA.Bytes (le16 x) := by
  intro b hb; simp [le16] at hb; omega

theorem bytes_le32 (x : Nat) : SA.Bytes (le32 x) := by
  intro b hb; simp [le32] at hb; omega

theorem bytes_append {a b : List Nat} (ha : SA.Bytes a) (hb : SA.Bytes b) : SA.Bytes (a ++ b) := by
  intro x hx
  rcases List.mem_append.mp hx with h | h
  · exact ha x h
  · exact hb x h

theorem bytes_cons {a : Nat} {b : List Nat} (ha : a < 256) (hb : SA.Bytes b) : SA.Bytes (a :: b) := by
  intro x hx
  rcases List.mem_cons.mp hx with h | h
  · subst h; exact ha
  · exact hb x h

theorem bytes_nil : SA.Bytes [] := by intro x hx; simp at hx

theorem triByte_lt (t : Option Bool) : triByte t < 256 := by
  cases t with
  | none => decide
  | some b => cases b <;> decide

theorem rd16_le16 (x : Nat) (h : x < 65536) (rest : List Nat) : rd16 (le16 x ++ rest) = some (x, rest) := by
  simp [rd16, le16]; omega

theorem rd32_le32 (x : Nat) (h : x < 4294967296) (rest : List Nat) : rd32 (le32 x ++ rest) = some (x, rest) := by
  simp [rd32, le32]; omega

theorem rd32_le32' (x : Nat) (h : x < 4294967296) : rd32 (le32 x) = some (x, []) := by
  simpa using rd32_le32 x h []

theorem base36Val_digit (d : Nat) (h : d < 36) : base36Val (base36Digit d) = some d := by
  unfold base36Digit base36Val
  by_cases h10 : d < 10
  · simp [h10]; omega
  · simp only [h10, if_false]
    have h1 : ¬ (48 ≤ 87 + d ∧ 87 + d ≤ 57) := by omega
    have h2 : (97 ≤ 87 + d ∧ 87 + d ≤ 122) := by omega
    simp [h1, h2]

theorem base36Digit_safe (d : Nat) (h : d < 36) : SafeByte (base36Digit d) := by
  unfold base36Digit SafeByte
  by_cases h10 : d < 10 <;> simp [h10] <;> omega

theorem maxUserId_eq : SA.Gen.C09.maxUserId = 36 * 36 := by decide

theorem encodeUserId_safe (uid : Nat) : ∀ b ∈ encodeUserId uid, SafeByte b := by
  have hm := maxUserId_eq
  have hlt : uid % SA.Gen.C09.maxUserId < 36 * 36 := by rw [hm]; exact Nat.mod_lt _ (by decide)
  intro b hb
  simp [encodeUserId] at hb
  rcases hb with rfl | rfl
  · exact base36Digit_safe _ (by omega)
  · exact base36Digit_safe _ (Nat.mod_lt _ (by decide))

theorem decodeHeader_uid (code c1 c2 c3 uid : Nat) (tail : List Nat)
    (hn : needsUserId code = true) (hu : uid < SA.Gen.C09.maxUserId) :
    decodeHeader code (code :: c1 :: c2 :: c3 :: (encodeUserId uid ++ tail)) = .ok (tail, uid) := by
  have hm := maxUserId_eq
  have hmod : uid % SA.Gen.C09.maxUserId = uid := Nat.mod_eq_of_lt hu
  unfold decodeHeader
  simp only [List.length_cons, hn, if_true, List.drop_succ_cons, List.drop_zero, encodeUserId, hmod,
    List.cons_append, List.nil_append]
  have h1 : ¬ (tail.length + 1 + 1 + 1 + 1 + 1 + 1 < 4) := by omega
  rw [if_neg (by simp)]
  rw [base36Val_digit _ (by omega), base36Val_digit _ (Nat.mod_lt _ (by decide))]
  simp; omega

theorem decodeHeader_nouid (code c1 c2 c3 : Nat) (tail : List Nat) (hn : needsUserId code = false) :
    decodeHeader code (code :: c1 :: c2 :: c3 :: tail) = .ok (tail, 0) := by
  unfold decodeHeader
  simp [hn]

theorem encodeHeader_safe (code : Nat) (hcode : SafeByte code) (cache : List Nat)
    (hc : ∀ b ∈ cache, SafeByte b) (uid : Nat) : ∀ b ∈ encodeHeader code cache uid, SafeByte b := by
  intro b hb
  unfold encodeHeader at hb
  rcases List.mem_cons.mp hb with rfl | hb
  · exact hcode
  · rcases List.mem_append.mp hb with hb | hb
    · exact hc b hb
    · by_cases hn : needsUserId code = true
      · rw [if_pos hn] at hb; exact encodeUserId_safe uid b hb
      · rw [if_neg hn] at hb; simp at hb

theorem codeOpt_lt (d : Option Nat) (h : ∀ x, d = some x → x ∈ registryCodes) : d.getD 32 < 256 := by
  cases d with
  | none => decide
  | some x => exact (registry_facts x (h x rfl)).2.1.2.2

/-- everything the client writes in front of the domain is name-safe -/
theorem encodeReq_safe (b32 up : Codec) (sb : b32.Safe) (su : up.Safe) (cache : List Nat)
    (hc : ∀ b ∈ cache, SafeByte b) (r : Req) (hr : ReqOk r) :
    ∀ b ∈ encodeReq b32 up cache r, SafeByte b := by
  intro b hb
  cases r with
  | version ver =>
    rcases List.mem_append.mp hb with hb | hb
    · exact encodeHeader_safe 118 (by decide) cache hc 0 b hb
    · exact sb.safe _ (bytes_le32 ver) b hb
  | options uid l m c down upc frag =>
    rcases List.mem_append.mp hb with hb | hb
    · exact encodeHeader_safe 111 (by decide) cache hc uid b hb
    · obtain ⟨_, hd, hup, _⟩ := hr
      exact sb.safe _ (bytes_append (bytes_cons (triByte_lt l) (bytes_cons (triByte_lt m) (bytes_cons (triByte_lt c)
        (bytes_cons (codeOpt_lt down hd) (bytes_cons (codeOpt_lt upc hup) bytes_nil))))) (bytes_le32 _)) b hb
  | packet uid ack pkt =>
    rcases List.mem_append.mp hb with hb | hb
    · exact encodeHeader_safe 99 (by decide) cache hc uid b hb
    · refine su.safe _ (bytes_append (bytes_le16 ack) ?_) b hb
      cases pkt with
      | none => exact bytes_cons (by decide) bytes_nil
      | some p => exact bytes_cons (by decide) (bytes_append (bytes_le16 p.1) (hr.2.2 p rfl).2)
  | downEnc code =>
    rcases List.mem_append.mp hb with hb | hb
    · exact encodeHeader_safe 121 (by decide) cache hc 0 b hb
    · simp at hb; subst hb; exact (registry_facts _ hr).2.1
  | upEnc uid pattern =>
    rcases List.mem_append.mp hb with hb | hb
    · exact encodeHeader_safe 122 (by decide) cache hc uid b hb
    · exact hr.2 b hb
  | fragSize uid frag =>
    rcases List.mem_append.mp hb with hb | hb
    · exact encodeHeader_safe 114 (by decide) cache hc uid b hb
    · exact sb.safe _ (bytes_le32 frag) b hb

theorem encodeReq_ne_nil (b32 up : Codec) (cache : List Nat) (r : Req) : encodeReq b32 up cache r ≠ [] := by
  cases r <;> simp [encodeReq, encodeHeader]

theorem cache3 (cache : List Nat) (h : cache.length = 3) : ∃ c1 c2 c3, cache = [c1, c2, c3] := by
  match cache, h with
  | [c1, c2, c3], _ => exact ⟨c1, c2, c3, rfl⟩

theorem byteTri_triByte (t : Option Bool) : byteTri (triByte t) = t := by
  cases t with
  | none => rfl
  | some b => cases b <;> rfl

theorem codeOpt_roundtrip (d : Option Nat) (h : ∀ x, d = some x → x ∈ registryCodes) :
    (if d.getD 32 = 32 then some none else (fromCode (d.getD 32)).map some) = some d := by
  cases d with
  | none => simp
  | some x =>
    have hx := registry_facts x (h x rfl)
    simp [hx.1, hx.2.2]

/-- the server's dispatch and per-command Decode invert the client's Encode -/
theorem decodeReq_encodeReq (b32 up : Codec) (hb : b32.Good) (hu : up.Good)
    (cache : List Nat) (hc : cache.length = 3) (r : Req) (hr : ReqOk r) :
    decodeReq b32 up (encodeReq b32 up cache r) = .ok r := by
  obtain ⟨c1, c2, c3, rfl⟩ := cache3 cache hc
  cases r with
  | version ver =>
    have hn : needsUserId 118 = false := by decide
    have hf : SA.Gen.C09.commandTable.find? (fun e => (118 == e.1 || lower 118 == e.1)) = some (118, false, true, true) := by decide
    simp only [encodeReq, encodeHeader, hn, List.cons_append, List.nil_append, List.append_nil, Bool.false_eq_true, if_false]
    have hbody := hb.roundtrip _ (bytes_le32 ver)
    simp only [decodeReq, hf, if_true, decodeBody, decodeHeader_nouid 118 c1 c2 c3 _ hn, hbody]
    simp [rd32_le32' ver hr]
  | options uid l m c down upc frag =>
    obtain ⟨huid, hd, hup, hfr⟩ := hr
    have hn : needsUserId 111 = true := by decide
    have hf : SA.Gen.C09.commandTable.find? (fun e => (111 == e.1 || lower 111 == e.1)) = some (111, true, true, true) := by decide
    simp only [encodeReq, encodeHeader, hn, List.cons_append, List.nil_append, if_true]
    have hcode : ∀ (d : Option Nat), (∀ x, d = some x → x ∈ registryCodes) → d.getD 32 < 256 := by
      intro d h
      cases d with
      | none => decide
      | some x => exact (registry_facts x (h x rfl)).2.1.2.2
    have hbody := hb.roundtrip ([triByte l, triByte m, triByte c, down.getD 32, upc.getD 32] ++ le32 (frag.getD 4294967295))
      (bytes_append (bytes_cons (triByte_lt l) (bytes_cons (triByte_lt m) (bytes_cons (triByte_lt c)
        (bytes_cons (hcode down hd) (bytes_cons (hcode upc hup) bytes_nil))))) (bytes_le32 _))
    simp only [List.cons_append, List.nil_append] at hbody
    simp only [decodeReq, hf, if_true, decodeBody, decodeHeader_uid 111 c1 c2 c3 uid _ hn huid, hbody]
    have h32 : frag.getD 4294967295 < 4294967296 := by
      cases frag with
      | none => decide
      | some f => have := hfr f rfl; simp; omega
    simp only [decodeOptions, List.cons_append, List.nil_append, rd32_le32' _ h32, byteTri_triByte]
    have h1 := codeOpt_roundtrip down hd
    have h2 := codeOpt_roundtrip upc hup
    simp only [h1, h2]
    cases frag with
    | none => simp
    | some f =>
      have := hfr f rfl
      have hne : f ≠ 4294967295 := by omega
      simp [hne]
  | packet uid ack pkt =>
    obtain ⟨huid, hack, hseq⟩ := hr
    have hn : needsUserId 99 = true := by decide
    have hf : SA.Gen.C09.commandTable.find? (fun e => (99 == e.1 || lower 99 == e.1)) = some (99, true, true, true) := by decide
    cases pkt with
    | none =>
      simp only [encodeReq, encodeHeader, hn, List.cons_append, List.nil_append, if_true]
      simp only [decodeReq, hf, if_true, decodeBody]
      rw [decodeHeader_uid 99 c1 c2 c3 uid _ hn huid]
      have hbody := hu.roundtrip (le16 ack ++ [0]) (bytes_append (bytes_le16 ack) (bytes_cons (by decide) bytes_nil))
      simp [hbody, decodePacket, rd16_le16 ack hack]
    | some p =>
      obtain ⟨seq, data⟩ := p
      have hs : seq < 65536 := (hseq (seq, data) rfl).1
      have hdata : SA.Bytes data := (hseq (seq, data) rfl).2
      simp only [encodeReq, encodeHeader, hn, List.cons_append, List.nil_append, if_true]
      simp only [decodeReq, hf, if_true, decodeBody]
      rw [decodeHeader_uid 99 c1 c2 c3 uid _ hn huid]
      have hbody := hu.roundtrip (le16 ack ++ 255 :: (le16 seq ++ data))
        (bytes_append (bytes_le16 ack) (bytes_cons (by decide) (bytes_append (bytes_le16 seq) hdata)))
      simp [hbody, decodePacket, rd16_le16 ack hack, rd16_le16 seq hs]
  | downEnc code =>
    have hcode := registry_facts code hr
    have hn : needsUserId 121 = false := by decide
    have hf : SA.Gen.C09.commandTable.find? (fun e => (121 == e.1 || lower 121 == e.1)) = some (121, false, true, true) := by decide
    simp only [encodeReq, encodeHeader, hn, List.cons_append, List.nil_append, List.append_nil, Bool.false_eq_true, if_false]
    simp only [decodeReq, hf, if_true, decodeBody, decodeHeader_nouid 121 c1 c2 c3 _ hn]
    simp [hcode.1]
  | upEnc uid pattern =>
    obtain ⟨huid, _⟩ := hr
    have hn : needsUserId 122 = true := by decide
    have hf : SA.Gen.C09.commandTable.find? (fun e => (122 == e.1 || lower 122 == e.1)) = some (122, true, true, true) := by decide
    simp only [encodeReq, encodeHeader, hn, List.cons_append, List.nil_append, if_true]
    simp only [decodeReq, hf, if_true, decodeBody, decodeHeader_uid 122 c1 c2 c3 uid _ hn huid]
    simp
  | fragSize uid frag =>
    obtain ⟨huid, hfr⟩ := hr
    have hn : needsUserId 114 = true := by decide
    have hf : SA.Gen.C09.commandTable.find? (fun e => (114 == e.1 || lower 114 == e.1)) = some (114, true, true, true) := by decide
    simp only [encodeReq, encodeHeader, hn, List.cons_append, List.nil_append, if_true]
    have hbody := hb.roundtrip _ (bytes_le32 frag)
    simp only [decodeReq, hf, if_true, decodeBody, decodeHeader_uid 114 c1 c2 c3 uid _ hn huid, hbody]
    simp [rd32_le32' frag hfr]

end SA.DnsReq

import SA.Model.ReadAhead
namespace SA.ReadAhead

/-- nothing is lost or reordered by the buffered reader: what the selection consumed followed by what is left to a
    reader of the wrapper is the stream, for every chunking and every k -/
theorem take_remaining (k : Nat) (s : BR) : (take k s).1 ++ (take k s).2.remaining = s.remaining := by
  fun_induction take k s with
  | case1 s => simp
  | case2 k b buf rest r ih =>
      simp only [BR.remaining] at ih ⊢
      simp only [List.cons_append]
      rw [ih]
  | case3 k c rest ih =>
      rw [ih]; simp [BR.remaining]
  | case4 k => simp [BR.remaining]

/-- the selection consumes exactly k bytes when the stream has that many -/
theorem take_length (k : Nat) (s : BR) (h : k ≤ s.remaining.length) : (take k s).1.length = k := by
  fun_induction take k s with
  | case1 s => simp
  | case2 k b buf rest r ih =>
      simp only [BR.remaining, List.length_cons, List.length_append] at h ih ⊢
      have : r.1.length = k := ih (by omega)
      omega
  | case3 k c rest ih =>
      apply ih; simpa [BR.remaining] using h
  | case4 k => simp [BR.remaining] at h

end SA.ReadAhead

/-
  SA.Proofs.DnsRespSort — "sorting by the decoded order tag is the inverse of tagging".

  Part 1 is generic (no DNS in it): the contract of a comparison sort by an integer key (`SortSpec`:
  the output is a permutation of the input and no element stands before one with a smaller key — this
  is all Go's `sort.Slice` promises; it is *not* stable), uniqueness of the sorted arrangement when
  the keys are pairwise distinct, and the consequence `sort_restores`: any such sort maps any
  permutation of a list with strictly increasing keys back to that list.  The model's insertion sort
  `sortByKey` meets the contract (`sortByKey_spec`), and so does every other correct sort: on inputs
  with distinct keys they all return the same list, which is the tie to `sort.Slice`.

  Part 2 applies it to `UnwrapDnsResponse`: `unwrapWith sort` is the model's `unwrap` with the sort as
  a parameter (`unwrap = unwrapWith sortByKey` by `rfl`); `Tagged` says that a list of answer records
  carries the order tags o, o+1, … (decoded by `TypePriority` to `kf o`, `kf (o+1)`, …) and the payload
  pieces `ds`; `unwrap_tagged` is the key lemma: if `kf` is strictly increasing on the range of tags
  used, then unwrapping ANY permutation of the records yields the concatenation of the pieces.
  Core Lean only.
-/
import SA.Model.DnsResp

namespace SA.DnsResp

/-! ### Part 1: comparison sorts by key -/

/-- what a comparison sort by key guarantees (Go: `sort.Slice(xs, func(i,j) bool { key(xs[i]) < key(xs[j]) })`) -/
structure SortSpec {α : Type} (sort : List (Int × α) → List (Int × α)) : Prop where
  perm : ∀ xs, (sort xs).Perm xs
  sorted : ∀ xs, (sort xs).Pairwise (fun a b => a.1 ≤ b.1)

/-- two arrangements of the same elements, both strictly increasing in the key, are equal -/
theorem perm_strict_unique {α : Type} (l₁ l₂ : List (Int × α)) (hp : l₁.Perm l₂)
    (h1 : l₁.Pairwise (fun a b => a.1 < b.1)) (h2 : l₂.Pairwise (fun a b => a.1 < b.1)) : l₁ = l₂ := by
  induction l₁ generalizing l₂ with
  | nil => exact (List.Perm.nil_eq hp)
  | cons a t ih =>
    cases l₂ with
    | nil => exact absurd hp.length_eq (by simp)
    | cons b t' =>
      have ha : a ∈ b :: t' := hp.subset (List.mem_cons_self)
      have hb : b ∈ a :: t := hp.symm.subset (List.mem_cons_self)
      rw [List.pairwise_cons] at h1 h2
      by_cases hab : a = b
      · subst hab
        rw [ih t' (List.Perm.cons_inv hp) h1.2 h2.2]
      · exfalso
        have ha' : a ∈ t' := by
          rcases List.mem_cons.mp ha with h | h
          · exact absurd h hab
          · exact h
        have hb' : b ∈ t := by
          rcases List.mem_cons.mp hb with h | h
          · exact absurd h.symm hab
          · exact h
        have := h1.1 b hb'
        have := h2.1 a ha'
        omega

/-- **any** correct sort returns a list with strictly increasing keys from any of its permutations -/
theorem sort_restores {α : Type} {sort : List (Int × α) → List (Int × α)} (hs : SortSpec sort)
    (orig xs : List (Int × α)) (hp : xs.Perm orig) (hinc : orig.Pairwise (fun a b => a.1 < b.1)) :
    sort xs = orig := by
  have hperm : (sort xs).Perm orig := (hs.perm xs).trans hp
  have hne : orig.Pairwise (fun a b => a.1 ≠ b.1) := hinc.imp (fun h => by omega)
  have hne' : (sort xs).Pairwise (fun a b => a.1 ≠ b.1) :=
    (hperm.pairwise_iff (fun h => fun e => h e.symm)).mpr hne
  have hlt : (sort xs).Pairwise (fun a b => a.1 < b.1) :=
    ((hs.sorted xs).and hne').imp (fun h => by omega)
  exact perm_strict_unique _ _ hperm hlt hinc

/-- two correct sorts agree on every input whose keys are pairwise distinct -/
theorem sorts_agree {α : Type} {s₁ s₂ : List (Int × α) → List (Int × α)} (h₁ : SortSpec s₁) (h₂ : SortSpec s₂)
    (xs : List (Int × α)) (hd : xs.Pairwise (fun a b => a.1 ≠ b.1)) : s₁ xs = s₂ xs := by
  have hne : (s₂ xs).Pairwise (fun a b => a.1 ≠ b.1) :=
    ((h₂.perm xs).pairwise_iff (fun h => fun e => h e.symm)).mpr hd
  have hlt : (s₂ xs).Pairwise (fun a b => a.1 < b.1) := ((h₂.sorted xs).and hne).imp (fun h => by omega)
  exact sort_restores h₁ (s₂ xs) xs (h₂.perm xs).symm hlt

theorem insertByKey_perm (x : Int × RR) (l : List (Int × RR)) : (insertByKey x l).Perm (x :: l) := by
  induction l with
  | nil => exact List.Perm.refl _
  | cons y ys ih =>
    unfold insertByKey
    by_cases h : x.1 < y.1
    · simp only [h, if_true]; exact List.Perm.refl _
    · simp only [h, if_false]
      exact ((List.Perm.cons y ih).trans (List.Perm.swap x y ys))

theorem insertByKey_sorted (x : Int × RR) (l : List (Int × RR)) (hl : l.Pairwise (fun a b => a.1 ≤ b.1)) :
    (insertByKey x l).Pairwise (fun a b => a.1 ≤ b.1) := by
  induction l with
  | nil => simp [insertByKey]
  | cons y ys ih =>
    rw [List.pairwise_cons] at hl
    unfold insertByKey
    by_cases h : x.1 < y.1
    · simp only [h, if_true]
      refine List.pairwise_cons.mpr ⟨?_, List.pairwise_cons.mpr hl⟩
      intro z hz
      rcases List.mem_cons.mp hz with rfl | hz
      · omega
      · have := hl.1 z hz; omega
    · simp only [h, if_false]
      refine List.pairwise_cons.mpr ⟨?_, ih hl.2⟩
      intro z hz
      have hz' : z ∈ x :: ys := (insertByKey_perm x ys).subset hz
      rcases List.mem_cons.mp hz' with rfl | hz'
      · omega
      · exact hl.1 z hz'

/-- the model's insertion sort is a correct sort -/
theorem sortByKey_spec : SortSpec sortByKey where
  perm := by
    intro xs
    induction xs with
    | nil => exact List.Perm.refl _
    | cons x xs ih => exact (insertByKey_perm x _).trans (List.Perm.cons x ih)
  sorted := by
    intro xs
    induction xs with
    | nil => exact List.Pairwise.nil
    | cons x xs ih => exact insertByKey_sorted x _ ih

/-! ### Part 2: UnwrapDnsResponse over tagged records -/

/-- `unwrap` with the sort as a parameter -/
def unwrapWith (sort : List (Int × RR) → List (Int × RR)) (domainLen : Nat) (answers : List RR) : Option (List Nat) :=
  match answers.mapM (fun r => (typePriority r).map (fun k => (k, r))) with
  | none => none
  | some keyed => ((sort keyed).mapM (fun kr => unwrapOne domainLen kr.2)).map List.flatten

theorem unwrap_eq_unwrapWith (L : Nat) (answers : List RR) : unwrap L answers = unwrapWith sortByKey L answers := rfl

theorem mapM_option_map {α β : Type} (f : α → Option β) (g : α → β) (l : List α)
    (h : ∀ a ∈ l, f a = some (g a)) : l.mapM f = some (l.map g) := by
  induction l with
  | nil => rfl
  | cons a l ih =>
    have h1 := h a (List.mem_cons_self)
    have h2 := ih (fun b hb => h b (List.mem_cons_of_mem _ hb))
    simp [List.mapM_cons, h1, h2]

/-- unwrapping any permutation of records whose priorities are strictly increasing in the original order -/
theorem unwrapWith_perm {sort : List (Int × RR) → List (Int × RR)} (hs : SortSpec sort) (L : Nat)
    (orig xs : List RR) (key : RR → Int) (dat : RR → List Nat)
    (hk : ∀ r ∈ orig, typePriority r = some (key r))
    (hu : ∀ r ∈ orig, unwrapOne L r = some (dat r))
    (hinc : orig.Pairwise (fun a b => key a < key b))
    (hp : xs.Perm orig) :
    unwrapWith sort L xs = some (orig.map dat).flatten := by
  have h1 : xs.mapM (fun r => (typePriority r).map (fun k => (k, r))) = some (xs.map (fun r => (key r, r))) :=
    mapM_option_map _ _ xs (fun r hr => by rw [hk r (hp.subset hr)]; rfl)
  have h2 : sort (xs.map (fun r => (key r, r))) = orig.map (fun r => (key r, r)) :=
    sort_restores hs _ _ (hp.map _) (by rw [List.pairwise_map]; exact hinc)
  have h3 : (orig.map (fun r => (key r, r))).mapM (fun kr => unwrapOne L kr.2)
      = some ((orig.map (fun r => (key r, r))).map (fun kr => dat kr.2)) :=
    mapM_option_map _ _ _ (fun kr hkr => by
      obtain ⟨r, hr, rfl⟩ := List.mem_map.mp hkr
      exact hu r hr)
  unfold unwrapWith
  rw [h1]
  simp only [h2, h3, Option.map_some, List.map_map]
  rfl

/-- `rs` carries the order tags o, o+1, … (as decoded by TypePriority: `kf o`, `kf (o+1)`, …) and the
    payload pieces `ds` (as extracted by UnwrapDnsResponse) -/
inductive Tagged (L : Nat) (kf : Nat → Int) : Nat → List RR → List (List Nat) → Prop
  | nil (o : Nat) : Tagged L kf o [] []
  | cons (o : Nat) (r : RR) (d : List Nat) (rs : List RR) (ds : List (List Nat)) :
      typePriority r = some (kf o) → unwrapOne L r = some d → Tagged L kf (o + 1) rs ds →
      Tagged L kf o (r :: rs) (d :: ds)

theorem Tagged.length_eq {L : Nat} {kf : Nat → Int} {o : Nat} {rs : List RR} {ds : List (List Nat)}
    (h : Tagged L kf o rs ds) : rs.length = ds.length := by
  induction h with
  | nil => rfl
  | cons _ _ _ _ _ _ _ _ ih => simp [ih]

theorem Tagged.mem {L : Nat} {kf : Nat → Int} {o : Nat} {rs : List RR} {ds : List (List Nat)}
    (h : Tagged L kf o rs ds) : ∀ r ∈ rs, ∃ i, o ≤ i ∧ i < o + rs.length ∧ typePriority r = some (kf i) := by
  induction h with
  | nil => intro r hr; cases hr
  | cons o r d rs ds hk _ _ ih =>
    intro r' hr'
    rcases List.mem_cons.mp hr' with rfl | hr'
    · exact ⟨o, Nat.le_refl _, by simp, hk⟩
    · obtain ⟨i, h1, h2, h3⟩ := ih r' hr'
      exact ⟨i, by omega, by simp only [List.length_cons]; omega, h3⟩

/-- **Key lemma: sorting by the decoded tag is the inverse of tagging.**  Records tagged o, o+1, …,
    with a decoded key that is strictly increasing on the tags used, in ANY arrival order, under ANY
    correct sort: UnwrapDnsResponse returns the pieces concatenated in tagging order. -/
theorem unwrap_tagged {sort : List (Int × RR) → List (Int × RR)} (hs : SortSpec sort) (L : Nat) (kf : Nat → Int)
    (o : Nat) (rs : List RR) (ds : List (List Nat)) (ht : Tagged L kf o rs ds)
    (hmono : ∀ i j, o ≤ i → i < j → j < o + rs.length → kf i < kf j)
    (xs : List RR) (hp : xs.Perm rs) :
    unwrapWith sort L xs = some ds.flatten := by
  have hmain := unwrapWith_perm hs L rs xs (fun r => (typePriority r).getD 0) (fun r => (unwrapOne L r).getD [])
  have hk : ∀ r ∈ rs, typePriority r = some ((typePriority r).getD 0) := by
    intro r hr
    obtain ⟨i, _, _, h⟩ := ht.mem r hr
    rw [h]; rfl
  have hu : ∀ r ∈ rs, unwrapOne L r = some ((unwrapOne L r).getD []) := by
    clear hmain hk hmono hp
    induction ht with
    | nil => intro r hr; cases hr
    | cons o r d rs ds _ hu' _ ih =>
      intro r' hr'
      rcases List.mem_cons.mp hr' with rfl | hr'
      · rw [hu']; rfl
      · exact ih r' hr'
  have hinc : rs.Pairwise (fun a b => (typePriority a).getD 0 < (typePriority b).getD 0) := by
    clear hmain hk hu hp
    induction ht with
    | nil => exact List.Pairwise.nil
    | cons o r d rs ds hk' _ htl ih =>
      refine List.pairwise_cons.mpr ⟨?_, ih (fun i j h1 h2 h3 => hmono i j (by omega) h2 (by simp only [List.length_cons]; omega))⟩
      intro r' hr'
      obtain ⟨i, h1, h2, h3⟩ := htl.mem r' hr'
      rw [hk', h3]
      exact hmono o i (Nat.le_refl _) (by omega) (by simp only [List.length_cons]; omega)
  have hdat : rs.map (fun r => (unwrapOne L r).getD []) = ds := by
    clear hmain hk hu hinc hp hmono
    induction ht with
    | nil => rfl
    | cons o r d rs ds _ hu' _ ih => simp [hu', ih]
  rw [hmain hk hu hinc hp, hdat]

/-- the same for the model's own `unwrap` -/
theorem unwrap_tagged' (L : Nat) (kf : Nat → Int) (o : Nat) (rs : List RR) (ds : List (List Nat))
    (ht : Tagged L kf o rs ds) (hmono : ∀ i j, o ≤ i → i < j → j < o + rs.length → kf i < kf j) :
    unwrap L rs = some ds.flatten :=
  unwrap_tagged sortByKey_spec L kf o rs ds ht hmono rs (List.Perm.refl _)

end SA.DnsResp

import SA.Model.SessLife
namespace SA.SessLife

/-- invariant of the code's policy: the session stays alive, the client keeps believing so, nothing is lost -/
def Good (s : St) : Prop := s.srvAlive = true ∧ s.cliBelieves = true ∧ s.lost = [] ∧ s.redialled = 0

theorem step_good (s : St) (a : Act) (h : Good s) : Good (step false s a) := by
  obtain ⟨h1, h2, h3, h4⟩ := h
  cases a with
  | open_ id => simp [step, h2, Good, h1, h3, h4]
  | close id => simp [step, h2, Good, h1, h3, h4]
  | deliver =>
      simp only [step]
      split <;> simp_all [Good]
  | notify => simp [step, h1, Good, h2, h3, h4]

theorem run_good (s : St) (as : List Act) (h : Good s) : Good (run false s as) := by
  induction as generalizing s with
  | nil => exact h
  | cons a as ih => exact ih _ (step_good s a h)

end SA.SessLife

namespace SA.SessLife

/-- every connection in P has been taken on by the server or its SYN is still travelling -/
def Tracked (s : St) (P : Nat → Prop) : Prop := ∀ id, P id → id ∈ s.served ∨ Frame.syn id ∈ s.inflight

theorem step_tracked (s : St) (a : Act) (P : Nat → Prop) (hg : Good s) (ht : Tracked s P) :
    Tracked (step false s a) (fun id => P id ∨ a = .open_ id) := by
  obtain ⟨h1, h2, h3, h4⟩ := hg
  intro id hid
  cases a with
  | open_ id' =>
      simp only [step, h2, if_true]
      rcases hid with hp | he
      · rcases ht id hp with h | h
        · exact Or.inl h
        · exact Or.inr (List.mem_append_left _ h)
      · cases he; exact Or.inr (by simp)
  | close id' =>
      simp only [step, h2, if_true]
      rcases hid with hp | he
      · rcases ht id hp with h | h
        · exact Or.inl h
        · exact Or.inr (List.mem_append_left _ h)
      · cases he
  | deliver =>
      have hp : P id := by rcases hid with hp | he; exact hp; cases he
      have := ht id hp
      simp only [step]
      split
      · exact this
      · rename_i id' rest heq
        simp only [h1, if_true]
        rw [heq] at this
        rcases this with h | h
        · exact Or.inl (List.mem_cons_of_mem _ h)
        · rcases List.mem_cons.mp h with h | h
          · cases h; exact Or.inl (by simp)
          · exact Or.inr h
      · rename_i id' rest heq
        rw [heq] at this
        have : id ∈ s.served ∨ Frame.syn id ∈ rest := by
          rcases this with h | h
          · exact Or.inl h
          · rcases List.mem_cons.mp h with h | h
            · cases h
            · exact Or.inr h
        simp only [Bool.and_false, Bool.false_and, Bool.false_eq_true, if_false]
        exact this
  | notify =>
      have hp : P id := by rcases hid with hp | he; exact hp; cases he
      simpa [step, h1] using ht id hp

theorem run_tracked (s : St) (as : List Act) (P : Nat → Prop) (hg : Good s) (ht : Tracked s P) :
    Tracked (run false s as) (fun id => P id ∨ Act.open_ id ∈ as) := by
  induction as generalizing s P with
  | nil => intro id hid; rcases hid with h | h; exact ht id h; cases h
  | cons a as ih =>
      have := ih (step false s a) (fun id => P id ∨ a = .open_ id) (step_good s a hg) (step_tracked s a P hg ht)
      intro id hid
      apply this id
      rcases hid with h | h
      · exact Or.inl (Or.inl h)
      · rcases List.mem_cons.mp h with h | h
        · exact Or.inl (Or.inr h.symm)
        · exact Or.inr h

end SA.SessLife

/-
  Helper lemmas for C14 / C17 (SA.Model.Pipe): control invariant of the PipeData process model.
-/
import SA.Model.Pipe
namespace SA.Pipe

/-- closing ends touches only the closed flags and the close log -/
structure SameCtl (s t : St) : Prop where
  dIn : t.dIn = s.dIn
  uIn : t.uIn = s.uIn
  dFin : t.dFin = s.dFin
  uFin : t.uFin = s.uFin
  dGone : t.dGone = s.dGone
  uGone : t.uGone = s.uGone
  dStall : t.dStall = s.dStall
  uStall : t.uStall = s.uStall
  dOut : t.dOut = s.dOut
  uOut : t.uOut = s.uOut
  cd : t.cd = s.cd
  cu : t.cu = s.cu
  chD : t.chD = s.chD
  chU : t.chU = s.chU
  chDr : t.chDr = s.chDr
  chUr : t.chUr = s.chUr
  mainDone : t.mainDone = s.mainDone
  mainRes : t.mainRes = s.mainRes
  callerDone : t.callerDone = s.callerDone
  dMono : s.dClosed = true → t.dClosed = true
  uMono : s.uClosed = true → t.uClosed = true

theorem SameCtl.refl (s : St) : SameCtl s s := by constructor <;> simp

theorem SameCtl.trans {a b c : St} (h1 : SameCtl a b) (h2 : SameCtl b c) : SameCtl a c := by
  constructor
  all_goals first
    | (intro h; first | exact h2.dMono (h1.dMono h) | exact h2.uMono (h1.uMono h))
    | simp [h2.dIn, h1.dIn, h2.uIn, h1.uIn, h2.dFin, h1.dFin, h2.uFin, h1.uFin, h2.dGone, h1.dGone, h2.uGone, h1.uGone,
        h2.dStall, h1.dStall, h2.uStall, h1.uStall, h2.dOut, h1.dOut, h2.uOut, h1.uOut,
        h2.cd, h1.cd, h2.cu, h1.cu, h2.chD, h1.chD, h2.chU, h1.chU, h2.chDr, h1.chDr, h2.chUr, h1.chUr,
        h2.mainDone, h1.mainDone, h2.mainRes, h1.mainRes, h2.callerDone, h1.callerDone]

theorem closeEnd_same (s : St) (e : End) : SameCtl s (closeEnd s e) := by
  cases e <;> simp only [closeEnd] <;> split <;> constructor <;> simp_all

theorem closeEnd_sets (s : St) (e : End) :
    (e = .down → (closeEnd s e).dClosed = true) ∧ (e = .up → (closeEnd s e).uClosed = true) := by
  cases e <;> simp only [closeEnd] <;> split <;> simp_all

theorem closeAll_same (s : St) (es : List End) : SameCtl s (closeAll s es) := by
  induction es generalizing s with
  | nil => exact SameCtl.refl s
  | cons e es ih => exact SameCtl.trans (closeEnd_same s e) (ih (closeEnd s e))

theorem closeAll_sets (s : St) (es : List End) :
    (.down ∈ es → (closeAll s es).dClosed = true) ∧ (.up ∈ es → (closeAll s es).uClosed = true) := by
  induction es generalizing s with
  | nil => simp
  | cons e es ih =>
    have hs := closeEnd_sets s e
    have hrest := closeAll_same (closeEnd s e) es
    have hi := ih (closeEnd s e)
    constructor
    · intro h
      simp at h
      rcases h with h | h
      · exact hrest.dMono (hs.1 h.symm)
      · exact hi.1 h
    · intro h
      simp at h
      rcases h with h | h
      · exact hrest.uMono (hs.2 h.symm)
      · exact hi.2 h

end SA.Pipe

namespace SA.Pipe

/-- the two `select` arms close at least the opposite end -/
def Cfg.ArmsOk (c : Cfg) : Prop := End.up ∈ c.armD ∧ End.down ∈ c.armU

structure Inv (s : St) : Prop where
  chD_le : s.chD ≤ 1
  chD_done : s.chD = 1 → s.cd = .done
  chU_le : s.chU ≤ 1
  chU_done : s.chU = 1 → s.cu = .done
  main : s.mainDone = true →
    (s.uClosed = true ∧ s.cd = .done ∧ s.chD = 0) ∨ (s.dClosed = true ∧ s.cu = .done ∧ s.chU = 0)
  notMainD : s.mainDone = false → s.cd = .done → s.chD = 1
  notMainU : s.mainDone = false → s.cu = .done → s.chU = 1

theorem init_inv (dIn uIn : List (List Nat)) : Inv (init dIn uIn) := by
  constructor <;> simp [init]

theorem mainArm_ctl (c : Cfg) (s : St) (fromD : Bool) (r : Res) :
    (mainArm c s fromD r).cd = s.cd ∧ (mainArm c s fromD r).cu = s.cu ∧
    (mainArm c s fromD r).chD = s.chD ∧ (mainArm c s fromD r).chU = s.chU ∧
    (mainArm c s fromD r).mainDone = true ∧
    (s.dClosed = true → (mainArm c s fromD r).dClosed = true) ∧
    (s.uClosed = true → (mainArm c s fromD r).uClosed = true) ∧
    (mainArm c s fromD r).dIn = s.dIn ∧ (mainArm c s fromD r).uIn = s.uIn ∧
    (mainArm c s fromD r).dOut = s.dOut ∧ (mainArm c s fromD r).uOut = s.uOut ∧
    (mainArm c s fromD r).dFin = s.dFin ∧ (mainArm c s fromD r).uFin = s.uFin ∧
    (mainArm c s fromD r).dGone = s.dGone ∧ (mainArm c s fromD r).uGone = s.uGone ∧
    (mainArm c s fromD r).dStall = s.dStall ∧ (mainArm c s fromD r).uStall = s.uStall := by
  unfold mainArm
  have h := closeAll_same s (if fromD = true then c.armD ++ (if r = .err then c.armDErr else [])
            else c.armU ++ (if r = .err then c.armUErr else []))
  simp only []
  exact ⟨h.cd, h.cu, h.chD, h.chU, trivial, h.dMono, h.uMono, h.dIn, h.uIn, h.dOut, h.uOut, h.dFin, h.uFin, h.dGone, h.uGone, h.dStall, h.uStall⟩

theorem mainArm_closes (c : Cfg) (hc : c.ArmsOk) (s : St) (r : Res) :
    (mainArm c s true r).uClosed = true ∧ (mainArm c s false r).dClosed = true := by
  unfold mainArm
  constructor
  · exact (closeAll_sets s _).2 (by simp [hc.1])
  · exact (closeAll_sets s _).1 (by simp [hc.2])

theorem step_inv (c : Cfg) (hc : c.ArmsOk) {s s' : St} (h : Inv s) (a : Act) (hs : step c s a = some s') :
    Inv s' := by
  cases a with
  | finDown =>
    simp only [step] at hs; split at hs
    · simp at hs
    · simp at hs; subst hs; exact ⟨h.chD_le, h.chD_done, h.chU_le, h.chU_done, h.main, h.notMainD, h.notMainU⟩
  | finUp =>
    simp only [step] at hs; split at hs
    · simp at hs
    · simp at hs; subst hs; exact ⟨h.chD_le, h.chD_done, h.chU_le, h.chU_done, h.main, h.notMainD, h.notMainU⟩
  | goneDown =>
    simp only [step] at hs; split at hs
    · simp at hs
    · simp at hs; subst hs; exact ⟨h.chD_le, h.chD_done, h.chU_le, h.chU_done, h.main, h.notMainD, h.notMainU⟩
  | goneUp =>
    simp only [step] at hs; split at hs
    · simp at hs
    · simp at hs; subst hs; exact ⟨h.chD_le, h.chD_done, h.chU_le, h.chU_done, h.main, h.notMainD, h.notMainU⟩
  | stallDown =>
    simp only [step] at hs; split at hs
    · simp at hs
    · simp at hs; subst hs; exact ⟨h.chD_le, h.chD_done, h.chU_le, h.chU_done, h.main, h.notMainD, h.notMainU⟩
  | stallUp =>
    simp only [step] at hs; split at hs
    · simp at hs
    · simp at hs; subst hs; exact ⟨h.chD_le, h.chD_done, h.chU_le, h.chU_done, h.main, h.notMainD, h.notMainU⟩
  | stepD =>
    have key : ∀ t : St, s.cd ≠ .done → t.chD = s.chD → t.chU = s.chU → t.cu = s.cu → t.mainDone = s.mainDone →
        t.dClosed = s.dClosed → t.uClosed = s.uClosed → t.cd ≠ .done → Inv t := by
      intro t hnd e1 e2 e3 e4 e5 e6 e7
      have hch : s.chD = 0 := by
        rcases Nat.lt_or_ge s.chD 1 with h0 | h1
        · omega
        · have : s.chD = 1 := by have := h.chD_le; omega
          exact absurd (h.chD_done this) hnd
      refine ⟨by rw [e1]; exact h.chD_le, by rw [e1, hch]; simp, by rw [e2]; exact h.chU_le,
        by rw [e2, e3]; exact h.chU_done, ?_, by intro _ hd; exact absurd hd e7, by rw [e4, e3, e2]; exact h.notMainU⟩
      rw [e4, e5, e6, e3, e2, e1]
      intro hm
      rcases h.main hm with hl | hr
      · exact absurd hl.2.1 hnd
      · exact Or.inr hr
    simp only [step] at hs
    split at hs
    · rename_i hcd
      have hnd : s.cd ≠ .done := by simp [hcd]
      split at hs
      · simp at hs; subst hs; exact key _ hnd rfl rfl rfl rfl rfl rfl (by simp)
      · split at hs
        · simp at hs; subst hs; exact key _ hnd rfl rfl rfl rfl rfl rfl (by simp)
        · split at hs
          · simp at hs; subst hs; exact key _ hnd rfl rfl rfl rfl rfl rfl (by simp)
          · simp at hs
    · rename_i chunk hcd
      have hnd : s.cd ≠ .done := by simp [hcd]
      split at hs
      · simp at hs; subst hs; exact key _ hnd rfl rfl rfl rfl rfl rfl (by simp)
      · split at hs
        · simp at hs
        · simp at hs; subst hs; exact key _ hnd rfl rfl rfl rfl rfl rfl (by simp)
    · simp at hs
  | stepU =>
    have key : ∀ t : St, s.cu ≠ .done → t.chD = s.chD → t.chU = s.chU → t.cd = s.cd → t.mainDone = s.mainDone →
        t.dClosed = s.dClosed → t.uClosed = s.uClosed → t.cu ≠ .done → Inv t := by
      intro t hnd e1 e2 e3 e4 e5 e6 e7
      have hch : s.chU = 0 := by
        rcases Nat.lt_or_ge s.chU 1 with h0 | h1
        · omega
        · have : s.chU = 1 := by have := h.chU_le; omega
          exact absurd (h.chU_done this) hnd
      refine ⟨by rw [e1]; exact h.chD_le, by rw [e1, e3]; exact h.chD_done, by rw [e2]; exact h.chU_le,
        by rw [e2, hch]; simp, ?_, by rw [e4, e3, e1]; exact h.notMainD, by intro _ hd; exact absurd hd e7⟩
      rw [e4, e5, e6, e3, e2, e1]
      intro hm
      rcases h.main hm with hl | hr
      · exact Or.inl hl
      · exact absurd hr.2.1 hnd
    simp only [step] at hs
    split at hs
    · rename_i hcu
      have hnd : s.cu ≠ .done := by simp [hcu]
      split at hs
      · simp at hs; subst hs; exact key _ hnd rfl rfl rfl rfl rfl rfl (by simp)
      · split at hs
        · simp at hs; subst hs; exact key _ hnd rfl rfl rfl rfl rfl rfl (by simp)
        · split at hs
          · simp at hs; subst hs; exact key _ hnd rfl rfl rfl rfl rfl rfl (by simp)
          · simp at hs
    · rename_i chunk hcu
      have hnd : s.cu ≠ .done := by simp [hcu]
      split at hs
      · simp at hs; subst hs; exact key _ hnd rfl rfl rfl rfl rfl rfl (by simp)
      · split at hs
        · simp at hs
        · simp at hs; subst hs; exact key _ hnd rfl rfl rfl rfl rfl rfl (by simp)
    · simp at hs
  | sendD =>
    simp only [step] at hs
    split at hs
    · rename_i r hcd
      have hch : s.chD = 0 := by
        rcases Nat.lt_or_ge s.chD 1 with h0 | h1
        · omega
        · have : s.chD = 1 := by have := h.chD_le; omega
          have := h.chD_done this; simp_all
      split at hs
      · simp at hs; subst hs
        refine ⟨by simp [hch], by simp, h.chU_le, h.chU_done, ?_, by simp [hch], h.notMainU⟩
        intro hm
        rcases h.main hm with hl | hr
        · simp [hcd] at hl
        · exact Or.inr hr
      · split at hs
        · rename_i hrv
          simp at hs; subst hs
          have m := mainArm_ctl c s true r
          have mc := mainArm_closes c hc s r
          refine ⟨by simp [m.2.2.1, hch], by simp, by simp [m.2.2.2.1]; exact h.chU_le,
            by simp [m.2.2.2.1, m.2.1]; exact h.chU_done, ?_, by simp [m.2.2.2.2.1], by simp [m.2.2.2.2.1]⟩
          intro _
          exact Or.inl ⟨mc.1, rfl, by simp [m.2.2.1, hch]⟩
        · simp at hs
    · simp at hs
  | sendU =>
    simp only [step] at hs
    split at hs
    · rename_i r hcu
      have hch : s.chU = 0 := by
        rcases Nat.lt_or_ge s.chU 1 with h0 | h1
        · omega
        · have : s.chU = 1 := by have := h.chU_le; omega
          have := h.chU_done this; simp_all
      split at hs
      · simp at hs; subst hs
        refine ⟨h.chD_le, h.chD_done, by simp [hch], by simp, ?_, h.notMainD, by simp [hch]⟩
        intro hm
        rcases h.main hm with hl | hr
        · exact Or.inl hl
        · simp [hcu] at hr
      · split at hs
        · simp at hs; subst hs
          have m := mainArm_ctl c s false r
          have mc := mainArm_closes c hc s r
          refine ⟨by simp [m.2.2.1]; exact h.chD_le, by simp [m.2.2.1, m.1]; exact h.chD_done,
            by simp [m.2.2.2.1, hch], by simp, ?_, by simp [m.2.2.2.2.1], by simp [m.2.2.2.2.1]⟩
          intro _
          exact Or.inr ⟨mc.2, rfl, by simp [m.2.2.2.1, hch]⟩
        · simp at hs
    · simp at hs
  | recvD =>
    simp only [step] at hs
    split at hs
    · rename_i hg
      simp at hs; subst hs
      have hch : s.chD = 1 := by have := h.chD_le; omega
      have hcd := h.chD_done hch
      have m := mainArm_ctl c { s with chD := s.chD - 1 } true s.chDr
      have mc := mainArm_closes c hc { s with chD := s.chD - 1 } s.chDr
      refine ⟨by rw [m.2.2.1]; simp [hch], by rw [m.2.2.1]; simp [hch], by rw [m.2.2.2.1]; exact h.chU_le,
        by rw [m.2.2.2.1, m.2.1]; exact h.chU_done, ?_, by simp [m.2.2.2.2.1], by simp [m.2.2.2.2.1]⟩
      intro _
      exact Or.inl ⟨mc.1, by rw [m.1]; exact hcd, by rw [m.2.2.1]; simp [hch]⟩
    · simp at hs
  | recvU =>
    simp only [step] at hs
    split at hs
    · rename_i hg
      simp at hs; subst hs
      have hch : s.chU = 1 := by have := h.chU_le; omega
      have hcu := h.chU_done hch
      have m := mainArm_ctl c { s with chU := s.chU - 1 } false s.chUr
      have mc := mainArm_closes c hc { s with chU := s.chU - 1 } s.chUr
      refine ⟨by rw [m.2.2.1]; exact h.chD_le, by rw [m.2.2.1, m.1]; exact h.chD_done,
        by rw [m.2.2.2.1]; simp [hch], by rw [m.2.2.2.1]; simp [hch], ?_, by simp [m.2.2.2.2.1], by simp [m.2.2.2.2.1]⟩
      intro _
      exact Or.inr ⟨mc.2, by rw [m.2.1]; exact hcu, by rw [m.2.2.2.1]; simp [hch]⟩
    · simp at hs
  | callerClose =>
    simp only [step] at hs
    split at hs
    · rename_i hg
      simp at hs; subst hs
      have hsame : ∀ t : St, SameCtl s t → Inv { t with callerDone := true } := by
        intro t ht
        refine ⟨by simp [ht.chD]; exact h.chD_le, by simp [ht.chD, ht.cd]; exact h.chD_done,
          by simp [ht.chU]; exact h.chU_le, by simp [ht.chU, ht.cu]; exact h.chU_done, ?_,
          by simp [ht.mainDone, ht.cd, ht.chD]; exact h.notMainD, by simp [ht.mainDone, ht.cu, ht.chU]; exact h.notMainU⟩
        simp only [ht.mainDone, ht.cd, ht.cu, ht.chD, ht.chU]
        intro hm
        rcases h.main hm with hl | hr
        · exact Or.inl ⟨ht.uMono hl.1, hl.2⟩
        · exact Or.inr ⟨ht.dMono hr.1, hr.2⟩
      cases hcal : c.caller with
      | none => simp only; exact hsame s (SameCtl.refl s)
      | both => simp only; exact hsame _ (closeAll_same s _)
      | downOnly => simp only; exact hsame _ (closeAll_same s _)
    · simp at hs

theorem run_inv (c : Cfg) (hc : c.ArmsOk) {s : St} (h : Inv s) (acts : List Act) : Inv (run c s acts) := by
  induction acts generalizing s with
  | nil => exact h
  | cons a as ih =>
    simp only [run]
    split
    · rename_i s' hs; exact ih (step_inv c hc h a hs)
    · exact ih h

end SA.Pipe

/-
  Helper lemmas for C11 (SA.Model.DnsHandshake): length of the probe list of every phase, the
  decreasing measure of the repaired fragment size search, and the inversion lemmas that link a
  selected parameter to the probe that justified it.  Core-only.
-/
import SA.Model.DnsHandshake
namespace SA.DnsHandshake

/-! ### retry -/

theorem retry_len (n : Nat) (O : Oracle) (pr : Probe) (cont : Out → Bool) :
    (retry n O pr cont).2.length ≤ n := by
  unfold retry
  split
  · simp
  · split
    · simp
    · split
      · simp
      · simp; omega

theorem retry_some {n : Nat} {O : Oracle} {pr : Probe} {cont : Out → Bool} {o : Out} {tr : List Probe}
    (h : retry n O pr cont = (some o, tr)) : o = O pr ∧ cont (O pr) = false := by
  unfold retry at h
  split at h
  · simp at h
  · split at h
    · rename_i hx
      split at h
      · simp at h
      · rename_i hc
        simp at h
        rw [hx]
        exact ⟨h.1.symm, by simpa using hc⟩
    · split at h
      · simp at h
      · rename_i hc
        simp at h
        exact ⟨h.1.symm, by simpa using hc⟩

/-! ### AutoDetectQueryType -/

theorem typeRound_len (O : Oracle) (cfg : Cfg) (l : List QT) (h : Option QT) :
    (typeRound O cfg l h).2.length ≤ l.length := by
  induction l generalizing h with
  | nil => simp [typeRound]
  | cons q rest ih =>
    unfold typeRound
    dsimp only
    have := ih h
    split
    · split
      · simp
      · split
        · simp
        · simp; omega
    · simp; omega

theorem typeRoundsLoop_len (O : Oracle) (cfg : Cfg) (n : Nat) (h : Option QT) :
    (typeRoundsLoop O cfg n h).2.length ≤ n * cfg.typeOrder.length := by
  induction n generalizing h with
  | zero => simp [typeRoundsLoop]
  | succ n ih =>
    unfold typeRoundsLoop
    dsimp only
    have h1 := typeRound_len O cfg cfg.typeOrder h
    split
    · have : (n + 1) * cfg.typeOrder.length = n * cfg.typeOrder.length + cfg.typeOrder.length := Nat.succ_mul _ _
      omega
    · have h2 := ih (typeRound O cfg cfg.typeOrder h).1
      have : (n + 1) * cfg.typeOrder.length = n * cfg.typeOrder.length + cfg.typeOrder.length := Nat.succ_mul _ _
      simp; omega

theorem typeDetect_len (O : Oracle) (cfg : Cfg) :
    (typeDetect O cfg).2.length ≤ cfg.typeRounds * cfg.typeOrder.length :=
  typeRoundsLoop_len O cfg _ _

/-- no type answers the test ⇒ a pass over the list finds nothing -/
theorem typeRound_none (O : Oracle) (cfg : Cfg) (hno : ∀ q, O (typeProbe cfg q) ≠ .k) (l : List QT) :
    (typeRound O cfg l none).1 = none := by
  induction l with
  | nil => simp [typeRound]
  | cons q rest ih =>
    unfold typeRound
    simp [hno q, ih]

theorem typeRoundsLoop_none (O : Oracle) (cfg : Cfg) (hno : ∀ q, O (typeProbe cfg q) ≠ .k) (n : Nat) :
    (typeRoundsLoop O cfg n none).1 = none := by
  induction n with
  | zero => simp [typeRoundsLoop]
  | succ n ih =>
    unfold typeRoundsLoop
    have h1 := typeRound_none O cfg hno cfg.typeOrder
    simp [h1, ih]

/-- whatever a pass returns was either the previous value or a type whose test passed -/
theorem typeRound_sound (O : Oracle) (cfg : Cfg) (l : List QT) (h : Option QT) (q : QT)
    (hr : (typeRound O cfg l h).1 = some q) : h = some q ∨ O (typeProbe cfg q) = .k := by
  induction l generalizing h with
  | nil => simp [typeRound] at hr; exact Or.inl hr
  | cons x rest ih =>
    unfold typeRound at hr
    dsimp only at hr
    split at hr
    · rename_i hk
      split at hr
      · simp at hr; subst hr; exact Or.inr hk
      · split at hr
        · simp at hr; subst hr; exact Or.inr hk
        · exact ih _ hr
    · exact ih _ hr

theorem typeRoundsLoop_sound (O : Oracle) (cfg : Cfg) (n : Nat) (h : Option QT) (q : QT)
    (hr : (typeRoundsLoop O cfg n h).1 = some q) : h = some q ∨ O (typeProbe cfg q) = .k := by
  induction n generalizing h with
  | zero => simp [typeRoundsLoop] at hr; exact Or.inl hr
  | succ n ih =>
    unfold typeRoundsLoop at hr
    dsimp only at hr
    split at hr
    · exact typeRound_sound O cfg _ _ _ hr
    · simp at hr
      rcases ih _ hr with h1 | h1
      · exact typeRound_sound O cfg _ _ _ h1
      · exact Or.inr h1

theorem typeDetect_sound (O : Oracle) (cfg : Cfg) (q : QT) (hr : (typeDetect O cfg).1 = some q) :
    O (typeProbe cfg q) = .k := by
  rcases typeRoundsLoop_sound O cfg _ _ _ hr with h | h
  · cases h
  · exact h

/-! ### single-probe phases -/

theorem versionPhase_len (O : Oracle) (cfg : Cfg) (st : St) : (versionPhase O cfg st).2.length ≤ cfg.versionTries := by
  unfold versionPhase
  have := retry_len cfg.versionTries O (st.probe .v) (fun o => o != .k)
  split <;> simp_all

theorem versionPhase_sound (O : Oracle) (cfg : Cfg) (st : St) (h : (versionPhase O cfg st).1 = true) :
    O (st.probe .v) = .k := by
  unfold versionPhase at h
  split at h
  · rename_i o tr he
    have := (retry_some he).2
    simpa using this
  · simp at h

theorem ednsPhase_len (O : Oracle) (cfg : Cfg) (st : St) : (ednsPhase O cfg st).2.length ≤ cfg.ednsTries := by
  unfold ednsPhase
  dsimp only
  generalize (if st.q ∈ cfg.ednsRaw then Codec.raw else Codec.b32) = d
  have := retry_len cfg.ednsTries O (st.probe (.y d)) Out.isErr
  split <;> simp_all

theorem setUpPhase_len (O : Oracle) (cfg : Cfg) (st : St) (c : Codec) : (setUpPhase O cfg st c).2.length ≤ cfg.setUpTries := by
  unfold setUpPhase
  have := retry_len cfg.setUpTries O ({ st with up := some c }.probe (.oUp c)) (fun o => o == .tmo)
  split <;> simp_all

theorem setUpPhase_sound (O : Oracle) (cfg : Cfg) (st : St) (c : Codec) (h : (setUpPhase O cfg st c).1 ≠ .b32) :
    (setUpPhase O cfg st c).1 = c ∧ O ({ st with up := some c }.probe (.oUp c)) = .k := by
  unfold setUpPhase at h ⊢
  split at h
  · rename_i o tr he
    have h1 := (retry_some he).1
    by_cases hk : o = .k
    · simp [hk] at h ⊢; rw [← h1]; exact hk
    · simp [hk] at h
  · simp at h

theorem setDownPhase_len (O : Oracle) (cfg : Cfg) (st : St) (d : Codec) : (setDownPhase O cfg st d).2.length ≤ cfg.setDownTries := by
  unfold setDownPhase
  have := retry_len cfg.setDownTries O ({ st with down := some d }.probe (.oDown d false)) (fun o => o == .tmo)
  split <;> simp_all

theorem setDownPhase_sound (O : Oracle) (cfg : Cfg) (st : St) (d : Codec) (h : (setDownPhase O cfg st d).1 ≠ .b32) :
    (setDownPhase O cfg st d).1 = d ∧ O ({ st with down := some d }.probe (.oDown d false)) = .k := by
  unfold setDownPhase at h ⊢
  split at h
  · rename_i o tr he
    have h1 := (retry_some he).1
    by_cases hk : o = .k
    · simp [hk] at h ⊢; rw [← h1]; exact hk
    · simp [hk] at h
  · simp at h

theorem lazyPhase_len (O : Oracle) (cfg : Cfg) (st : St) (d : Codec) : (lazyPhase O cfg st d).2.length ≤ cfg.lazyTries := by
  unfold lazyPhase
  have := retry_len cfg.lazyTries O (st.probe (.oDown d true)) (fun o => o != .k)
  split <;> simp_all

theorem switchPhase_len (O : Oracle) (cfg : Cfg) (st : St) (f : Nat) : (switchPhase O cfg st f).2.length ≤ cfg.switchTries := by
  unfold switchPhase
  have := retry_len cfg.switchTries O (st.probe (.oFrag f)) (fun o => o == .tmo)
  split <;> simp_all

theorem switchPhase_set (O : Oracle) (cfg : Cfg) (st : St) (f : Nat) (h : (switchPhase O cfg st f).1 = .set) :
    O (st.probe (.oFrag f)) = .k := by
  unfold switchPhase at h
  split at h
  · simp at h
  · rename_i o tr he
    have h1 := (retry_some he).1
    by_cases hk : o = .k
    · rw [← h1]; exact hk
    · by_cases he' : o = .e <;> simp [hk, he'] at h

/-! ### upstream codec -/

theorem upTest_len (O : Oracle) (cfg : Cfg) (st : St) (c : Codec) (i : Nat) : (upTest O cfg st c i).2.length ≤ cfg.upTestTries := by
  unfold upTest
  have := retry_len cfg.upTestTries O (st.probe (.z c i)) (fun o => o == .tmo)
  split <;> simp_all

theorem upTest_ok (O : Oracle) (cfg : Cfg) (st : St) (c : Codec) (i : Nat) (h : (upTest O cfg st c i).1 = .ok) :
    O (st.probe (.z c i)) = .k := by
  unfold upTest at h
  split at h
  · simp at h
  · rename_i o tr he
    have h1 := (retry_some he).1
    by_cases hk : o = .k
    · rw [← h1]; exact hk
    · simp [hk] at h
      split at h <;> simp at h

theorem upPatterns_len (O : Oracle) (cfg : Cfg) (st : St) (c : Codec) (l : List Nat) :
    (upPatterns O cfg st c l).2.length ≤ cfg.upTestTries * l.length := by
  induction l with
  | nil => simp [upPatterns]
  | cons i rest ih =>
    unfold upPatterns
    have h1 := upTest_len O cfg st c i
    have e : cfg.upTestTries * (rest.length + 1) = cfg.upTestTries * rest.length + cfg.upTestTries := Nat.mul_succ _ _
    split
    · rename_i tr he
      rw [he] at h1
      simp at h1 ⊢; omega
    · rename_i x tr hx he
      rw [he] at h1
      simp at h1 ⊢; omega

theorem upPatterns_ok (O : Oracle) (cfg : Cfg) (st : St) (c : Codec) (l : List Nat)
    (h : (upPatterns O cfg st c l).1 = .ok) : ∀ i ∈ l, O (st.probe (.z c i)) = .k := by
  induction l with
  | nil => intro i hi; cases hi
  | cons j rest ih =>
    unfold upPatterns at h
    split at h
    · rename_i tr he
      intro i hi
      rcases List.mem_cons.mp hi with rfl | hi
      · exact upTest_ok O cfg st c i (by rw [he])
      · exact ih h i hi
    · rename_i x tr hx he
      simp at h
      subst h
      exact (hx rfl).elim

/-- Σ over the codecs tried of (patterns × retries) -/
def upBudget (cfg : Cfg) : List Codec → Nat
  | [] => 0
  | c :: rest => cfg.upTestTries * cfg.patternCount c + upBudget cfg rest

theorem upDetect_len (O : Oracle) (cfg : Cfg) (st : St) (l : List Codec) :
    (upDetect O cfg st l).2.length ≤ upBudget cfg l := by
  induction l with
  | nil => simp [upDetect, upBudget]
  | cons c rest ih =>
    unfold upDetect upBudget
    have h1 := upPatterns_len O cfg st c (List.range (cfg.patternCount c))
    simp only [List.length_range] at h1
    split
    · rename_i tr he; rw [he] at h1; simp at h1 ⊢; omega
    · rename_i tr he; rw [he] at h1; simp at h1 ⊢; omega
    · rename_i tr he; rw [he] at h1; simp at h1 ⊢; omega

/-- a codec other than Base32 is only selected after all of its patterns came back unchanged -/
theorem upDetect_sound (O : Oracle) (cfg : Cfg) (st : St) (l : List Codec)
    (h : (upDetect O cfg st l).1 ≠ .b32) :
    ∀ i, i < cfg.patternCount (upDetect O cfg st l).1 → O (st.probe (.z (upDetect O cfg st l).1 i)) = .k := by
  induction l with
  | nil => simp [upDetect] at h
  | cons c rest ih =>
    unfold upDetect at h ⊢
    split at h
    · rename_i tr he
      intro i hi
      exact upPatterns_ok O cfg st c _ (by rw [he]) i (List.mem_range.mpr hi)
    · simp at h
    · rename_i tr he
      exact ih h

/-! ### downstream codec -/

theorem downTest_len (O : Oracle) (cfg : Cfg) (st : St) (d : Codec) : (downTest O cfg st d).2.length ≤ cfg.downTestTries := by
  unfold downTest
  have := retry_len cfg.downTestTries O (st.probe (.y d)) Out.isErr
  split <;> simp_all

theorem downTest_sound (O : Oracle) (cfg : Cfg) (hm : cfg.downMismatchIsError = true) (st : St) (d : Codec)
    (h : (downTest O cfg st d).1 = true) : O (st.probe (.y d)) = .k := by
  unfold downTest at h
  split at h
  · simp at h
  · rename_i o tr he
    have h1 := (retry_some he).1
    simp [hm] at h
    rw [← h1]; exact h

theorem downLoop_len (O : Oracle) (cfg : Cfg) (st : St) (l : List Codec) (a : Codec) :
    (downLoop O cfg st l a).2.length ≤ cfg.downTestTries * l.length := by
  induction l generalizing a with
  | nil => simp [downLoop]
  | cons d rest ih =>
    unfold downLoop
    have h1 := downTest_len O cfg st d
    have e : cfg.downTestTries * (rest.length + 1) = cfg.downTestTries * rest.length + cfg.downTestTries := Nat.mul_succ _ _
    split
    · rename_i tr he; rw [he] at h1; have := ih d; simp at h1 ⊢; omega
    · rename_i tr he; rw [he] at h1
      split
      · have := ih a; simp at h1 ⊢; omega
      · simp at h1 ⊢; omega

/-- the loop returns its start value or a codec whose test passed -/
theorem downLoop_sound (O : Oracle) (cfg : Cfg) (st : St) (l : List Codec) (a : Codec) :
    (downLoop O cfg st l a).1 = a ∨ (downTest O cfg st (downLoop O cfg st l a).1).1 = true := by
  induction l generalizing a with
  | nil => simp [downLoop]
  | cons d rest ih =>
    unfold downLoop
    split
    · rename_i tr he
      rcases ih d with h | h
      · right; simp [h]; rw [he]
      · right; exact h
    · split
      · exact ih a
      · left; rfl

theorem downDetect_len (O : Oracle) (cfg : Cfg) (st : St) :
    (downDetect O cfg st).2.length ≤ cfg.downTestTries * cfg.downOrder.length + cfg.downTestTries := by
  unfold downDetect
  dsimp only
  have h1 := downLoop_len O cfg st cfg.downOrder .b32
  have h2 := downTest_len O cfg st .raw
  split
  · simp
  · split
    · split <;> (simp; omega)
    · simp; omega

/-- repaired shape: a downstream codec other than Base32 was either forced by the record type or passed
    its test in the state it will be used in -/
theorem downDetect_sound (O : Oracle) (cfg : Cfg) (hr : cfg.rawOnSuccess = true) (ha : cfg.downAlwaysAssigned = true)
    (hm : cfg.downMismatchIsError = true)
    (st : St) (d : Codec) (h : (downDetect O cfg st).1 = some d) (hq : st.q ∉ cfg.downRawTypes) (hd : d ≠ .b32) :
    O (st.probe (.y d)) = .k := by
  unfold downDetect at h
  simp only [hq, if_false, hr, ha, if_true] at h
  have hl := downLoop_sound O cfg st cfg.downOrder .b32
  split at h
  · simp at h
    by_cases ht : (downTest O cfg st .raw).1 = true
    · simp [ht] at h; subst h
      exact downTest_sound O cfg hm st _ ht
    · simp [ht] at h
      rcases hl with hl | hl
      · rw [hl] at h; exact absurd h.symm hd
      · rw [h] at hl; exact downTest_sound O cfg hm st _ hl
  · simp at h
    rcases hl with hl | hl
    · rw [hl] at h; exact absurd h.symm hd
    · rw [h] at hl; exact downTest_sound O cfg hm st _ hl

/-! ### fragment size search: decreasing measure -/

theorem fragProbe_len (O : Oracle) (cfg : Cfg) (st : St) (f : Nat) : (fragProbe O cfg st f).2.length ≤ cfg.fragTries := by
  unfold fragProbe
  have := retry_len cfg.fragTries O (st.probe (.r f)) (fun o => o == .tmo)
  split <;> simp_all

theorem fragProbe_ok (O : Oracle) (cfg : Cfg) (st : St) (f : Nat) (h : (fragProbe O cfg st f).1 = .ok) :
    O (st.probe (.r f)) = .k := by
  unfold fragProbe at h
  split at h
  · simp at h
  · rename_i o tr he
    have h1 := (retry_some he).1
    by_cases hk : o = .k
    · rw [← h1]; exact hk
    · by_cases hc : o = .c <;> simp [hk, hc] at h

/-- the shapes the repaired loop has -/
structure Halving (cfg : Cfg) : Prop where
  stops : cfg.fragStopsAtZero = true
  shift : 1 ≤ cfg.fragShift

theorem shiftRight_le_half (x k : Nat) (hk : 1 ≤ k) : x >>> k ≤ x / 2 := by
  rw [Nat.shiftRight_eq_div_pow]
  apply Nat.div_le_div_left _ (by decide)
  calc 2 = 2 ^ 1 := rfl
    _ ≤ 2 ^ k := Nat.pow_le_pow_right (by decide) hk

/-- **the decreasing measure**: every round at least halves the range, successful probe or not -/
theorem fragStep_range (cfg : Cfg) (hc : Halving cfg) (s : FS) (ok : Bool) :
    (fragStep cfg s ok).range ≤ s.range / 2 := by
  have key : ∀ x, x ≤ s.range → x >>> cfg.fragShift ≤ s.range / 2 := fun x hx =>
    Nat.le_trans (shiftRight_le_half x _ hc.shift) (Nat.div_le_div_right hx)
  unfold fragStep
  dsimp only
  generalize (if ok = true then s.proposed else s.max) = m
  have hr0 : (if cfg.fragClampsStep = true ∧ m ≠ s.proposed ∧ s.range > s.proposed then s.proposed else s.range) ≤ s.range := by
    split
    · rename_i h; omega
    · exact Nat.le_refl _
  split <;> exact key _ hr0

theorem fragCont_range_pos (cfg : Cfg) (hc : Halving cfg) (s : FS) (h : fragCont cfg s = true) : 0 < s.range := by
  unfold fragCont at h
  simp [hc.stops] at h
  exact h.1

/-- with a range below 2^k the search ends within k rounds (any fuel ≥ k), making at most
    fragTries · k queries -/
theorem fragLoop_bounded (O : Oracle) (cfg : Cfg) (hc : Halving cfg) (st : St) :
    ∀ (k fuel : Nat) (s : FS), s.range < 2 ^ k → k ≤ fuel →
      (fragLoop O cfg st fuel s).1 ≠ .outOfFuel ∧ (fragLoop O cfg st fuel s).2.length ≤ cfg.fragTries * k := by
  intro k
  induction k with
  | zero =>
    intro fuel s hs _
    have h0 : s.range = 0 := by simpa using hs
    have hcont : fragCont cfg s = false := by
      cases hf : fragCont cfg s
      · rfl
      · have := fragCont_range_pos cfg hc s hf; omega
    cases fuel <;> simp [fragLoop, hcont]
  | succ k ih =>
    intro fuel s hs hk
    cases fuel with
    | zero => omega
    | succ fuel =>
      unfold fragLoop
      cases hcont : fragCont cfg s
      · simp
      · simp only [if_true]
        have hlen := fragProbe_len O cfg st s.proposed
        have hstep : ∀ ok, (fragStep cfg s ok).range < 2 ^ k := by
          intro ok
          have h1 := fragStep_range cfg hc s ok
          have h2 : s.range / 2 < 2 ^ k := by
            rw [Nat.pow_succ] at hs
            omega
          omega
        have e : cfg.fragTries * (k + 1) = cfg.fragTries * k + cfg.fragTries := Nat.mul_succ _ _
        split
        · rename_i tr he; rw [he] at hlen; simp at hlen ⊢; omega
        · rename_i tr he; rw [he] at hlen
          have := ih fuel (fragStep cfg s true) (hstep true) (by omega)
          simp at hlen ⊢
          exact ⟨this.1, by omega⟩
        · rename_i tr he; rw [he] at hlen
          have := ih fuel (fragStep cfg s false) (hstep false) (by omega)
          simp at hlen ⊢
          exact ⟨this.1, by omega⟩

/-- invariant of the search: `max` is 0 or a size whose probe passed -/
theorem fragLoop_max (O : Oracle) (cfg : Cfg) (st : St) :
    ∀ (fuel : Nat) (s s' : FS), (s.max = 0 ∨ O (st.probe (.r s.max)) = .k) →
      (fragLoop O cfg st fuel s).1 = .done s' → (s'.max = 0 ∨ O (st.probe (.r s'.max)) = .k) := by
  intro fuel
  induction fuel with
  | zero =>
    intro s s' hinv h
    unfold fragLoop at h
    split at h <;> simp at h
    subst h; exact hinv
  | succ fuel ih =>
    intro s s' hinv h
    unfold fragLoop at h
    split at h
    · split at h
      · simp at h
      · rename_i tr he
        simp at h
        refine ih (fragStep cfg s true) s' ?_ h
        right
        have hk := fragProbe_ok O cfg st s.proposed (by rw [he])
        have : (fragStep cfg s true).max = s.proposed := by
          unfold fragStep; simp
        rw [this]; exact hk
      · rename_i tr he
        simp at h
        refine ih (fragStep cfg s false) s' ?_ h
        have : (fragStep cfg s false).max = s.max := by
          unfold fragStep; simp only [Bool.false_eq_true, if_false]; split <;> rfl
        rw [this]; exact hinv
    · simp at h; subst h; exact hinv

end SA.DnsHandshake

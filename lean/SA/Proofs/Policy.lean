/-
  SA.Proofs.Policy — lemmas about the connection-policy model (C16).
-/
import SA.Model.Policy
namespace SA.Policy

/-! ### `open` -/

/-- the invariant: a physical connection the client has not closed is the stored one -/
def Inv (sh : Sh) : Prop := ∀ k p, sh.conns[k]? = some p → p.closed = false → sh.stored = some k

theorem getElem?_concat_unclosed {conns : List Phys} {q : Phys} (hall : ∀ p ∈ conns, p.closed = true)
    {k : Nat} {p : Phys} (h : (conns ++ [q])[k]? = some p) (hp : p.closed = false) : k = conns.length ∧ p = q := by
  by_cases hk : k < conns.length
  · rw [List.getElem?_append_left hk] at h
    have := hall p (List.mem_of_getElem? h)
    simp [this] at hp
  · have hk' : conns.length ≤ k := Nat.le_of_not_lt hk
    rw [List.getElem?_append_right hk'] at h
    by_cases h0 : k - conns.length = 0
    · rw [h0] at h
      simp at h
      exact ⟨by omega, h.symm⟩
    · have : ∃ m, k - conns.length = m + 1 := ⟨k - conns.length - 1, by omega⟩
      obtain ⟨m, hm⟩ := this
      rw [hm] at h
      simp at h

theorem all_closed_concat {conns : List Phys} {q : Phys} (hall : ∀ p ∈ conns, p.closed = true) (hq : q.closed = true) :
    ∀ p ∈ conns ++ [q], p.closed = true := by
  intro p hp
  rcases List.mem_append.mp hp with h | h
  · exact hall p h
  · simp at h; subst h; exact hq

/-- with the failing connections closed and a handshake deadline, `open` leaves at most the
    connection it stores unclosed, and never gets stuck -/
theorem openLoop_inv (F : Facts) (ms : Bool) (phase : Nat) (hf : F.closesFailed = true) (hr : F.closesRejected = true)
    (hd : F.deadline.isSome = true) :
    ∀ (ups : List (Kind × Kind)) (i : Nat) (conns : List Phys) (dials : List Nat), (∀ p ∈ conns, p.closed = true) →
      match openLoop F ms phase ups i conns dials with
      | (conns', _, .opened id) => ∀ k p, conns'[k]? = some p → p.closed = false → k = id
      | (conns', _, .exhausted) => ∀ p ∈ conns', p.closed = true
      | (_, _, .stuck) => False := by
  intro ups
  induction ups with
  | nil => intro i conns dials hall; simpa [openLoop] using hall
  | cons u rest ih =>
    intro i conns dials hall
    obtain ⟨d, hd'⟩ := Option.isSome_iff_exists.mp hd
    unfold openLoop
    cases hk : kindAt phase u with
    | refused => simpa using ih (i + 1) conns (dials ++ [i]) hall
    | silent =>
      simp only [hd']
      exact ih (i + 1) _ (dials ++ [i]) (all_closed_concat hall (by simp [hf]))
    | hsError => exact ih (i + 1) _ (dials ++ [i]) (all_closed_concat hall (by simp [hf]))
    | okPlain =>
      cases ms with
      | true => simpa using ih (i + 1) _ (dials ++ [i]) (all_closed_concat hall (by simp [hr]))
      | false =>
        simp only [Bool.false_eq_true, if_false]
        intro k p h hp
        exact (getElem?_concat_unclosed hall h hp).1
    | okSecure =>
      intro k p h hp
      exact (getElem?_concat_unclosed hall h hp).1

/-- `open` dials exactly the upstreams up to the first usable one, in list order, stores that one,
    and fails when there is none (handshake deadline present) -/
theorem openLoop_first (F : Facts) (ms : Bool) (phase : Nat) (hd : F.deadline.isSome = true) :
    ∀ (ups : List (Kind × Kind)) (i : Nat) (conns : List Phys) (dials : List Nat),
      match firstUsable ms phase ups with
      | some j => ∃ conns' id, openLoop F ms phase ups i conns dials = (conns', dials ++ List.range' i (j + 1), .opened id)
          ∧ conns'[id]? = some { up := i + j, cut := false, closed := false }
      | none => ∃ conns', openLoop F ms phase ups i conns dials = (conns', dials ++ List.range' i ups.length, .exhausted) := by
  intro ups
  obtain ⟨d, hd'⟩ := Option.isSome_iff_exists.mp hd
  induction ups with
  | nil => intro i conns dials; simp [firstUsable, openLoop]
  | cons u rest ih =>
    intro i conns dials
    -- the step for an upstream that is not usable
    have skip : ∀ conns₁, usable ms (kindAt phase u) = false →
        openLoop F ms phase (u :: rest) i conns dials = openLoop F ms phase rest (i + 1) conns₁ (dials ++ [i]) →
        match firstUsable ms phase (u :: rest) with
        | some j => ∃ conns' id, openLoop F ms phase (u :: rest) i conns dials = (conns', dials ++ List.range' i (j + 1), .opened id)
            ∧ conns'[id]? = some { up := i + j, cut := false, closed := false }
        | none => ∃ conns', openLoop F ms phase (u :: rest) i conns dials = (conns', dials ++ List.range' i (u :: rest).length, .exhausted) := by
      intro conns₁ hu heq
      have := ih (i + 1) conns₁ (dials ++ [i])
      simp only [firstUsable, hu, Bool.false_eq_true, if_false]
      cases hfu : firstUsable ms phase rest with
      | none =>
        rw [hfu] at this
        obtain ⟨c', hc'⟩ := this
        refine ⟨c', ?_⟩
        rw [heq, hc']
        simp [List.range'_succ, List.append_assoc]
      | some j =>
        rw [hfu] at this
        obtain ⟨c', id, hc', hid⟩ := this
        refine ⟨c', id, ?_, ?_⟩
        · rw [heq, hc']
          simp [List.range'_succ, List.append_assoc]
        · rw [hid]; simp; omega
    cases hk : kindAt phase u with
    | refused => exact skip conns (by simp [hk, usable]) (by rw [openLoop]; simp [hk])
    | silent => exact skip (conns ++ [{ up := i, cut := false, closed := F.closesFailed }]) (by simp [hk, usable]) (by rw [openLoop]; simp [hk, hd'])
    | hsError => exact skip (conns ++ [{ up := i, cut := true, closed := F.closesFailed }]) (by simp [hk, usable]) (by rw [openLoop]; simp [hk])
    | okPlain =>
      cases ms with
      | true => exact skip (conns ++ [{ up := i, cut := false, closed := F.closesRejected }]) (by simp [hk, usable]) (by rw [openLoop]; simp [hk])
      | false =>
        simp only [firstUsable, hk, usable, Bool.not_false, if_true]
        refine ⟨conns ++ [{ up := i, cut := false, closed := false }], conns.length, by rw [openLoop]; simp [hk, List.range'], by simp⟩
    | okSecure =>
      simp only [firstUsable, hk, usable, if_true]
      refine ⟨conns ++ [{ up := i, cut := false, closed := false }], conns.length, by rw [openLoop]; simp [hk, List.range'], by simp⟩

theorem firstUsable_isSome_iff (ms : Bool) (phase : Nat) (ups : List (Kind × Kind)) :
    (firstUsable ms phase ups).isSome = true ↔ ∃ u ∈ ups, usable ms (kindAt phase u) = true := by
  induction ups with
  | nil => simp [firstUsable]
  | cons u rest ih =>
    simp only [firstUsable]
    by_cases h : usable ms (kindAt phase u) = true
    · simp [h]
    · simp only [h, Bool.false_eq_true, if_false, Option.isSome_map, ih]
      simp [h]

/-- the first usable upstream is usable and everything before it is not -/
theorem firstUsable_spec (ms : Bool) (phase : Nat) :
    ∀ (ups : List (Kind × Kind)) (j : Nat), firstUsable ms phase ups = some j →
      (∃ u, ups[j]? = some u ∧ usable ms (kindAt phase u) = true) ∧
      ∀ k u, k < j → ups[k]? = some u → usable ms (kindAt phase u) = false := by
  intro ups
  induction ups with
  | nil => intro j h; simp [firstUsable] at h
  | cons u rest ih =>
    intro j h
    simp only [firstUsable] at h
    by_cases hu : usable ms (kindAt phase u) = true
    · simp [hu] at h
      subst h
      exact ⟨⟨u, by simp, hu⟩, by intro k _ hk; omega⟩
    · simp only [hu, Bool.false_eq_true, if_false, Option.map_eq_some_iff] at h
      obtain ⟨j', hj', rfl⟩ := h
      obtain ⟨⟨v, hv, hvu⟩, hbefore⟩ := ih j' hj'
      refine ⟨⟨v, by simpa using hv, hvu⟩, ?_⟩
      intro k w hk hw
      cases k with
      | zero => simp at hw; subst hw; simpa using hu
      | succ k => exact hbefore k w (by omega) (by simpa using hw)

/-! ### list facts -/

theorem filter_length_le_one {α : Type} (P : α → Bool) :
    ∀ (l : List α) (id : Nat), (∀ k a, l[k]? = some a → P a = true → k = id) → (l.filter P).length ≤ 1 := by
  intro l
  induction l with
  | nil => intro _ _; simp
  | cons a l ih =>
    intro id h
    by_cases ha : P a = true
    · have h0 : 0 = id := h 0 a (by simp) ha
      have hnone : ∀ b ∈ l, P b = false := by
        intro b hb
        obtain ⟨k, hk⟩ := List.getElem?_of_mem hb
        by_cases hPb : P b = true
        · have := h (k + 1) b (by simpa using hk) hPb
          omega
        · simpa using hPb
      have : l.filter P = [] := List.filter_eq_nil_iff.mpr (by intro b hb; simp [hnone b hb])
      simp [List.filter, ha, this]
    · have : (a :: l).filter P = l.filter P := by simp [List.filter, ha]
      rw [this]
      refine ih (id - 1) ?_
      intro k b hk hb
      have := h (k + 1) b (by simpa using hk) hb
      omega

theorem closeAt_getElem? (conns : List Phys) (id k : Nat) :
    (closeAt conns id)[k]? = (conns[k]?).map (fun p => if id = k then { p with closed := true } else p) := by
  unfold closeAt
  rw [List.getElem?_modify]
  by_cases h : id = k <;> simp [h]

end SA.Policy

/-
  SA.Proofs.DnsServer — lemmas about the DNS server model (C12/C13).
-/
import SA.Model.DnsSessions

namespace SA.DnsServer
open SA.Go SA.Go.Res

/-! ### heap access -/

theorem sess_modify (σ : Srv) (s t : Nat) (f : Sess → Sess) :
    (σ.modify s f).sess t = if t = s ∧ s < σ.heap.length then f (σ.sess s) else σ.sess t := by
  by_cases h : t = s
  · subst h
    by_cases h2 : t < σ.heap.length
    · simp [Srv.sess, Srv.modify, h2, List.getD_eq_getElem?_getD]
    · simp [Srv.sess, Srv.modify, h2, List.getD_eq_getElem?_getD]
  · have h' : ¬ s = t := fun e => h e.symm
    simp [Srv.sess, Srv.modify, h, h', List.getD_eq_getElem?_getD, List.getElem?_set]

theorem heap_length_modify (σ : Srv) (s : Nat) (f : Sess → Sess) : (σ.modify s f).heap.length = σ.heap.length := by
  simp [Srv.modify]

@[simp] theorem live_modify (σ : Srv) (s : Nat) (f : Sess → Sess) : (σ.modify s f).live = σ.live := rfl
@[simp] theorem retired_modify (σ : Srv) (s : Nat) (f : Sess → Sess) : (σ.modify s f).retired = σ.retired := rfl
@[simp] theorem now_modify (σ : Srv) (s : Nat) (f : Sess → Sess) : (σ.modify s f).now = σ.now := rfl

end SA.DnsServer

namespace SA.DnsServer
open SA.Go SA.Go.Res

/-! ### validateAndGetUser -/

def touch (σ : Srv) (s : Nat) : Srv := σ.modify s (fun x => { x with last := σ.now })

/-- the four outcomes of validateAndGetUser -/
inductive VRes (σ : Srv) (uid addr : Nat) : Srv × Option Nat × VErr → Prop where
  | badUser : σ.live[uid]? = some none → VRes σ uid addr (σ, none, .badUser)
  | badConn (s : Nat) : σ.live[uid]? = some none → σ.retired[uid]? = some (some s) → (σ.sess s).owner = addr →
      VRes σ uid addr (σ, some s, .badConn)
  | badIp (s : Nat) : σ.live[uid]? = some (some s) → (σ.sess s).owner ≠ addr → VRes σ uid addr (σ, some s, .badIp)
  | ok (s : Nat) : σ.live[uid]? = some (some s) → (σ.sess s).owner = addr → VRes σ uid addr (touch σ s, some s, .ok)

theorem validate_vres {σ : Srv} {uid addr : Nat} {r : Srv × Option Nat × VErr}
    (h : validate σ uid addr = ok r) : VRes σ uid addr r := by
  unfold validate idxOpt at h
  cases hl : σ.live[uid]? with
  | none => simp [hl] at h
  | some l =>
    cases l with
    | some ls =>
      simp [hl] at h
      by_cases ho : (σ.sess ls).owner = addr
      · simp [ho] at h; subst h; exact VRes.ok ls hl ho
      · simp [ho] at h; subst h; exact VRes.badIp ls hl ho
    | none =>
      simp [hl] at h
      cases hr : σ.retired[uid]? with
      | none => simp [hr] at h
      | some rr =>
        cases rr with
        | none => simp [hr] at h; subst h; exact VRes.badUser hl
        | some rs =>
          simp [hr] at h
          by_cases ho : (σ.sess rs).owner = addr
          · simp [ho] at h; subst h; exact VRes.badConn rs hl hr ho
          · simp [ho] at h; subst h; exact VRes.badUser hl

theorem validate_no_panic {σ : Srv} {uid addr : Nat} (h1 : uid < σ.live.length) (h2 : uid < σ.retired.length) :
    ∃ r, validate σ uid addr = ok r := by
  unfold validate idxOpt
  have e1 : σ.live[uid]? = some σ.live[uid] := List.getElem?_eq_getElem h1
  have e2 : σ.retired[uid]? = some σ.retired[uid] := List.getElem?_eq_getElem h2
  rw [e1]
  cases σ.live[uid] with
  | some ls => by_cases ho : (σ.sess ls).owner = addr <;> simp [ho]
  | none =>
    simp only [Res.bind_ok]
    rw [e2]
    cases σ.retired[uid] with
    | none => simp
    | some rs => by_cases ho : (σ.sess rs).owner = addr <;> simp [ho]

/-! ### the invariant of reachable states -/

structure Inv (σ : Srv) : Prop where
  lenL : σ.live.length = SA.Gen.maxUsers
  lenR : σ.retired.length = SA.Gen.maxUsers
  liveOk : ∀ i sid, σ.live[i]? = some (some sid) → sid < σ.heap.length ∧ (σ.sess sid).uid = i
  retOk : ∀ i sid, σ.retired[i]? = some (some sid) → sid < σ.heap.length ∧ (σ.sess sid).uid = i
  fragOk : ∀ sid, sid < σ.heap.length → 1 ≤ (σ.sess sid).frag ∧ (σ.sess sid).frag ≤ SA.Gen.maxDownstreamFragmentSize
  uidOk : ∀ sid, sid < σ.heap.length → (σ.sess sid).uid < SA.Gen.maxUsers

theorem inv_init : Inv Srv.init := by
  refine ⟨by simp [Srv.init], by simp [Srv.init], ?_, ?_, ?_, ?_⟩
  · intro i sid h
    simp [Srv.init, List.getElem?_replicate] at h
  · intro i sid h
    simp [Srv.init, List.getElem?_replicate] at h
  · intro sid h; simp [Srv.init] at h
  · intro sid h; simp [Srv.init] at h

/-- changing a session object without touching its id or leaving the fragment-size range keeps the invariant -/
theorem inv_modify {σ : Srv} (hI : Inv σ) (s : Nat) (f : Sess → Sess)
    (hu : ∀ x, (f x).uid = x.uid)
    (hf : ∀ x, 1 ≤ x.frag ∧ x.frag ≤ SA.Gen.maxDownstreamFragmentSize → 1 ≤ (f x).frag ∧ (f x).frag ≤ SA.Gen.maxDownstreamFragmentSize) :
    Inv (σ.modify s f) := by
  refine ⟨hI.lenL, hI.lenR, ?_, ?_, ?_, ?_⟩
  · intro i sid h
    have := hI.liveOk i sid h
    refine ⟨by simpa [heap_length_modify] using this.1, ?_⟩
    rw [sess_modify]; split
    · next hc => rw [hu]; rw [← hc.1]; exact this.2
    · exact this.2
  · intro i sid h
    have := hI.retOk i sid h
    refine ⟨by simpa [heap_length_modify] using this.1, ?_⟩
    rw [sess_modify]; split
    · next hc => rw [hu]; rw [← hc.1]; exact this.2
    · exact this.2
  · intro sid h
    rw [heap_length_modify] at h
    rw [sess_modify]; split
    · next hc => exact hf _ (hI.fragOk s hc.2)
    · exact hI.fragOk sid h
  · intro sid h
    rw [heap_length_modify] at h
    rw [sess_modify]; split
    · next hc => rw [hu]; exact hI.uidOk s hc.2
    · exact hI.uidOk sid h

theorem inv_touch {σ : Srv} (hI : Inv σ) (s : Nat) : Inv (touch σ s) :=
  inv_modify hI s _ (fun _ => rfl) (fun _ h => h)

theorem vres_inv {σ : Srv} {uid addr : Nat} {r : Srv × Option Nat × VErr} (hI : Inv σ) (h : VRes σ uid addr r) : Inv r.1 := by
  cases h with
  | badUser _ => exact hI
  | badConn _ _ _ _ => exact hI
  | badIp _ _ _ => exact hI
  | ok s _ _ => exact inv_touch hI s

end SA.DnsServer

namespace SA.DnsServer
open SA.Go SA.Go.Res

/-! ### newUser -/

theorem firstFree_spec : ∀ (l : List (Option Nat)) (i : Nat), firstFree l = some i → l[i]? = some none
  | [], i, h => by simp [firstFree] at h
  | none :: r, i, h => by simp [firstFree] at h; subst h; simp
  | some x :: r, i, h => by
    simp [firstFree] at h
    obtain ⟨j, hj, rfl⟩ := h
    simpa using firstFree_spec r j hj

theorem sess_append_old (σ : Srv) (x : Sess) (l r : List (Option Nat)) (sid : Nat) (h : sid < σ.heap.length) :
    ({ σ with live := l, retired := r, heap := σ.heap ++ [x] } : Srv).sess sid = σ.sess sid := by
  simp [Srv.sess, List.getD_eq_getElem?_getD, List.getElem?_append_left h]

theorem sess_append_new (σ : Srv) (x : Sess) (l r : List (Option Nat)) :
    ({ σ with live := l, retired := r, heap := σ.heap ++ [x] } : Srv).sess σ.heap.length = x := by
  simp [Srv.sess, List.getD_eq_getElem?_getD]

theorem newUser_cases {σ σ' : Srv} {addr : Nat} {u : Option Nat} (h : newUser σ addr = (σ', u)) :
    (σ' = σ ∧ u = none) ∨
    (∃ i, u = some i ∧ σ.live[i]? = some none ∧
      σ' = { σ with live := σ.live.set i (some σ.heap.length),
                    heap := σ.heap ++ [{ uid := i, owner := addr, last := σ.now }] }) := by
  unfold newUser at h
  cases hf : firstFree σ.live with
  | none => simp [hf] at h; exact Or.inl ⟨h.1.symm, h.2.symm⟩
  | some i =>
    simp [hf] at h
    exact Or.inr ⟨i, h.2.symm, firstFree_spec _ _ hf, h.1.symm⟩

theorem inv_newUser {σ σ' : Srv} {addr : Nat} {u : Option Nat} (hI : Inv σ) (h : newUser σ addr = (σ', u)) : Inv σ' := by
  rcases newUser_cases h with ⟨rfl, _⟩ | ⟨i, _, hfree, rfl⟩
  · exact hI
  · have hlt : i < σ.live.length := by
      have := List.getElem?_eq_some_iff.mp hfree; exact this.1
    refine ⟨by simp [hI.lenL], hI.lenR, ?_, ?_, ?_, ?_⟩
    · intro j sid hj
      simp only [List.getElem?_set] at hj
      by_cases hij : i = j
      · subst hij
        simp [hlt] at hj; subst hj
        refine ⟨by simp, ?_⟩
        have := sess_append_new σ { uid := i, owner := addr, last := σ.now } (σ.live.set i (some σ.heap.length)) σ.retired
        simpa using congrArg Sess.uid this
      · simp [hij] at hj
        have := hI.liveOk j sid hj
        refine ⟨by simp; omega, ?_⟩
        have e := sess_append_old σ { uid := i, owner := addr, last := σ.now } (σ.live.set i (some σ.heap.length)) σ.retired sid this.1
        rw [e]; exact this.2
    · intro j sid hj
      have := hI.retOk j sid hj
      refine ⟨by simp; omega, ?_⟩
      have e := sess_append_old σ { uid := i, owner := addr, last := σ.now } (σ.live.set i (some σ.heap.length)) σ.retired sid this.1
      rw [e]; exact this.2
    · intro sid hs
      simp at hs
      by_cases hlt2 : sid < σ.heap.length
      · have e := sess_append_old σ { uid := i, owner := addr, last := σ.now } (σ.live.set i (some σ.heap.length)) σ.retired sid hlt2
        rw [e]; exact hI.fragOk sid hlt2
      · have : sid = σ.heap.length := by omega
        subst this
        have e := sess_append_new σ { uid := i, owner := addr, last := σ.now } (σ.live.set i (some σ.heap.length)) σ.retired
        rw [e]; show 1 ≤ SA.Gen.defaultDownstreamFragmentSize ∧ SA.Gen.defaultDownstreamFragmentSize ≤ SA.Gen.maxDownstreamFragmentSize; decide
    · intro sid hs
      simp at hs
      by_cases hlt2 : sid < σ.heap.length
      · have e := sess_append_old σ { uid := i, owner := addr, last := σ.now } (σ.live.set i (some σ.heap.length)) σ.retired sid hlt2
        rw [e]; exact hI.uidOk sid hlt2
      · have : sid = σ.heap.length := by omega
        subst this
        have e := sess_append_new σ { uid := i, owner := addr, last := σ.now } (σ.live.set i (some σ.heap.length)) σ.retired
        rw [e]; show i < SA.Gen.maxUsers; rw [← hI.lenL]; exact hlt

end SA.DnsServer

namespace SA.DnsServer
open SA.Go SA.Go.Res

/-! ### what a message from one address may change -/

/-- `Frame addr σ σ'`: sessions that do not belong to `addr` are byte-for-byte the same and keep their live slot -/
structure Frame (addr : Nat) (σ σ' : Srv) : Prop where
  heapLen : σ.heap.length ≤ σ'.heap.length
  sessEq : ∀ sid : Nat, sid < σ.heap.length → (σ.sess sid).owner ≠ addr → σ'.sess sid = σ.sess sid
  liveKeep : ∀ i sid : Nat, sid < σ.heap.length → (σ.sess sid).owner ≠ addr → σ.live[i]? = some (some sid) →
    σ'.live[i]? = some (some sid)

theorem frame_refl (addr : Nat) (σ : Srv) : Frame addr σ σ :=
  ⟨Nat.le_refl _, fun _ _ _ => rfl, fun _ _ _ _ h => h⟩

theorem frame_trans {addr : Nat} {σ σ' σ'' : Srv} (h1 : Frame addr σ σ') (h2 : Frame addr σ' σ'') : Frame addr σ σ'' := by
  refine ⟨Nat.le_trans h1.heapLen h2.heapLen, ?_, ?_⟩
  · intro sid hs ho
    have e1 := h1.sessEq sid hs ho
    have hs' : sid < σ'.heap.length := Nat.lt_of_lt_of_le hs h1.heapLen
    rw [h2.sessEq sid hs' (by rw [e1]; exact ho), e1]
  · intro i sid hs ho hl
    have e1 := h1.sessEq sid hs ho
    have hs' : sid < σ'.heap.length := Nat.lt_of_lt_of_le hs h1.heapLen
    exact h2.liveKeep i sid hs' (by rw [e1]; exact ho) (h1.liveKeep i sid hs ho hl)

theorem frame_modify (addr : Nat) (σ : Srv) (s : Nat) (f : Sess → Sess) (h : (σ.sess s).owner = addr) :
    Frame addr σ (σ.modify s f) := by
  refine ⟨by simp [heap_length_modify], ?_, ?_⟩
  · intro sid _ ho
    rw [sess_modify]; split
    · next hc => rw [hc.1] at ho; exact absurd h ho
    · rfl
  · intro i sid _ _ hl; simpa using hl

theorem frame_touch (addr : Nat) (σ : Srv) (s : Nat) (h : (σ.sess s).owner = addr) : Frame addr σ (touch σ s) :=
  frame_modify addr σ s _ h

theorem vres_frame {σ : Srv} {uid addr : Nat} {r : Srv × Option Nat × VErr} (h : VRes σ uid addr r) : Frame addr σ r.1 := by
  cases h with
  | badUser _ => exact frame_refl _ _
  | badConn _ _ _ _ => exact frame_refl _ _
  | badIp _ _ _ => exact frame_refl _ _
  | ok s _ ho => exact frame_touch addr σ s ho

theorem frame_newUser {σ σ' : Srv} {addr : Nat} {u : Option Nat} (h : newUser σ addr = (σ', u)) : Frame addr σ σ' := by
  rcases newUser_cases h with ⟨rfl, _⟩ | ⟨i, _, hfree, rfl⟩
  · exact frame_refl _ _
  · refine ⟨by simp, ?_, ?_⟩
    · intro sid hs _
      exact sess_append_old σ _ _ _ sid hs
    · intro j sid _ _ hl
      simp only [List.getElem?_set]
      by_cases hij : i = j
      · subst hij; rw [hfree] at hl; simp at hl
      · simp [hij, hl]

/-! ### closeConnection -/

/-- the state after closeConnection really retires the object `sid` -/
def withTables (σ : Srv) (l r : List (Option Nat)) : Srv := ⟨l, r, σ.heap, σ.now⟩

@[simp] theorem sess_withTables (σ : Srv) (l r : List (Option Nat)) (t : Nat) : (withTables σ l r).sess t = σ.sess t := rfl
@[simp] theorem heap_withTables (σ : Srv) (l r : List (Option Nat)) : (withTables σ l r).heap = σ.heap := rfl
@[simp] theorem live_withTables (σ : Srv) (l r : List (Option Nat)) : (withTables σ l r).live = l := rfl
@[simp] theorem retired_withTables (σ : Srv) (l r : List (Option Nat)) : (withTables σ l r).retired = r := rfl

def retire (σ : Srv) (sid : Nat) : Srv :=
  (withTables (touch σ sid) ((touch σ sid).live.set (σ.sess sid).uid none)
      ((touch σ sid).retired.set (σ.sess sid).uid (some sid))).modify sid
    (fun s => { s with closed := true })

theorem close_cases {σ σ' : Srv} {sid : Nat} (h : closeConnection σ sid = ok σ') :
    σ' = σ ∨ (σ.live[(σ.sess sid).uid]? = some (some sid) ∧ σ' = retire σ sid) := by
  unfold closeConnection idxOpt at h
  cases hl : σ.live[(σ.sess sid).uid]? with
  | none => simp [hl] at h
  | some cur =>
    simp only [hl, Res.bind_ok] at h
    by_cases hc : cur = some sid
    · subst hc
      simp only [ne_eq, not_true_eq_false, ite_false] at h
      cases hv : validate σ (σ.sess sid).uid (σ.sess sid).owner with
      | panic => rw [hv] at h; simp at h
      | ok r =>
        rw [hv] at h
        have hr := validate_vres hv
        cases hr with
        | badUser hn => rw [hl] at hn; simp at hn
        | badConn s hn _ _ => rw [hl] at hn; simp at hn
        | badIp s hs ho => rw [hl] at hs; simp at hs; subst hs; exact absurd rfl ho
        | ok s hs ho =>
          rw [hl] at hs; simp at hs; subst hs
          simp at h
          right; exact ⟨rfl, h.symm⟩
    · simp [hc] at h; left; exact h.symm

theorem close_no_panic {σ : Srv} {sid : Nat} (hI : Inv σ) (hs : sid < σ.heap.length) : ∃ σ', closeConnection σ sid = ok σ' := by
  have hu := hI.uidOk sid hs
  unfold closeConnection idxOpt
  dsimp only
  have hlt : (σ.sess sid).uid < σ.live.length := by rw [hI.lenL]; exact hu
  rw [List.getElem?_eq_getElem hlt]
  simp only [Res.bind_ok]
  by_cases hc : σ.live[(σ.sess sid).uid] = some sid
  · simp only [hc, ne_eq, not_true_eq_false, ite_false]
    obtain ⟨r, hr⟩ := validate_no_panic (σ := σ) (uid := (σ.sess sid).uid) (addr := (σ.sess sid).owner) hlt (by rw [hI.lenR]; exact hu)
    rw [hr]
    obtain ⟨σ1, u, e⟩ := r
    by_cases he : e = VErr.ok <;> simp [he]
  · simp [hc]

theorem sess_retire (σ : Srv) (sid t : Nat) (h : t ≠ sid) : (retire σ sid).sess t = σ.sess t := by
  unfold retire
  rw [sess_modify]
  simp only [h, false_and, ite_false, sess_withTables]
  unfold touch
  rw [sess_modify]; simp [h]

theorem inv_retire {σ : Srv} (hI : Inv σ) {sid : Nat} (hl : σ.live[(σ.sess sid).uid]? = some (some sid)) : Inv (retire σ sid) := by
  have hlo := hI.liveOk _ _ hl
  have hI1 : Inv (touch σ sid) := inv_touch hI sid
  have hI2 : Inv (withTables (touch σ sid) ((touch σ sid).live.set (σ.sess sid).uid none)
                     ((touch σ sid).retired.set (σ.sess sid).uid (some sid))) := by
    refine ⟨by simp [hI1.lenL], by simp [hI1.lenR], ?_, ?_, hI1.fragOk, hI1.uidOk⟩
    · intro i s h
      simp only [live_withTables, List.getElem?_set] at h
      by_cases hi : (σ.sess sid).uid = i
      · subst hi; simp at h
      · simp [hi] at h; exact hI1.liveOk i s h
    · intro i s h
      simp only [retired_withTables, List.getElem?_set] at h
      by_cases hi : (σ.sess sid).uid = i
      · subst hi
        have hlt : (σ.sess sid).uid < (touch σ sid).retired.length := by rw [hI1.lenR]; exact hI.uidOk sid hlo.1
        simp [hlt] at h; subst h
        refine ⟨by simpa [touch, heap_length_modify] using hlo.1, ?_⟩
        show ((touch σ sid).sess sid).uid = _
        unfold touch; rw [sess_modify]; split <;> rfl
      · simp [hi] at h; exact hI1.retOk i s h
  exact inv_modify hI2 sid _ (fun _ => rfl) (fun _ h => h)

theorem frame_retire (addr : Nat) (σ : Srv) (sid : Nat) (ho : (σ.sess sid).owner = addr)
    (hl : σ.live[(σ.sess sid).uid]? = some (some sid)) : Frame addr σ (retire σ sid) := by
  refine ⟨by simp [retire, touch, heap_length_modify], ?_, ?_⟩
  · intro t _ hto
    apply sess_retire
    intro e; subst e; exact hto ho
  · intro i t _ hto hi
    have hne : t ≠ sid := by intro e; subst e; exact hto ho
    simp only [retire, touch, live_modify, live_withTables, List.getElem?_set]
    by_cases hiu : (σ.sess sid).uid = i
    · subst hiu; rw [hl] at hi; simp at hi; exact absurd hi.symm hne
    · simp [hiu, hi]

theorem close_spec {σ : Srv} {sid : Nat} (hI : Inv σ) (hs : sid < σ.heap.length) :
    ∃ σ', closeConnection σ sid = ok σ' ∧ Inv σ' ∧ Frame (σ.sess sid).owner σ σ' := by
  obtain ⟨σ', h⟩ := close_no_panic hI hs
  refine ⟨σ', h, ?_, ?_⟩
  · rcases close_cases h with rfl | ⟨hl, rfl⟩
    · exact hI
    · exact inv_retire hI hl
  · rcases close_cases h with rfl | ⟨hl, rfl⟩
    · exact frame_refl _ _
    · exact frame_retire _ σ sid rfl hl

end SA.DnsServer

namespace SA.DnsServer
open SA.Go SA.Go.Res

/-! ### the decoders cannot panic -/

theorem isOfType_no_panic (code : Nat) (data : List Nat) : ∃ b, isOfType code data = ok b := by
  cases data with
  | nil => exact ⟨false, by simp [isOfType]⟩
  | cons b r =>
    by_cases h : b = code
    · exact ⟨true, by simp [isOfType, idx, h]⟩
    · exact ⟨decide (lowerFirst b = code), by simp [isOfType, idx, slice, h]⟩

theorem findCmd_no_panic : ∀ (tbl : List (Nat × Bool × Bool × Bool)) (req : List Nat), ∃ r, findCmd tbl req = ok r
  | [], req => ⟨none, rfl⟩
  | c :: cs, req => by
    obtain ⟨b, hb⟩ := isOfType_no_panic c.1 req
    obtain ⟨r, hr⟩ := findCmd_no_panic cs req
    cases b with
    | true => exact ⟨some c, by simp [findCmd, hb]⟩
    | false => exact ⟨r, by simp [findCmd, hb, hr]⟩

theorem findCmd_mem : ∀ (tbl : List (Nat × Bool × Bool × Bool)) (req : List Nat) (c : Nat × Bool × Bool × Bool),
    findCmd tbl req = ok (some c) → c ∈ tbl
  | [], req, c, h => by simp [findCmd] at h
  | d :: ds, req, c, h => by
    obtain ⟨b, hb⟩ := isOfType_no_panic d.1 req
    cases b with
    | true => simp [findCmd, hb] at h; subst h; simp
    | false =>
      simp [findCmd, hb] at h
      exact List.mem_cons_of_mem _ (findCmd_mem ds req c h)

theorem stripDomain_no_panic (data dom : List Nat) : ∃ r, stripDomain data dom = ok r := by
  unfold stripDomain
  dsimp only
  split
  · rw [slice_ok (Nat.zero_le _) (Nat.sub_le _ _)]; exact ⟨_, rfl⟩
  · exact ⟨_, rfl⟩

theorem digit36_lt (c d : Nat) (h : digit36 c = some d) : d < 36 := by
  unfold digit36 at h
  split at h
  · simp at h; omega
  · split at h
    · simp at h; omega
    · split at h
      · simp at h; omega
      · simp at h

theorem parse36_lt (s : List Nat) (u : Nat) (h : parse36 s = some u) : u < SA.Gen.maxUsers := by
  unfold parse36 at h
  split at h
  · next a b =>
    cases ha : digit36 a with
    | none => simp [ha] at h
    | some x =>
      cases hb : digit36 b with
      | none => simp [ha, hb] at h
      | some y =>
        simp [ha, hb] at h
        have := digit36_lt a x ha
        have := digit36_lt b y hb
        show u < 1296
        omega
  · simp at h

/-- DecodeRequestHeader never panics, and a user id it returns indexes the session tables -/
theorem decodeHeader_spec (needsUser : Bool) (req : List Nat) :
    ∃ r, decodeHeader needsUser req = ok r ∧ ∀ rest uid, r = some (rest, uid) → uid < SA.Gen.maxUsers := by
  unfold decodeHeader
  by_cases h4 : req.length < 4
  · exact ⟨none, by simp [h4], by simp⟩
  · have h4' : 4 ≤ req.length := Nat.le_of_not_lt h4
    rw [if_neg h4, sliceFrom_ok h4']
    simp only [Res.bind_ok]
    generalize req.drop 4 = r4
    cases needsUser with
    | false =>
      refine ⟨some (r4, 0), by simp, ?_⟩
      intro rest uid h; simp at h; rw [← h.2]; decide
    | true =>
      simp only [ite_true]
      by_cases h2 : r4.length < 2
      · rw [if_pos h2]; exact ⟨none, rfl, by simp⟩
      · have h2' : 2 ≤ r4.length := Nat.le_of_not_lt h2
        rw [if_neg h2, slice_ok (Nat.zero_le _) h2', sliceFrom_ok h2']
        simp only [Res.bind_ok]
        cases hp : parse36 (List.drop 0 (List.take 2 r4)) with
        | none => exact ⟨none, rfl, by simp⟩
        | some uid =>
          refine ⟨some (r4.drop 2, uid), rfl, ?_⟩
          intro rest u h; simp at h; rw [← h.2]; exact parse36_lt _ _ hp

/-- the user id a decoded request carries -/
def Req.uid? : Req → Option Nat
  | .version _ => none
  | .options u _ => some u
  | .fragTest u _ => some u
  | .downTest _ => none
  | .upTest u _ => some u
  | .packet u _ _ => some u

theorem decodeOptionsBody_uid (uid : Nat) (d : List Nat) (q : Req) (h : decodeOptionsBody uid d = some q) : q.uid? = some uid := by
  unfold decodeOptionsBody at h
  split at h
  · simp at h; subst h; rfl
  · simp at h; subst h; rfl
  · simp at h; subst h; rfl
  · dsimp only at h
    split at h
    · simp at h
    · split at h
      · simp at h
      · split at h
        · simp at h
        · split at h
          · simp at h
          · split at h
            · simp at h
            · simp at h; subst h; rfl

theorem decodePacketBody_uid (uid : Nat) (d : List Nat) (q : Req) (h : decodePacketBody uid d = some q) : q.uid? = some uid := by
  unfold decodePacketBody at h
  split at h
  · simp at h
  · split at h
    · simp at h
    · split at h
      · split at h
        · simp at h
        · simp at h; subst h; rfl
      · simp at h; subst h; rfl

/-- Serializer.DecodeDnsRequest never panics for a command that has a request constructor; the request it returns
    names the user id of the header -/
theorem decodeRequest_spec (cd : Codec) (hT : cd.Total) (code : Nat) (needsUser : Bool) (up : Nat) (req rest : List Nat) (uid : Nat)
    (hh : decodeHeader needsUser req = ok (some (rest, uid))) :
    ∃ r, decodeRequest cd code needsUser true up req = ok r ∧ ∀ q u, r = some q → q.uid? = some u → u = uid := by
  unfold decodeRequest
  simp only [callField, ite_true, Res.bind_ok, hh, Codec.decode_total hT]
  by_cases c1 : code = 118
  · simp only [c1, ite_true]
    refine ⟨_, rfl, ?_⟩
    intro q u hq hu
    cases hd : cd.dec 84 rest with
    | none => simp [hd] at hq
    | some d =>
      cases hl : le32 d with
      | none => simp [hd, hl] at hq
      | some p => simp [hd, hl] at hq; subst hq; simp [Req.uid?] at hu
  · simp only [c1, ite_false]
    by_cases c2 : code = 111
    · simp only [c2, ite_true]
      refine ⟨_, rfl, ?_⟩
      intro q u hq hu
      cases hd : cd.dec 84 rest with
      | none => simp [hd] at hq
      | some d =>
        simp [hd] at hq
        have := decodeOptionsBody_uid uid d q hq
        rw [this] at hu; simp at hu; exact hu.symm
    · simp only [c2, ite_false]
      by_cases c3 : code = 114
      · simp only [c3, ite_true]
        refine ⟨_, rfl, ?_⟩
        intro q u hq hu
        cases hd : cd.dec 84 rest with
        | none => simp [hd] at hq
        | some d =>
          cases hl : le32 d with
          | none => simp [hd, hl] at hq
          | some p => simp [hd, hl] at hq; subst hq; simp [Req.uid?] at hu; exact hu.symm
      · simp only [c3, ite_false]
        by_cases c4 : code = 121
        · simp only [c4, ite_true]
          by_cases he : rest.length = 0
          · exact ⟨none, by simp [he], by simp⟩
          · have : 0 < rest.length := Nat.pos_of_ne_zero he
            refine ⟨(fromCode rest[0]).map Req.downTest, by simp [he, idx, this], ?_⟩
            intro q u hq hu
            cases hf : fromCode rest[0] with
            | none => simp [hf] at hq
            | some c => simp [hf] at hq; subst hq; simp [Req.uid?] at hu
        · simp only [c4, ite_false]
          by_cases c5 : code = 122
          · simp only [c5, ite_true]
            refine ⟨_, rfl, ?_⟩
            intro q u hq hu
            simp at hq; subst hq; simp [Req.uid?] at hu; exact hu.symm
          · simp only [c5, ite_false]
            by_cases c6 : code = 99
            · simp only [c6, ite_true]
              refine ⟨_, rfl, ?_⟩
              intro q u hq hu
              cases hd : cd.dec up rest with
              | none => simp [hd] at hq
              | some d =>
                simp [hd] at hq
                have := decodePacketBody_uid uid d q hq
                rw [this] at hu; simp at hu; exact hu.symm
            · simp only [c6, ite_false]
              exact ⟨none, rfl, by simp⟩

end SA.DnsServer

namespace SA.DnsServer
open SA.Go SA.Go.Res

/-! ### the handlers: no panic, invariant, frame -/

theorem owner_touch (σ : Srv) (s t : Nat) : ((touch σ s).sess t).owner = (σ.sess t).owner := by
  unfold touch; rw [sess_modify]; split
  · next h => rw [h.1]
  · rfl

/-- what every handler establishes -/
def Good (addr : Nat) (σ : Srv) (r : Res (Srv × Ans)) : Prop :=
  ∃ σ' a, r = ok (σ', a) ∧ Inv σ' ∧ Frame addr σ σ'

theorem good_of {addr : Nat} {σ σ' : Srv} {a : Ans} (hI : Inv σ') (hF : Frame addr σ σ') : Good addr σ (ok (σ', a)) :=
  ⟨σ', a, rfl, hI, hF⟩

theorem validate_total {σ : Srv} (hI : Inv σ) {uid : Nat} (hu : uid < SA.Gen.maxUsers) (addr : Nat) :
    ∃ r, validate σ uid addr = ok r ∧ VRes σ uid addr r := by
  obtain ⟨r, hr⟩ := validate_no_panic (σ := σ) (uid := uid) (addr := addr) (by rw [hI.lenL]; exact hu) (by rw [hI.lenR]; exact hu)
  exact ⟨r, hr, validate_vres hr⟩

theorem hPacket_good (cd : Codec) (dl : Nat) {σ : Srv} (hI : Inv σ) (m : Msg) {uid : Nat} (hu : uid < SA.Gen.maxUsers)
    (ack : Nat) (pkt : Option (Nat × List Nat)) : Good m.addr σ (hPacket cd dl σ m uid ack pkt) := by
  obtain ⟨r, hr, hv⟩ := validate_total hI hu m.addr
  unfold hPacket
  rw [hr]
  cases hv with
  | badUser _ => exact good_of hI (frame_refl _ _)
  | badConn s _ _ _ => exact good_of hI (frame_refl _ _)
  | badIp s _ _ => exact good_of hI (frame_refl _ _)
  | ok s hl ho =>
    have ho' : ((touch σ s).sess s).owner = m.addr := by rw [owner_touch]; exact ho
    simp only [Res.bind_ok]
    split
    · exact good_of (inv_modify (inv_touch hI s) s _ (fun _ => rfl) (fun _ h => h))
        (frame_trans (frame_touch _ σ s ho) (frame_modify _ _ s _ ho'))
    · split
      · exact good_of (inv_modify (inv_touch hI s) s _ (fun _ => rfl) (fun _ h => h))
          (frame_trans (frame_touch _ σ s ho) (frame_modify _ _ s _ ho'))
      · exact good_of (inv_modify (inv_touch hI s) s _ (fun _ => rfl) (fun _ h => h))
          (frame_trans (frame_touch _ σ s ho) (frame_modify _ _ s _ ho'))

end SA.DnsServer

namespace SA.DnsServer
open SA.Go SA.Go.Res

theorem hVersion_good (cd : Codec) (dl : Nat) {σ : Srv} (hI : Inv σ) (m : Msg) (v : Nat) :
    Good m.addr σ (ok (hVersion cd dl σ m v)) := by
  unfold hVersion
  by_cases hv : v ≠ SA.Gen.protocolVersion
  · rw [if_pos hv]; exact good_of hI (frame_refl _ _)
  · rw [if_neg hv]
    cases hn : newUser σ m.addr with
    | mk σ1 u =>
      cases u with
      | some uid => exact good_of (inv_newUser hI hn) (frame_newUser hn)
      | none => exact good_of (inv_newUser hI hn) (frame_newUser hn)

theorem applyOptions_uid (s : Sess) (o : Options) : (applyOptions s o).uid = s.uid := by
  unfold applyOptions
  cases o.up <;> cases o.down <;> cases o.frag <;> cases o.lazy <;> cases o.multi <;> rfl

theorem applyOptions_frag (s : Sess) (o : Options) (hb : badFrag o.frag = false)
    (h : 1 ≤ s.frag ∧ s.frag ≤ SA.Gen.maxDownstreamFragmentSize) :
    1 ≤ (applyOptions s o).frag ∧ (applyOptions s o).frag ≤ SA.Gen.maxDownstreamFragmentSize := by
  unfold applyOptions
  cases hf : o.frag with
  | none => cases o.up <;> cases o.down <;> cases o.lazy <;> cases o.multi <;> exact h
  | some f =>
    rw [hf] at hb
    simp [badFrag] at hb
    have : 1 ≤ f ∧ f ≤ SA.Gen.maxDownstreamFragmentSize := by omega
    cases o.up <;> cases o.down <;> cases o.lazy <;> cases o.multi <;> exact this

theorem hOptions_good (cd : Codec) (dl : Nat) {σ : Srv} (hI : Inv σ) (m : Msg) {uid : Nat} (hu : uid < SA.Gen.maxUsers)
    (o : Options) : Good m.addr σ (hOptions cd dl σ m uid o) := by
  obtain ⟨r, hr, hv⟩ := validate_total hI hu m.addr
  unfold hOptions
  rw [hr]
  cases hv with
  | badUser _ => exact good_of hI (frame_refl _ _)
  | badConn s _ _ _ => exact good_of hI (frame_refl _ _)
  | badIp s _ _ => exact good_of hI (frame_refl _ _)
  | ok s hl ho =>
    have ho' : ((touch σ s).sess s).owner = m.addr := by rw [owner_touch]; exact ho
    have hs : s < (touch σ s).heap.length := by
      simpa [touch, heap_length_modify] using (hI.liveOk _ _ hl).1
    simp only [Res.bind_ok]
    by_cases hc : o.closed = some true
    · rw [if_pos hc]
      obtain ⟨σ2, h2, hI2, hF2⟩ := close_spec (inv_touch hI s) hs
      rw [h2]
      rw [ho'] at hF2
      exact good_of hI2 (frame_trans (frame_touch _ σ s ho) hF2)
    · rw [if_neg hc]
      cases hb : badFrag o.frag with
      | true => simp only [ite_true]; exact good_of (inv_touch hI s) (frame_touch _ σ s ho)
      | false =>
        simp only [Bool.false_eq_true, ite_false]
        exact good_of (inv_modify (inv_touch hI s) s _ (fun x => applyOptions_uid x o) (fun x h => applyOptions_frag x o hb h))
          (frame_trans (frame_touch _ σ s ho) (frame_modify _ _ s _ ho'))

theorem hFragTest_good (cd : Codec) (dl : Nat) {σ : Srv} (hI : Inv σ) (m : Msg) {uid : Nat} (hu : uid < SA.Gen.maxUsers)
    (size : Nat) : Good m.addr σ (hFragTest cd dl σ m uid size) := by
  obtain ⟨r, hr, hv⟩ := validate_total hI hu m.addr
  unfold hFragTest
  rw [hr]
  cases hv with
  | badUser _ => exact good_of hI (frame_refl _ _)
  | badConn s _ _ _ => exact good_of hI (frame_refl _ _)
  | badIp s _ _ => exact good_of hI (frame_refl _ _)
  | ok s hl ho =>
    simp only [Res.bind_ok]
    split <;> exact good_of (inv_touch hI s) (frame_touch _ σ s ho)

theorem hUpTest_good (cd : Codec) (dl : Nat) {σ : Srv} (hI : Inv σ) (m : Msg) {uid : Nat} (hu : uid < SA.Gen.maxUsers)
    (p : List Nat) : Good m.addr σ (hUpTest cd dl σ m uid p) := by
  obtain ⟨r, hr, hv⟩ := validate_total hI hu m.addr
  unfold hUpTest
  rw [hr]
  cases hv with
  | badUser _ => exact good_of hI (frame_refl _ _)
  | badConn s _ _ _ => exact good_of hI (frame_refl _ _)
  | badIp s _ _ => exact good_of hI (frame_refl _ _)
  | ok s hl ho => exact good_of (inv_touch hI s) (frame_touch _ σ s ho)

theorem good_frame_left {addr : Nat} {σ σ1 : Srv} {r : Res (Srv × Ans)} (hF : Frame addr σ σ1) (h : Good addr σ1 r) : Good addr σ r := by
  obtain ⟨σ', a, hr, hI, hF'⟩ := h
  exact ⟨σ', a, hr, hI, frame_trans hF hF'⟩

/-- ServerDnsListener.onMessage: from a state satisfying the invariant the handler does not panic, re-establishes the
    invariant, and leaves every session of another address untouched -/
theorem onMessage_good (cd : Codec) (hT : cd.Total) (dom : List Nat) {σ : Srv} (hI : Inv σ) (m : Msg) : Good m.addr σ (onMessage cd dom σ m) := by
  unfold onMessage
  obtain ⟨request, hreq⟩ := stripDomain_no_panic m.name dom
  obtain ⟨c, hc⟩ := findCmd_no_panic SA.Gen.commandTable request
  simp only [hreq, hc, Res.bind_ok]
  cases c with
  | none => exact good_of hI (frame_refl _ _)
  | some c =>
    obtain ⟨code, needsUser, hasReq, hasResp⟩ := c
    dsimp only
    cases hasReq with
    | false => exact good_of hI (frame_refl _ _)
    | true =>
      simp only [Bool.not_true, Bool.false_eq_true, ite_false]
      obtain ⟨h, hh, hub⟩ := decodeHeader_spec needsUser request
      rw [hh]
      simp only [Res.bind_ok]
      cases h with
      | none => exact good_of hI (frame_refl _ _)
      | some p =>
        obtain ⟨rest, uid⟩ := p
        have hu : uid < SA.Gen.maxUsers := hub rest uid rfl
        obtain ⟨r, hr, hv⟩ := validate_total hI hu m.addr
        dsimp only
        rw [hr]
        obtain ⟨σ1, user, uerr⟩ := r
        have hI1 : Inv σ1 := vres_inv hI hv
        have hF1 : Frame m.addr σ σ1 := vres_frame hv
        simp only [Res.bind_ok]
        split
        · exact good_of hI1 hF1
        · split
          · exact good_of hI1 hF1
          · obtain ⟨q, hq, hquid⟩ := decodeRequest_spec cd hT code needsUser (upOf σ1 user) request rest uid hh
            rw [hq]
            simp only [Res.bind_ok]
            cases q with
            | none => exact good_of hI1 hF1
            | some q =>
              cases q with
              | version v => exact good_frame_left hF1 (hVersion_good cd dom.length hI1 m v)
              | options u o =>
                have : u = uid := hquid _ u rfl rfl
                subst this
                exact good_frame_left hF1 (hOptions_good cd dom.length hI1 m hu o)
              | fragTest u n =>
                have : u = uid := hquid _ u rfl rfl
                subst this
                exact good_frame_left hF1 (hFragTest_good cd dom.length hI1 m hu n)
              | downTest c => exact good_of hI1 hF1
              | upTest u p =>
                have : u = uid := hquid _ u rfl rfl
                subst this
                exact good_frame_left hF1 (hUpTest_good cd dom.length hI1 m hu p)
              | packet u a p =>
                have : u = uid := hquid _ u rfl rfl
                subst this
                exact good_frame_left hF1 (hPacket_good cd dom.length hI1 m hu a p)

end SA.DnsServer

namespace SA.DnsServer
open SA.Go SA.Go.Res

/-! ### the pruning task -/

theorem sess_setTable (σ : Srv) (t i : Nat) (v : Option Nat) (s : Nat) : (σ.setTable t i v).sess s = σ.sess s := by
  unfold Srv.setTable; split <;> rfl

theorem heap_setTable (σ : Srv) (t i : Nat) (v : Option Nat) : (σ.setTable t i v).heap = σ.heap := by
  unfold Srv.setTable; split <;> rfl

theorem now_setTable (σ : Srv) (t i : Nat) (v : Option Nat) : (σ.setTable t i v).now = σ.now := by
  unfold Srv.setTable; split <;> rfl

theorem live_setTable (σ : Srv) (t i : Nat) (v : Option Nat) :
    (σ.setTable t i v).live = if t = 0 then σ.live.set i v else σ.live := by
  unfold Srv.setTable; split <;> rfl

theorem retired_setTable (σ : Srv) (t i : Nat) (v : Option Nat) :
    (σ.setTable t i v).retired = if t = 0 then σ.retired else σ.retired.set i v := by
  unfold Srv.setTable; split <;> rfl

/-- storing a session under its own id (or clearing a slot) keeps the invariant -/
theorem inv_setTable {σ : Srv} (hI : Inv σ) (t i : Nat) (v : Option Nat)
    (hv : ∀ s, v = some s → s < σ.heap.length ∧ (σ.sess s).uid = i) : Inv (σ.setTable t i v) := by
  refine ⟨?_, ?_, ?_, ?_, ?_, ?_⟩
  · rw [live_setTable]; split <;> simp [hI.lenL]
  · rw [retired_setTable]; split <;> simp [hI.lenR]
  · intro j s h
    rw [heap_setTable, sess_setTable]
    rw [live_setTable] at h
    split at h
    · rw [List.getElem?_set] at h
      by_cases hij : i = j
      · subst hij
        simp only [ite_true] at h
        split at h
        · simp at h; exact hv s h
        · simp at h
      · simp [hij] at h; exact hI.liveOk j s h
    · exact hI.liveOk j s h
  · intro j s h
    rw [heap_setTable, sess_setTable]
    rw [retired_setTable] at h
    split at h
    · exact hI.retOk j s h
    · rw [List.getElem?_set] at h
      by_cases hij : i = j
      · subst hij
        simp only [ite_true] at h
        split at h
        · simp at h; exact hv s h
        · simp at h
      · simp [hij] at h; exact hI.retOk j s h
  · intro s h; rw [heap_setTable] at h; rw [sess_setTable]; exact hI.fragOk s h
  · intro s h; rw [heap_setTable] at h; rw [sess_setTable]; exact hI.uidOk s h

theorem applyAssigns_props {sid : Nat} : ∀ (as : List (Nat × Bool)) (σ : Srv), Inv σ → sid < σ.heap.length →
    Inv (applyAssigns σ sid as) ∧ (∀ s, (applyAssigns σ sid as).sess s = σ.sess s) ∧
    (applyAssigns σ sid as).now = σ.now ∧ (applyAssigns σ sid as).heap = σ.heap
  | [], σ, hI, _ => ⟨hI, fun _ => rfl, rfl, rfl⟩
  | (t, keep) :: r, σ, hI, hs => by
    have hI1 : Inv (σ.setTable t (σ.sess sid).uid (if keep then some sid else none)) := by
      apply inv_setTable hI
      intro s hv
      cases keep with
      | true => simp at hv; subst hv; exact ⟨hs, rfl⟩
      | false => simp at hv
    have ih := applyAssigns_props r _ hI1 (by rw [heap_setTable]; exact hs)
    refine ⟨ih.1, ?_, ?_, ?_⟩
    · intro s; show (applyAssigns _ sid r).sess s = _; rw [ih.2.1, sess_setTable]
    · show (applyAssigns _ sid r).now = _; rw [ih.2.2.1, now_setTable]
    · show (applyAssigns _ sid r).heap = _; rw [ih.2.2.2, heap_setTable]

theorem applyAssigns_live_other {sid i : Nat} : ∀ (as : List (Nat × Bool)) (σ : Srv), (σ.sess sid).uid ≠ i →
    (applyAssigns σ sid as).live[i]? = σ.live[i]?
  | [], _, _ => rfl
  | (t, keep) :: r, σ, h => by
    show (applyAssigns _ sid r).live[i]? = _
    rw [applyAssigns_live_other r _ (by rw [sess_setTable]; exact h), live_setTable]
    split
    · rw [List.getElem?_set]; simp [h]
    · rfl

theorem applyAssigns_live_nolive {sid : Nat} : ∀ (as : List (Nat × Bool)) (σ : Srv), (∀ a ∈ as, a.1 ≠ 0) →
    (applyAssigns σ sid as).live = σ.live
  | [], _, _ => rfl
  | (t, keep) :: r, σ, h => by
    show (applyAssigns _ sid r).live = _
    rw [applyAssigns_live_nolive r _ (fun a ha => h a (List.mem_cons_of_mem _ ha)), live_setTable]
    have : t ≠ 0 := h (t, keep) (List.mem_cons_self ..)
    simp [this]

theorem table_mem {σ : Srv} (hI : Inv σ) (t i sid : Nat) (h : (σ.table t).getD i none = some sid) :
    sid < σ.heap.length ∧ (σ.sess sid).uid = i := by
  unfold Srv.table at h
  rw [List.getD_eq_getElem?_getD] at h
  split at h
  · cases hg : σ.live[i]? with
    | none => simp [hg] at h
    | some x => simp [hg] at h; subst h; exact hI.liveOk i sid hg
  · cases hg : σ.retired[i]? with
    | none => simp [hg] at h
    | some x => simp [hg] at h; subst h; exact hI.retOk i sid hg

theorem expireAt_inv (loop : Nat × Nat × List (Nat × Bool)) {σ : Srv} (hI : Inv σ) (i : Nat) :
    Inv (expireAt loop σ i) ∧ (∀ s, (expireAt loop σ i).sess s = σ.sess s) ∧ (expireAt loop σ i).now = σ.now := by
  unfold expireAt
  split
  · exact ⟨hI, fun _ => rfl, rfl⟩
  · next sid hg =>
    split
    · have := applyAssigns_props loop.2.2 σ hI (table_mem hI _ _ _ hg).1
      exact ⟨this.1, this.2.1, this.2.2.1⟩
    · exact ⟨hI, fun _ => rfl, rfl⟩

/-- loops that cannot remove a fresh live session: a loop over the live table uses a timeout of at least `minT`; a
    loop over the retired table does not assign to the live table -/
def safeLoops (minT : Nat) (loops : List (Nat × Nat × List (Nat × Bool))) : Bool :=
  loops.all fun l => if l.1 = 0 then decide (minT ≤ l.2.1) else l.2.2.all (fun a => a.1 != 0)

/-- the property carried through the pruning task -/
structure Keeps (σ0 σ : Srv) (i sid : Nat) : Prop where
  inv : Inv σ
  live : σ.live[i]? = some (some sid)
  sess : ∀ s, σ.sess s = σ0.sess s
  now : σ.now = σ0.now

theorem expireAt_keeps {minT : Nat} (loop : Nat × Nat × List (Nat × Bool)) (hsafe : safeLoops minT [loop] = true)
    {σ0 σ : Srv} {i sid : Nat} (hfresh : σ0.now ≤ (σ0.sess sid).last + minT) (hK : Keeps σ0 σ i sid) (j : Nat) :
    Keeps σ0 (expireAt loop σ j) i sid := by
  have hp := expireAt_inv loop hK.inv j
  refine ⟨hp.1, ?_, fun s => by rw [hp.2.1, hK.sess], by rw [hp.2.2, hK.now]⟩
  unfold expireAt
  split
  · exact hK.live
  · next s hg =>
    split
    · next hstale =>
      have hm := table_mem hK.inv _ _ _ hg
      simp only [safeLoops, List.all_cons, List.all_nil, Bool.and_true] at hsafe
      by_cases ht : loop.1 = 0
      · simp only [ht, ite_true, decide_eq_true_eq] at hsafe
        -- a loop over the live table: the stale session sits in its own slot j
        by_cases hji : j = i
        · subst hji
          have hs : s = sid := by
            unfold Srv.table at hg
            rw [List.getD_eq_getElem?_getD] at hg
            simp only [ht, ite_true] at hg
            rw [hK.live] at hg; simp at hg; exact hg.symm
          subst hs
          rw [hK.sess, hK.now] at hstale
          omega
        · rw [applyAssigns_live_other _ _ (by rw [hm.2]; exact hji)]; exact hK.live
      · simp only [ht, ite_false] at hsafe
        rw [applyAssigns_live_nolive _ _ (by
          intro a ha
          have := List.all_eq_true.mp hsafe a ha
          simpa using this)]
        exact hK.live
    · exact hK.live

theorem foldl_keeps {minT : Nat} (loop : Nat × Nat × List (Nat × Bool)) (hsafe : safeLoops minT [loop] = true)
    {σ0 : Srv} {i sid : Nat} (hfresh : σ0.now ≤ (σ0.sess sid).last + minT) :
    ∀ (l : List Nat) (σ : Srv), Keeps σ0 σ i sid → Keeps σ0 (l.foldl (expireAt loop) σ) i sid
  | [], _, h => h
  | j :: r, σ, h => foldl_keeps loop hsafe hfresh r _ (expireAt_keeps loop hsafe hfresh h j)

theorem expireWith_keeps {minT : Nat} {σ0 : Srv} {i sid : Nat} (hfresh : σ0.now ≤ (σ0.sess sid).last + minT) :
    ∀ (loops : List (Nat × Nat × List (Nat × Bool))) (σ : Srv), safeLoops minT loops = true → Keeps σ0 σ i sid →
      Keeps σ0 (expireWith loops σ) i sid
  | [], _, _, h => h
  | l :: r, σ, hs, h => by
    have h1 : safeLoops minT [l] = true := by
      simp only [safeLoops, List.all_cons, List.all_nil, Bool.and_true] at hs ⊢
      exact (Bool.and_eq_true _ _ ▸ hs).1
    have h2 : safeLoops minT r = true := by
      simp only [safeLoops, List.all_cons] at hs ⊢
      exact (Bool.and_eq_true _ _ ▸ hs).2
    show Keeps σ0 (expireWith r (expireLoop σ l)) i sid
    exact expireWith_keeps hfresh r _ h2 (foldl_keeps l h1 hfresh _ σ h)

theorem foldl_inv (loop : Nat × Nat × List (Nat × Bool)) : ∀ (l : List Nat) (σ : Srv), Inv σ → Inv (l.foldl (expireAt loop) σ)
  | [], _, h => h
  | j :: r, σ, h => foldl_inv loop r _ (expireAt_inv loop h j).1

theorem expireWith_inv : ∀ (loops : List (Nat × Nat × List (Nat × Bool))) (σ : Srv), Inv σ → Inv (expireWith loops σ)
  | [], _, h => h
  | l :: r, σ, h => expireWith_inv r _ (foldl_inv l _ σ h)

end SA.DnsServer

namespace SA.DnsServer
open SA.Go SA.Go.Res

/-- which command letters decode to the two request kinds that carry no user id -/
theorem decodeRequest_kind (cd : Codec) (hT : cd.Total) (code : Nat) (needsUser : Bool) (up : Nat) (req : List Nat) (q : Req)
    (h : decodeRequest cd code needsUser true up req = ok (some q)) :
    (∀ v, q = .version v → code = 118) ∧ (∀ c, q = .downTest c → code = 121) := by
  unfold decodeRequest at h
  simp only [callField, ite_true, Res.bind_ok, Codec.decode_total hT] at h
  cases hh : decodeHeader needsUser req with
  | panic => simp [hh] at h
  | ok hd =>
    cases hd with
    | none => simp [hh] at h
    | some p =>
      obtain ⟨rest, uid⟩ := p
      simp only [hh, Res.bind_ok] at h
      by_cases c1 : code = 118
      · exact ⟨fun _ _ => c1, by
          intro c hc; subst hc; simp only [c1, ite_true] at h
          cases hd : cd.dec 84 rest with
          | none => simp [hd] at h
          | some d => cases hl : le32 d <;> simp [hd, hl] at h⟩
      · simp only [c1, ite_false] at h
        by_cases c2 : code = 111
        · simp only [c2, ite_true] at h
          cases hd : cd.dec 84 rest with
          | none => simp [hd] at h
          | some d =>
            simp [hd] at h
            have := decodeOptionsBody_uid uid d q h
            constructor <;> intro x hx <;> subst hx <;> simp [Req.uid?] at this
        · simp only [c2, ite_false] at h
          by_cases c3 : code = 114
          · simp only [c3, ite_true] at h
            cases hd : cd.dec 84 rest with
            | none => simp [hd] at h
            | some d =>
              cases hl : le32 d with
              | none => simp [hd, hl] at h
              | some p => simp [hd, hl] at h; subst h; constructor <;> intro x hx <;> simp at hx
          · simp only [c3, ite_false] at h
            by_cases c4 : code = 121
            · refine ⟨?_, fun _ _ => c4⟩
              intro v hv; subst hv
              simp only [c4, ite_true] at h
              by_cases he : rest.length = 0
              · simp [he] at h
              · have : 0 < rest.length := Nat.pos_of_ne_zero he
                simp [he, idx, this] at h
            · simp only [c4, ite_false] at h
              by_cases c5 : code = 122
              · simp only [c5, ite_true] at h
                simp at h; subst h; constructor <;> intro x hx <;> simp at hx
              · simp only [c5, ite_false] at h
                by_cases c6 : code = 99
                · simp only [c6, ite_true] at h
                  cases hd : cd.dec up rest with
                  | none => simp [hd] at h
                  | some d =>
                    simp [hd] at h
                    have := decodePacketBody_uid uid d q h
                    constructor <;> intro x hx <;> subst hx <;> simp [Req.uid?] at this
                · simp [c6] at h

/-- in the command table, a command that needs a user id is neither the version nor the downstream-codec test -/
theorem needsUser_codes : ∀ c ∈ SA.Gen.commandTable, c.2.1 = true → c.1 ≠ 118 ∧ c.1 ≠ 121 := by decide

end SA.DnsServer

/-
  SA.Proofs.DnsRespNames — the name-carrying answer types (SRV, MX, CNAME), record by record.

  A payload piece without name syntax (no '.', no '\\') in front of a domain of plain labels
  (`DomainOk`, from C09) is put into a target name by the wrapper, packed into labels by miekg
  (modelled), unpacked with presentation escapes, cut and unescaped by UnwrapDnsResponse: the piece
  comes back (`rec_srv`, `rec_mx`, `rec_cname`).  `tagged_nameRecs` lifts this to the whole answer
  section whenever WrapDnsResponse and Pack/Unpack succeed.
-/
import SA.Proofs.DnsRespMulti

namespace SA.DnsResp
open SA.DnsWire SA.WireCodec SA.DnsReq

/-! ### unescapePresentation (dropDots) undoes UnpackDomainName -/

theorem unescGo_escNameByte (b : Nat) (hb : b < 256) (tl : List Nat) :
    unescGo true 0 (escNameByte b ++ tl) = b :: unescGo true 0 tl := by
  unfold escNameByte
  by_cases hs : nameSpecial b = true
  · simp only [hs, if_true]
    have hnd : isDigit b = false := by
      simp [nameSpecial] at hs
      cases hd : isDigit b with
      | false => rfl
      | true => simp [isDigit] at hd; omega
    show unescGo true 0 (bsl :: b :: tl) = _
    simp [unescGo, bsl, dot, threeDigits_cons_nondigit b tl hnd]
  · simp only [hs]
    by_cases hr : (b < 32 || b > 126) = true
    · simp only [hr, if_true]
      show unescGo true 0 (bsl :: (48 + b / 100) :: (48 + b / 10 % 10) :: (48 + b % 10) :: tl) = _
      simp [unescGo, bsl, dot, threeDigits_escDDD b hb tl, dddOf_escDDD b hb tl]
    · simp only [hr]
      have h46 : b ≠ 46 := by intro h; subst h; simp [nameSpecial] at hs
      have h92 : b ≠ 92 := by intro h; subst h; simp [nameSpecial] at hs
      show unescGo true 0 (b :: tl) = _
      simp [unescGo, bsl, dot, h46, h92]

theorem unescGo_escLabel (l : List Nat) (hl : ∀ b ∈ l, b < 256) (tl : List Nat) :
    unescGo true 0 (l.flatMap escNameByte ++ tl) = l ++ unescGo true 0 tl := by
  induction l with
  | nil => simp
  | cons b l ih =>
    have hb : b < 256 := hl b (by simp)
    have hl' : ∀ x ∈ l, x < 256 := fun x hx => hl x (by simp [hx])
    simp only [List.flatMap_cons, List.append_assoc]
    rw [unescGo_escNameByte b hb, ih hl']
    simp

theorem unescGo_dot (tl : List Nat) : unescGo true 0 (dot :: tl) = unescGo true 0 tl := by
  simp [unescGo]

/-- the labels as UnpackDomainName prints them, without the dot after the last one -/
def escJoin : List (List Nat) → List Nat
  | [] => []
  | [l] => l.flatMap escNameByte
  | l :: l' :: ls => l.flatMap escNameByte ++ dot :: escJoin (l' :: ls)

theorem escJoin_dot (ls : List (List Nat)) (hne : ls ≠ []) : ls.flatMap escLabelDot = escJoin ls ++ [dot] := by
  induction ls with
  | nil => exact absurd rfl hne
  | cons l ls ih =>
    cases ls with
    | nil => simp [escJoin, escLabelDot]
    | cons l' ls =>
      have := ih (by simp)
      simp only [List.flatMap_cons, escJoin] at this ⊢
      rw [this]; simp [escLabelDot]

theorem unescGo_escJoin (ls : List (List Nat)) (hb : ∀ l ∈ ls, ∀ b ∈ l, b < 256) :
    unescGo true 0 (escJoin ls) = ls.flatten := by
  induction ls with
  | nil => rfl
  | cons l ls ih =>
    have hl := hb l (by simp)
    have hls : ∀ x ∈ ls, ∀ b ∈ x, b < 256 := fun x hx => hb x (by simp [hx])
    cases ls with
    | nil =>
      have := unescGo_escLabel l hl []
      simp only [List.append_nil] at this
      simp [escJoin, this, unescGo]
    | cons l' ls =>
      simp only [escJoin]
      rw [unescGo_escLabel l hl, unescGo_dot, ih hls]
      simp

theorem unpackName_chunks (chunks dls : List (List Nat)) (domain : List Nat) (hne : chunks ≠ [])
    (hd : dotted dls = domain ++ [dot]) (hp : ∀ l ∈ dls, PlainLabel l) :
    unpackName (chunks ++ dls) = escJoin chunks ++ dot :: (domain ++ [dot]) := by
  have hnil : (chunks ++ dls).isEmpty = false := by
    cases chunks with
    | nil => exact absurd rfl hne
    | cons _ _ => rfl
  unfold unpackName
  rw [hnil]
  simp only [Bool.false_eq_true, if_false]
  have : ∀ (xs : List (List Nat)), xs.flatMap (fun l => l.flatMap escNameByte ++ [dot]) = xs.flatMap escLabelDot := fun _ => rfl
  rw [this, List.flatMap_append, plain_dotted dls hp, hd, escJoin_dot chunks hne]
  simp

/-- cutting `.domain.` off an unpacked target and unescaping gives the bytes of the data labels -/
theorem nameData_unpack (chunks dls : List (List Nat)) (domain : List Nat) (hne : chunks ≠ [])
    (hb : ∀ l ∈ chunks, ∀ b ∈ l, b < 256)
    (hd : dotted dls = domain ++ [dot]) (hp : ∀ l ∈ dls, PlainLabel l) :
    (stripNameTail (unpackName (chunks ++ dls)) domain.length).map nameData = some chunks.flatten := by
  rw [unpackName_chunks chunks dls domain hne hd hp]
  have hun : SA.Gen.C09.unwrapUnescapesNames = true := by decide
  have hlen : (escJoin chunks ++ dot :: (domain ++ [dot])).length = (escJoin chunks).length + domain.length + 2 := by
    simp; omega
  have hnot : ¬ ((escJoin chunks ++ dot :: (domain ++ [dot])).length < domain.length + 2) := by omega
  have htake : (escJoin chunks ++ dot :: (domain ++ [dot])).take
      ((escJoin chunks ++ dot :: (domain ++ [dot])).length - domain.length - 2) = escJoin chunks := by
    have : (escJoin chunks ++ dot :: (domain ++ [dot])).length - domain.length - 2 = (escJoin chunks).length := by omega
    rw [this]; simp
  simp only [stripNameTail, hnot, if_false, htake, Option.map_some, nameData, hun, if_true,
    unescapePresentation, unescGo_escJoin chunks hb]

/-! ### PrepareHostname, with the labels named -/

/-- the labels PrepareHostname makes of the data: Dotify's chunks if the data is longer than a label -/
def hostChunks (data : List Nat) : List (List Nat) :=
  if data.length > SA.Gen.labelMaxLen then chunksAux SA.Gen.C09.dotifyStride data.length data else [data]

theorem hostChunks_flatten (data : List Nat) : (hostChunks data).flatten = data := by
  unfold hostChunks
  split
  · exact chunksAux_flatten _ _ _
  · simp

theorem hostChunks_ne (data : List Nat) : hostChunks data ≠ [] := by
  unfold hostChunks
  split
  · cases h : data.length with
    | zero => simp [chunksAux]
    | succ n => unfold chunksAux; split <;> simp
  · simp

theorem hostChunks_bounds (data : List Nat) (hne : data ≠ []) : ∀ l ∈ hostChunks data, l ≠ [] ∧ l.length ≤ 63 := by
  unfold hostChunks
  split
  · intro l hl
    have := chunksAux_bounds _ gen_stride_pos data.length data hne (Nat.le_refl _) l hl
    exact ⟨this.1, Nat.le_trans this.2 gen_stride_le⟩
  · intro l hl
    simp at hl; subst hl
    exact ⟨hne, by have := gen_label_le; omega⟩

theorem hostChunks_dotted (data : List Nat) :
    (if data.length > SA.Gen.labelMaxLen then dotify data else data) ++ [dot] = dotted (hostChunks data) := by
  unfold hostChunks
  by_cases hlong : data.length > SA.Gen.labelMaxLen
  · simp only [hlong, if_true, dotify]; exact dotifyAux_dotted _ _ _
  · simp [hlong, dotted]

/-- the first label keeps the first two bytes together (the stride is at least 2) -/
theorem hostChunks_head (t0 t1 : Nat) (c : List Nat) :
    ∃ r more, hostChunks (t0 :: t1 :: c) = (t0 :: t1 :: r) :: more := by
  unfold hostChunks
  split
  · have hs : SA.Gen.C09.dotifyStride = 55 + 1 + 1 := rfl
    simp only [List.length_cons, chunksAux]
    split
    · rw [hs]; exact ⟨_, _, by simp only [List.take_succ_cons]; rfl⟩
    · exact ⟨c, [], rfl⟩
  · exact ⟨c, [], rfl⟩

/-- a target made by PrepareHostname from name-safe data over a plain domain, through Pack and Unpack -/
theorem prepareHostname_labels (data domain host : List Nat) (dls : List (List Nat))
    (hd : DataOk data) (hdom : DomainOk domain dls)
    (hfit : prepareHostname data domain = some host) :
    nameOverWire host = .ok (hostChunks data ++ dls) := by
  obtain ⟨hne, hbytes⟩ := hd
  obtain ⟨heq, hlen⟩ := prepareHostname_some data domain host hfit
  have hhost : host = dotted (hostChunks data ++ dls) := by
    rw [heq, dotted_append, ← hostChunks_dotted, hdom.dotted_eq]; simp
  have hgood : ∀ l ∈ hostChunks data ++ dls, GoodLabel l := by
    intro l hl
    rcases List.mem_append.mp hl with hl | hl
    · refine ⟨(hostChunks_bounds data hne l hl).1, (hostChunks_bounds data hne l hl).2, ?_⟩
      intro b hb
      have : b ∈ data := by rw [← hostChunks_flatten data]; exact List.mem_flatten.mpr ⟨l, hl, hb⟩
      exact ⟨(hbytes b this).1, (hbytes b this).2.1⟩
    · exact hdom.good l hl
  rw [hhost]
  apply nameOverWire_dotted _ hgood
  rw [← hhost]
  have := gen_host_lt
  omega

theorem hostChunks_bytes (data : List Nat) (hb : ∀ b ∈ data, b < 256) : ∀ l ∈ hostChunks data, ∀ b ∈ l, b < 256 := by
  intro l hl b hbl
  have : b ∈ data := by rw [← hostChunks_flatten data]; exact List.mem_flatten.mpr ⟨l, hl, hbl⟩
  exact hb b this

/-! ### one record of each name type -/

/-- a payload piece that can stand in a name as it is -/
def NameSafe (c : List Nat) : Prop := ∀ b ∈ c, b ≠ 46 ∧ b ≠ 92 ∧ b < 256

instance (c : List Nat) : Decidable (NameSafe c) := by unfold NameSafe; infer_instance

theorem rec_mx (L : Nat) (domain : List Nat) (dls : List (List Nat)) (hdom : DomainOk domain dls) (hL : L = domain.length)
    (o : Nat) (c : List Nat) (hne : c ≠ []) (hs : NameSafe c) (rr r' : RR)
    (hmk : (prepareHostname c domain).map (.mx ((o * 10) % 65536)) = some rr) (hw : rrOverWire rr = .ok r') :
    typePriority r' = some (tagKey .mx o) ∧ unwrapOne L r' = some c := by
  cases hfit : prepareHostname c domain with
  | none => simp [hfit] at hmk
  | some host =>
    simp only [hfit, Option.map_some, Option.some.injEq] at hmk
    subst hmk
    have hn := prepareHostname_labels c domain host dls ⟨hne, hs⟩ hdom hfit
    simp only [rrOverWire, hn] at hw
    have hw' := Except.ok.inj hw
    subst hw'
    subst hL
    refine ⟨by simp [typePriority, tagKey], ?_⟩
    simp only [unwrapOne]
    rw [nameData_unpack _ dls domain (hostChunks_ne c) (hostChunks_bytes c (fun b hb => (hs b hb).2.2))
      hdom.dotted_eq hdom.plain, hostChunks_flatten]

theorem tagChar_namePlain : ∀ m, m < 32 → escNameByte (SA.Gen.C09.c09cb32.getD m 0) = [SA.Gen.C09.c09cb32.getD m 0] := by decide

theorem tagChar_safe : ∀ m, m < 32 → SA.Gen.C09.c09cb32.getD m 0 ≠ 46 ∧ SA.Gen.C09.c09cb32.getD m 0 ≠ 92
    ∧ SA.Gen.C09.c09cb32.getD m 0 < 256 := by decide

theorem escJoin_head (t0 t1 : Nat) (r : List Nat) (more : List (List Nat))
    (h0 : escNameByte t0 = [t0]) (h1 : escNameByte t1 = [t1]) :
    escJoin ((t0 :: t1 :: r) :: more) = t0 :: t1 :: escJoin (r :: more) := by
  cases more with
  | nil => simp [escJoin, h0, h1]
  | cons m ms => simp [escJoin, h0, h1]

theorem rec_cname (L : Nat) (domain : List Nat) (dls : List (List Nat)) (hdom : DomainOk domain dls) (hL : L = domain.length)
    (o : Nat) (c : List Nat) (hs : NameSafe c) (rr r' : RR)
    (hmk : (prepareHostname (orderTag o ++ c) domain).map RR.cname = some rr) (hw : rrOverWire rr = .ok r') :
    typePriority r' = some (tagKey .cname o) ∧ unwrapOne L r' = some c := by
  cases hfit : prepareHostname (orderTag o ++ c) domain with
  | none => simp [hfit] at hmk
  | some host =>
    simp only [hfit, Option.map_some, Option.some.injEq] at hmk
    subst hmk
    have h0 := tagChar_safe (o % 32) (Nat.mod_lt _ (by decide))
    have h1 := tagChar_safe (o / 16 % 32) (Nat.mod_lt _ (by decide))
    have hp0 : escNameByte (b32Char o) = [b32Char o] := tagChar_namePlain (o % 32) (Nat.mod_lt _ (by decide))
    have hp1 : escNameByte (b32Char (o / 16)) = [b32Char (o / 16)] := tagChar_namePlain (o / 16 % 32) (Nat.mod_lt _ (by decide))
    have hdata : orderTag o ++ c = b32Char o :: b32Char (o / 16) :: c := rfl
    have hsafe : NameSafe (orderTag o ++ c) := by
      intro b hb
      rw [hdata] at hb
      rcases List.mem_cons.mp hb with rfl | hb
      · exact h0
      · rcases List.mem_cons.mp hb with rfl | hb
        · exact h1
        · exact hs b hb
    have hn := prepareHostname_labels _ domain host dls ⟨by simp [hdata], hsafe⟩ hdom hfit
    simp only [rrOverWire, hn] at hw
    have hw' := Except.ok.inj hw
    subst hw'
    subst hL
    obtain ⟨r, more, hch⟩ := hostChunks_head (b32Char o) (b32Char (o / 16)) c
    have hflat := hostChunks_flatten (orderTag o ++ c)
    have hbytes := hostChunks_bytes (orderTag o ++ c) (fun b hb => (hsafe b hb).2.2)
    rw [hdata] at hn hflat hbytes ⊢
    rw [hch] at hflat hbytes ⊢
    have hname := unpackName_chunks ((b32Char o :: b32Char (o / 16) :: r) :: more) dls domain (by simp)
      hdom.dotted_eq hdom.plain
    rw [escJoin_head _ _ r more hp0 hp1] at hname
    simp only [List.cons_append] at hname
    have hrm : (r :: more).flatten = c := by simpa using hflat
    have hbrm : ∀ l ∈ r :: more, ∀ b ∈ l, b < 256 := by
      intro l hl b hb
      rcases List.mem_cons.mp hl with rfl | hl
      · exact hbytes _ (List.mem_cons_self) b (by simp [hb])
      · exact hbytes l (List.mem_cons_of_mem _ hl) b hb
    have hun : SA.Gen.C09.unwrapUnescapesNames = true := by decide
    have hlen : (escJoin (r :: more) ++ dot :: (domain ++ [dot])).length = (escJoin (r :: more)).length + domain.length + 2 := by
      simp; omega
    have hnot : ¬ ((escJoin (r :: more) ++ dot :: (domain ++ [dot])).length < domain.length + 2) := by omega
    have htake : (escJoin (r :: more) ++ dot :: (domain ++ [dot])).take
        ((escJoin (r :: more) ++ dot :: (domain ++ [dot])).length - domain.length - 2) = escJoin (r :: more) := by
      have : (escJoin (r :: more) ++ dot :: (domain ++ [dot])).length - domain.length - 2 = (escJoin (r :: more)).length := by omega
      rw [this]; simp
    generalize escJoin (r :: more) ++ dot :: (domain ++ [dot]) = X at hname hnot htake
    have hd2 : (b32Char o :: b32Char (o / 16) :: X).drop 2 = X := rfl
    have hl2 : ¬ ((b32Char o :: b32Char (o / 16) :: X).length < 2) := by simp
    simp only [List.cons_append]
    refine ⟨by simp only [typePriority, hname, tagKey, key32], ?_⟩
    simp only [unwrapOne, hname, hl2, if_false, hd2, stripNameTail, hnot, htake, Option.map_some, nameData, hun, if_true,
      unescapePresentation, unescGo_escJoin _ hbrm, hrm]

/-- an over-long first label is refused by packDomainName -/
theorem packName_long (c rest : List Nat) (hs : NoSyntax c) (hlen : 64 ≤ c.length) :
    packName (c ++ dot :: rest) = none := by
  unfold packName
  rw [packLoop_plain c hs]
  have h1 : (dot == bsl) = false := by decide
  simp [packLoop, h1, hlen]

theorem rec_srv (L : Nat) (domain : List Nat) (dls : List (List Nat)) (hdom : DomainOk domain dls) (hL : L = domain.length)
    (o : Nat) (c : List Nat) (hne : c ≠ []) (hs : NameSafe c) (r' : RR)
    (hw : rrOverWire (.srv (o % 65536) (c ++ dot :: (domain ++ [dot]))) = .ok r') :
    typePriority r' = some (tagKey .srv o) ∧ unwrapOne L r' = some c := by
  have hns : NoSyntax c := fun b hb => ⟨(hs b hb).1, (hs b hb).2.1⟩
  have hname : c ++ dot :: (domain ++ [dot]) = dotted ([c] ++ dls) := by
    rw [dotted_append, hdom.dotted_eq]; simp [dotted]
  have hls : nameOverWire (c ++ dot :: (domain ++ [dot])) = .ok ([c] ++ dls) ∨
      ∃ e, nameOverWire (c ++ dot :: (domain ++ [dot])) = .error e := by
    by_cases hlong : 64 ≤ c.length
    · right
      exact ⟨.pack, by simp [nameOverWire, packName_long c _ hns hlong]⟩
    · have hgood : ∀ l ∈ [c] ++ dls, GoodLabel l := by
        intro l hl
        rcases List.mem_append.mp hl with hl | hl
        · simp at hl; subst hl; exact ⟨hne, by omega, hns⟩
        · exact hdom.good l hl
      rw [hname]
      unfold nameOverWire
      rw [packName_dotted _ hgood]
      by_cases hbud : nameBudgetOk ([c] ++ dls) = true
      · left; simp only [hbud, if_true]
      · right; exact ⟨.unpack, by simp only [hbud, Bool.false_eq_true, if_false]⟩
  rcases hls with hok | ⟨e, herr⟩
  · simp only [rrOverWire, hok] at hw
    have hw' := Except.ok.inj hw
    subst hw'
    subst hL
    refine ⟨by simp [typePriority, tagKey], ?_⟩
    simp only [unwrapOne]
    rw [nameData_unpack [c] dls domain (by simp) (by
      intro l hl b hb; simp at hl; subst hl; exact (hs b hb).2.2) hdom.dotted_eq hdom.plain]
    simp
  · simp only [rrOverWire, herr] at hw
    cases hw

/-! ### the whole answer section -/

theorem nameRecs_length (maxLen : Nat) (mk : Nat → List Nat → Option RR) (fuel o : Nat) (data : List Nat)
    (answers : List RR) (hw : nameRecs maxLen mk fuel o data = some answers) :
    answers.length = (pieces maxLen fuel data).length := by
  induction fuel generalizing o data answers with
  | zero => simp [nameRecs] at hw; subst hw; rfl
  | succ n ih =>
    unfold nameRecs at hw
    unfold pieces
    by_cases he : data.isEmpty = true
    · simp only [he, if_true, Option.some.injEq] at hw ⊢; subst hw; rfl
    · simp only [he, Bool.false_eq_true, if_false] at hw ⊢
      cases hmk : mk o (data.take maxLen) with
      | none => simp [hmk] at hw
      | some rr =>
        cases hrest : nameRecs maxLen mk n (o + 1) (data.drop maxLen) with
        | none => simp [hmk, hrest] at hw
        | some rest =>
          simp only [hmk, hrest, Option.map_some, Option.some.injEq] at hw
          subst hw
          simp [ih _ _ _ hrest]

theorem tagged_nameRecs (L : Nat) (kf : Nat → Int) (maxLen : Nat) (hm : 0 < maxLen)
    (mk : Nat → List Nat → Option RR) (hi : Nat) (P : List Nat → Prop)
    (hrec : ∀ o c rr r', o < hi → c ≠ [] → P c → mk o c = some rr → rrOverWire rr = .ok r' →
      typePriority r' = some (kf o) ∧ unwrapOne L r' = some c)
    (fuel o : Nat) (data : List Nat) (answers got : List RR)
    (hP : ∀ p ∈ pieces maxLen fuel data, P p)
    (hw : nameRecs maxLen mk fuel o data = some answers) (hwire : answersOverWire answers = .ok got)
    (hlen : o + answers.length ≤ hi) :
    got.length = answers.length ∧ Tagged L kf o got (pieces maxLen fuel data) := by
  induction fuel generalizing o data answers got with
  | zero =>
    simp [nameRecs] at hw; subst hw
    simp [answersOverWire] at hwire; subst hwire
    exact ⟨rfl, Tagged.nil o⟩
  | succ n ih =>
    have hb := pieces_bounds maxLen hm (n + 1) data
    unfold nameRecs at hw
    unfold pieces at hP hb ⊢
    by_cases he : data.isEmpty = true
    · simp only [he, if_true, Option.some.injEq] at hw ⊢; subst hw
      simp [answersOverWire] at hwire; subst hwire
      exact ⟨rfl, Tagged.nil o⟩
    · simp only [he, Bool.false_eq_true, if_false] at hw hP hb ⊢
      cases hmk : mk o (data.take maxLen) with
      | none => simp [hmk] at hw
      | some rr =>
        cases hrest : nameRecs maxLen mk n (o + 1) (data.drop maxLen) with
        | none => simp [hmk, hrest] at hw
        | some rest =>
          simp only [hmk, hrest, Option.map_some, Option.some.injEq] at hw
          subst hw
          unfold answersOverWire at hwire
          cases h1 : rrOverWire rr with
          | error e => simp [h1] at hwire
          | ok r' =>
            cases h2 : answersOverWire rest with
            | error e => simp [h1, h2] at hwire
            | ok rs' =>
              simp only [h1, h2, Except.ok.injEq] at hwire
              subst hwire
              simp only [List.length_cons] at hlen
              have hp := hb (data.take maxLen) (List.mem_cons_self)
              have hr := hrec o (data.take maxLen) rr r' (by omega) hp.1 (hP _ (List.mem_cons_self)) hmk h1
              have hi' := ih (o + 1) (data.drop maxLen) rest rs' (fun p hp => hP p (List.mem_cons_of_mem _ hp)) hrest h2 (by omega)
              exact ⟨by simp [hi'.1], Tagged.cons o _ _ _ _ hr.1 hr.2 hi'.2⟩

/-- what arrives for a name-carrying type is `Tagged` with the pieces of the payload -/
theorem tagged_names (t : RRType) (ht : t = .srv ∨ t = .mx ∨ t = .cname)
    (domain : List Nat) (dls : List (List Nat)) (hdom : DomainOk domain dls)
    (data : List Nat) (hs : NameSafe data) (answers got : List RR)
    (hw : wrap t domain data = some answers) (hwire : answersOverWire answers = .ok got)
    (hcount : answers.length ≤ tagBound t) :
    ∃ chunk, 0 < chunk ∧ got.length = answers.length ∧ answers.length = (pieces chunk data.length data).length ∧
      Tagged domain.length (tagKey t) 1 got (pieces chunk data.length data) := by
  have hP : ∀ chunk, ∀ p ∈ pieces chunk data.length data, NameSafe p :=
    fun chunk p hp b hb => hs b (pieces_mem_sub chunk _ data p hp b hb)
  rcases ht with rfl | rfl | rfl
  · simp only [wrap] at hw
    split at hw
    · exact absurd hw (by simp)
    · rename_i hm
      have hm' : 0 < (longestDataString domain.length).toNat := Nat.pos_of_ne_zero hm
      refine ⟨_, hm', ?_, nameRecs_length _ _ _ _ _ _ hw, ?_⟩
      · exact (tagged_nameRecs domain.length (tagKey .srv) _ hm' _ 65536 NameSafe
          (fun o c rr r' _ hne hsc hmk hwr => by
            simp only [Option.some.injEq] at hmk; subst hmk
            exact rec_srv _ domain dls hdom rfl o c hne hsc r' hwr)
          _ 1 data answers got (hP _) hw hwire (by simp only [tagBound] at hcount; omega)).1
      · exact (tagged_nameRecs domain.length (tagKey .srv) _ hm' _ 65536 NameSafe
          (fun o c rr r' _ hne hsc hmk hwr => by
            simp only [Option.some.injEq] at hmk; subst hmk
            exact rec_srv _ domain dls hdom rfl o c hne hsc r' hwr)
          _ 1 data answers got (hP _) hw hwire (by simp only [tagBound] at hcount; omega)).2
  · simp only [wrap] at hw
    split at hw
    · exact absurd hw (by simp)
    · rename_i hm
      have hm' : 0 < (longestDataString domain.length).toNat := Nat.pos_of_ne_zero hm
      have := tagged_nameRecs domain.length (tagKey .mx) _ hm' _ 65536 NameSafe
          (fun o c rr r' _ hne hsc hmk hwr => rec_mx _ domain dls hdom rfl o c hne hsc rr r' hmk hwr)
          _ 1 data answers got (hP _) hw hwire (by simp only [tagBound] at hcount; omega)
      exact ⟨_, hm', this.1, nameRecs_length _ _ _ _ _ _ hw, this.2⟩
  · simp only [wrap] at hw
    split at hw
    · exact absurd hw (by simp)
    · rename_i hm
      have hm' : 0 < (longestDataString domain.length).toNat := Nat.pos_of_ne_zero hm
      have := tagged_nameRecs domain.length (tagKey .cname) _ hm' _ 65536 NameSafe
          (fun o c rr r' _ _ hsc hmk hwr => rec_cname _ domain dls hdom rfl o c hsc rr r' hmk hwr)
          _ 1 data answers got (hP _) hw hwire (by simp only [tagBound] at hcount; omega)
      exact ⟨_, hm', this.1, nameRecs_length _ _ _ _ _ _ hw, this.2⟩

end SA.DnsResp

import SA.Model.StalledSession
namespace SA.StalledSession

/-- progress is never undone -/
theorem step_mono (p : Policy) (s : St) (a : Act) :
    (s.writeFailed = true → (step p s a).writeFailed = true) ∧
    (s.sessionClosed = true → (step p s a).sessionClosed = true) ∧
    (s.acceptEnded = true → (step p s a).acceptEnded = true) ∧
    (s.targetClosed = true → (step p s a).targetClosed = true) := by
  cases a <;> simp only [step] <;> (try split) <;> simp_all

theorem run_mono (p : Policy) (s : St) (as : List Act) :
    (s.writeFailed = true → (run p s as).writeFailed = true) ∧
    (s.sessionClosed = true → (run p s as).sessionClosed = true) ∧
    (s.acceptEnded = true → (run p s as).acceptEnded = true) ∧
    (s.targetClosed = true → (run p s as).targetClosed = true) := by
  induction as generalizing s with
  | nil => simp [run]
  | cons a as ih =>
      have h := step_mono p s a
      have h' := ih (step p s a)
      simp only [run, List.foldl_cons] at h' ⊢
      exact ⟨fun x => h'.1 (h.1 x), fun x => h'.2.1 (h.2.1 x), fun x => h'.2.2.1 (h.2.2.1 x), fun x => h'.2.2.2 (h.2.2.2 x)⟩

theorem run_append (p : Policy) (s : St) (xs ys : List Act) : run p s (xs ++ ys) = run p (run p s xs) ys := by
  simp [run, List.foldl_append]

/-- a stretch of schedule in which action `a` occurs -/
theorem run_with (p : Policy) (s : St) (as : List Act) (a : Act) (h : a ∈ as) :
    ∃ xs ys, as = xs ++ a :: ys := List.append_of_mem h

end SA.StalledSession

namespace SA.StalledSession

def both : Policy := ⟨true, true⟩

theorem ping_fails (t : St) : (step both t .ping).writeFailed = true := rfl
theorem close_after_fail (t : St) (h : t.writeFailed = true) : (step both t .closeSession).sessionClosed = true := by
  simp [step, both, h]
theorem announce_after_close (t : St) (h : t.sessionClosed = true) :
    (step both t .announce).acceptEnded = true ∧ (step both t .announce).sessionClosed = true := by
  simp [step, h]
theorem release_after_announce (t : St) (h : t.acceptEnded = true) (hc : t.sessionClosed = true) :
    released (step both t .releaseTarget) = true := by
  simp [step, both, h, hc, released]
theorem released_stays (t : St) (as : List Act) (h : released t = true) : released (run both t as) = true := by
  simp only [released, Bool.and_eq_true] at h ⊢
  have m := run_mono both t as
  exact ⟨⟨m.2.1 h.1.1, m.2.2.1 h.1.2⟩, m.2.2.2 h.2⟩

/-- with both policies, every schedule in which the four activities get their turn in causal order (anything may happen
    before, between and after) ends with everything released -/
theorem released_of_turns (s : St) (A0 A1 A2 A3 A4 : List Act) :
    released (run both s
      (A0 ++ Act.ping :: (A1 ++ Act.closeSession :: (A2 ++ Act.announce :: (A3 ++ Act.releaseTarget :: A4))))) = true := by
  have split : ∀ (t : St) (xs : List Act) (a : Act) (ys : List Act),
      run both t (xs ++ a :: ys) = run both (step both (run both t xs) a) ys := by
    intro t xs a ys; simp [run, List.foldl_append]
  rw [split, split, split, split]
  apply released_stays
  have w := (run_mono both _ A1).1 (ping_fails (run both s A0))
  have c := (run_mono both _ A2).2.1 (close_after_fail _ w)
  have a := announce_after_close _ c
  have a2 := (run_mono both _ A3).2.2.1 a.1
  have a2c := (run_mono both _ A3).2.1 a.2
  exact release_after_announce _ a2 a2c

/-- without the carrier watch nothing is ever released, whatever the schedule -/
theorem stuck_without_watch (r : Bool) (as : List Act) :
    (run ⟨false, r⟩ {} as).sessionClosed = false ∧ (run ⟨false, r⟩ {} as).acceptEnded = false ∧
    (run ⟨false, r⟩ {} as).targetClosed = false := by
  suffices h : ∀ s : St, s.sessionClosed = false → s.acceptEnded = false → s.targetClosed = false →
      (run ⟨false, r⟩ s as).sessionClosed = false ∧ (run ⟨false, r⟩ s as).acceptEnded = false ∧
      (run ⟨false, r⟩ s as).targetClosed = false from h {} rfl rfl rfl
  induction as with
  | nil => intro s a b c; exact ⟨a, b, c⟩
  | cons x xs ih =>
      intro s a b c
      simp only [run, List.foldl_cons]
      apply ih
      all_goals (cases x <;> simp [step, a, b, c])

/-- without the handlers' release the connection to the stalled target stays, whatever the schedule -/
theorem target_stays_without_release (w : Bool) (as : List Act) :
    (run ⟨w, false⟩ {} as).targetClosed = false := by
  suffices h : ∀ s : St, s.targetClosed = false → (run ⟨w, false⟩ s as).targetClosed = false from h {} rfl
  induction as with
  | nil => intro s c; exact c
  | cons x xs ih =>
      intro s c
      simp only [run, List.foldl_cons]
      apply ih
      cases x <;> simp only [step] <;> (try split) <;> simp_all

end SA.StalledSession

/-
  SA.Proofs.WireCodecInst — C08's theorems restated as the hypotheses `Codec.Good` / `Codec.Safe` of the
  wire models, for every codec that can be selected upstream; and the length of Dotify's output.
-/
import SA.Props.C08
import SA.Proofs.DnsWire
import SA.Model.WireCodecInst

namespace SA.WireCodec
open SA.Codec (dnsSafe)

/-- the codecs a client can select for the upstream direction: the registry without Raw (not
    name-safe by design, TXT answers only) and without Base192 (open finding C08-F1) -/
def upstreamCodecs : List SA.Codec.Codec := [.b32, .b64, .b64u, .b85, .b91, .b128]

theorem dnsSafe_wire {x : Nat} (h : dnsSafe x = true) : x ≠ 46 ∧ x ≠ 92 ∧ x < 256 := by
  simp only [dnsSafe, Bool.and_eq_true, decide_eq_true_eq, bne_iff_ne, ne_eq] at h
  exact ⟨h.1.1.2, h.1.2, h.2⟩

theorem ofC08_good (cd : SA.Codec.Codec) (h : cd ∈ upstreamCodecs) : (ofC08 cd).Good := by
  constructor
  intro bs hbs
  simp only [upstreamCodecs, List.mem_cons, List.not_mem_nil, or_false] at h
  rcases h with rfl | rfl | rfl | rfl | rfl | rfl
  · exact SA.Codec.C08_roundtrip_b32 bs hbs
  · exact SA.Codec.C08_roundtrip_b64 bs hbs
  · exact SA.Codec.C08_roundtrip_b64u bs hbs
  · exact SA.Codec.C08_roundtrip_b85 bs hbs
  · exact SA.Codec.C08_roundtrip_b91 bs hbs
  · exact SA.Codec.C08_roundtrip_b128 bs hbs

theorem ofC08_safe (cd : SA.Codec.Codec) (h : cd ∈ upstreamCodecs) : (ofC08 cd).Safe := by
  constructor
  intro bs hbs x hx
  simp only [upstreamCodecs, List.mem_cons, List.not_mem_nil, or_false] at h
  rcases h with rfl | rfl | rfl | rfl | rfl | rfl
  · exact dnsSafe_wire (SA.Codec.C08_alphabet_safe_b32 bs hbs x hx)
  · exact dnsSafe_wire (SA.Codec.C08_alphabet_safe_b64 bs hbs x hx)
  · exact dnsSafe_wire (SA.Codec.C08_alphabet_safe_b64u bs hbs x hx)
  · exact dnsSafe_wire (SA.Codec.C08_alphabet_safe_b85 bs hbs x hx)
  · exact dnsSafe_wire (SA.Codec.C08_alphabet_safe_b91 bs hbs x hx)
  · exact dnsSafe_wire (SA.Codec.C08_alphabet_safe_b128 bs hbs x hx)

end SA.WireCodec

namespace SA.DnsWire

/-- the only fact about Dotify's stride the size budget needs (together with `gen_stride_le`: ≤ 63):
    a larger stride means fewer dots -/
theorem gen_stride_ge : 57 ≤ SA.Gen.C09.dotifyStride := by decide

theorem dotifyAux_length (s : Nat) (hs : 0 < s) : ∀ (fuel : Nat) (buf : List Nat), buf.length ≤ fuel →
    (dotifyAux s fuel buf).length = buf.length + (buf.length - 1) / s := by
  intro fuel
  induction fuel with
  | zero =>
    intro buf h
    have : buf = [] := List.eq_nil_of_length_eq_zero (by omega)
    subst this
    simp [dotifyAux]
  | succ fuel ih =>
    intro buf h
    unfold dotifyAux
    by_cases hlt : s < buf.length
    · have hd := ih (buf.drop s) (by simp only [List.length_drop]; omega)
      have hdiv : (buf.length - 1) / s = (buf.length - 1 - s) / s + 1 :=
        Nat.div_eq_sub_div hs (by omega)
      simp only [hlt, if_true, List.length_append, List.length_cons, List.length_take, hd,
        List.length_drop, hdiv]
      have : buf.length - s - 1 = buf.length - 1 - s := by omega
      rw [this]
      omega
    · simp only [hlt, if_false]
      have : (buf.length - 1) / s = 0 := Nat.div_eq_of_lt (by omega)
      omega

/-- Dotify adds ⌊(n−1)/stride⌋ dots to n characters -/
theorem dotify_length (buf : List Nat) :
    (dotify buf).length = buf.length + (buf.length - 1) / SA.Gen.C09.dotifyStride := by
  unfold dotify
  exact dotifyAux_length _ gen_stride_pos buf.length buf (Nat.le_refl _)

/-- … hence at most ⌊(n−1)/57⌋ for any stride ≥ 57 -/
theorem dotify_length_le (buf : List Nat) : (dotify buf).length ≤ buf.length + (buf.length - 1) / 57 := by
  rw [dotify_length]
  exact Nat.add_le_add_left (Nat.div_le_div_left gen_stride_ge (by decide)) _

/-- PrepareHostname accepts whenever data + dots + domain + 2 dots stay within HostnameMaxLen − 2 -/
theorem prepareHostname_fits (data domain : List Nat)
    (h : data.length + (if data.length > 60 then (data.length - 1) / 57 else 0) + domain.length + 2 ≤ 251) :
    ∃ host, prepareHostname data domain = some host := by
  have h1 : SA.Gen.labelMaxLen = 60 := by decide
  have h2 : SA.Gen.hostnameMaxLen - SA.Gen.C09.prepareSlack = 251 := by decide
  unfold prepareHostname
  simp only [h1, h2]
  by_cases hl : data.length > 60
  · simp only [hl, if_true] at h ⊢
    have : ¬ ((dotify data ++ dot :: (domain ++ [dot])).length > 251) := by
      have := dotify_length_le data
      simp only [List.length_append, List.length_cons, List.length_nil]; omega
    simp only [this, if_false]
    exact ⟨_, rfl⟩
  · simp only [hl, if_false] at h ⊢
    have : ¬ ((data ++ dot :: (domain ++ [dot])).length > 251) := by
      simp only [List.length_append, List.length_cons, List.length_nil]; omega
    simp only [this, if_false]
    exact ⟨_, rfl⟩

end SA.DnsWire

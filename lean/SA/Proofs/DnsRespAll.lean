/-
  SA.Proofs.DnsRespAll — the eight record types together: what arrives is `Tagged` (so unwrapping any
  permutation of it under any correct sort gives the payload back), how many records a wrapper makes,
  and when Pack/Unpack is certain to succeed.
-/
import SA.Proofs.DnsRespTxt
import SA.Proofs.DnsRespNames

namespace SA.DnsResp
open SA.DnsWire SA.WireCodec SA.DnsReq

def isName : RRType → Bool
  | .srv => true
  | .mx => true
  | .cname => true
  | _ => false

/-- the region of the open finding `C10-raw-over-names`: a name-carrying record type and an encoded
    payload containing '.' or '\\' (in practice: the Raw codec; the other codecs never emit them) -/
def rawOverNames (t : RRType) (enc : List Nat) : Bool := isName t && enc.any (fun b => b == 46 || b == 92)

def ceilDiv (n c : Nat) : Nat := (n + c - 1) / c

/-- the number of answer records WrapDnsResponse makes for `len` encoded bytes -/
def recordCount (t : RRType) (domainLen len : Nat) : Nat :=
  match t with
  | .null => ceilDiv len SA.Gen.C09.wrapChunkNull
  | .priv => ceilDiv len SA.Gen.C09.wrapChunkPrivate
  | .aaaa => ceilDiv len SA.Gen.C09.wrapChunkAAAA
  | .a => ceilDiv len SA.Gen.C09.wrapChunkA
  | .txt => ceilDiv (ceilDiv len SA.Gen.C09.wrapChunkTxt) SA.Gen.C09.wrapTxtStrings
  | .srv => ceilDiv len (longestDataString domainLen).toNat
  | .mx => ceilDiv len (longestDataString domainLen).toNat
  | .cname => ceilDiv len (longestDataString domainLen).toNat

theorem pieces253_le (data : List Nat) : (pieces SA.Gen.C09.wrapChunkTxt data.length data).length ≤ data.length := by
  rw [pieces_length _ (by decide) _ _ (Nat.le_refl _)]
  have : SA.Gen.C09.wrapChunkTxt = 253 := rfl
  rw [this]; omega

theorem wrap_count (t : RRType) (domain data : List Nat) (answers : List RR)
    (hw : wrap t domain data = some answers) : answers.length = recordCount t domain.length data.length := by
  cases t with
  | null =>
    simp only [wrap, Option.some.injEq] at hw; subst hw
    rw [List.length_map, chunkRecs_length, pieces_length _ (by decide) _ _ (Nat.le_refl _)]; rfl
  | priv =>
    simp only [wrap, Option.some.injEq] at hw; subst hw
    rw [List.length_map, chunkRecs_length, pieces_length _ (by decide) _ _ (Nat.le_refl _)]; rfl
  | aaaa =>
    simp only [wrap, Option.some.injEq] at hw; subst hw
    rw [List.length_map, chunkRecs_length, pieces_length _ (by decide) _ _ (Nat.le_refl _)]; rfl
  | a =>
    simp only [wrap] at hw
    split at hw
    · exact absurd hw (by simp)
    · simp only [Option.some.injEq] at hw; subst hw
      rw [List.length_map, chunkRecs_length, pieces_length _ (by decide) _ _ (Nat.le_refl _)]; rfl
  | txt =>
    simp only [wrap, txtStrings_spec, Option.some.injEq] at hw; subst hw
    rw [List.length_map, txtRecs_length, pieces_length _ (by decide) _ _ (pieces253_le data),
      pieces_length _ (by decide) _ _ (Nat.le_refl _)]; rfl
  | srv =>
    simp only [wrap] at hw
    split at hw
    · exact absurd hw (by simp)
    · rename_i hm
      rw [nameRecs_length _ _ _ _ _ _ hw, pieces_length _ (Nat.pos_of_ne_zero hm) _ _ (Nat.le_refl _)]; rfl
  | mx =>
    simp only [wrap] at hw
    split at hw
    · exact absurd hw (by simp)
    · rename_i hm
      rw [nameRecs_length _ _ _ _ _ _ hw, pieces_length _ (Nat.pos_of_ne_zero hm) _ _ (Nat.le_refl _)]; rfl
  | cname =>
    simp only [wrap] at hw
    split at hw
    · exact absurd hw (by simp)
    · rename_i hm
      rw [nameRecs_length _ _ _ _ _ _ hw, pieces_length _ (Nat.pos_of_ne_zero hm) _ _ (Nat.le_refl _)]; rfl

theorem nameSafe_of (t : RRType) (data : List Nat) (hb : SA.Bytes data) (hn : isName t = true)
    (hexc : rawOverNames t data = false) : NameSafe data := by
  intro b hbd
  simp only [rawOverNames, hn, Bool.true_and, List.any_eq_false] at hexc
  have := hexc b hbd
  simp at this
  exact ⟨this.1, this.2, hb b hbd⟩

/-- **what arrives is tagged with the pieces of the payload**, for every record type, whenever
    wrapping and Pack/Unpack succeed, outside the raw-over-names region, within the tag range -/
theorem tagged_all (t : RRType) (domain : List Nat) (dls : List (List Nat)) (data : List Nat)
    (answers got : List RR) (hb : SA.Bytes data) (hexc : rawOverNames t data = false)
    (hdom : isName t = true → DomainOk domain dls)
    (hw : wrap t domain data = some answers) (hwire : answersOverWire answers = .ok got)
    (hcount : answers.length ≤ tagBound t) :
    ∃ ds, got.length = answers.length ∧ ds.flatten = data ∧ Tagged domain.length (tagKey t) (tagStart t) got ds := by
  cases t with
  | null =>
    obtain ⟨chunk, hc, hg, _, htag⟩ := tagged_binary .null (Or.inl rfl) domain data answers got hw hwire hcount
    exact ⟨_, by rw [hg], pieces_flatten chunk hc _ _ (Nat.le_refl _), htag⟩
  | priv =>
    obtain ⟨chunk, hc, hg, _, htag⟩ := tagged_binary .priv (Or.inr (Or.inl rfl)) domain data answers got hw hwire hcount
    exact ⟨_, by rw [hg], pieces_flatten chunk hc _ _ (Nat.le_refl _), htag⟩
  | aaaa =>
    obtain ⟨chunk, hc, hg, _, htag⟩ := tagged_binary .aaaa (Or.inr (Or.inr (Or.inl rfl))) domain data answers got hw hwire hcount
    exact ⟨_, by rw [hg], pieces_flatten chunk hc _ _ (Nat.le_refl _), htag⟩
  | a =>
    obtain ⟨chunk, hc, hg, _, htag⟩ := tagged_binary .a (Or.inr (Or.inr (Or.inr rfl))) domain data answers got hw hwire hcount
    exact ⟨_, by rw [hg], pieces_flatten chunk hc _ _ (Nat.le_refl _), htag⟩
  | txt =>
    obtain ⟨answers', got', gs, h1, h2, h3, _, _, h6, h7⟩ := tagged_txt domain data hb
    rw [hw] at h1
    have := Option.some.inj h1
    subst this
    rw [hwire] at h2
    have := Except.ok.inj h2
    subst this
    exact ⟨_, h3, h6, h7⟩
  | srv =>
    obtain ⟨chunk, hc, hg, _, htag⟩ := tagged_names .srv (Or.inl rfl) domain dls (hdom rfl) data
      (nameSafe_of .srv data hb rfl hexc) answers got hw hwire hcount
    exact ⟨_, hg, pieces_flatten chunk hc _ _ (Nat.le_refl _), htag⟩
  | mx =>
    obtain ⟨chunk, hc, hg, _, htag⟩ := tagged_names .mx (Or.inr (Or.inl rfl)) domain dls (hdom rfl) data
      (nameSafe_of .mx data hb rfl hexc) answers got hw hwire hcount
    exact ⟨_, hg, pieces_flatten chunk hc _ _ (Nat.le_refl _), htag⟩
  | cname =>
    obtain ⟨chunk, hc, hg, _, htag⟩ := tagged_names .cname (Or.inr (Or.inr rfl)) domain dls (hdom rfl) data
      (nameSafe_of .cname data hb rfl hexc) answers got hw hwire hcount
    exact ⟨_, hg, pieces_flatten chunk hc _ _ (Nat.le_refl _), htag⟩

/-- UnwrapDnsResponse returns the payload: any arrival order, any correct sort -/
theorem unwrap_wire_wrap (t : RRType) (domain : List Nat) (dls : List (List Nat)) (data : List Nat)
    (answers got : List RR) (hb : SA.Bytes data) (hexc : rawOverNames t data = false)
    (hdom : isName t = true → DomainOk domain dls)
    (hw : wrap t domain data = some answers) (hwire : answersOverWire answers = .ok got)
    (hcount : answers.length ≤ tagBound t)
    (sort : List (Int × RR) → List (Int × RR)) (hs : SortSpec sort) (xs : List RR) (hp : xs.Perm got) :
    got.length = answers.length ∧ unwrapWith sort domain.length xs = some data := by
  obtain ⟨ds, hlen, hflat, htag⟩ := tagged_all t domain dls data answers got hb hexc hdom hw hwire hcount
  refine ⟨hlen, ?_⟩
  rw [← hflat]
  exact unwrap_tagged hs domain.length (tagKey t) (tagStart t) got ds htag
    (fun i j h1 h2 h3 => tagKey_mono t i j h1 h2 (by omega)) xs hp

/-! ### when Pack/Unpack is certain to succeed -/

theorem chunkRecs_mem (chunk : Nat) (pre : Nat → List Nat) (fuel o : Nat) (data : List Nat) :
    ∀ d ∈ chunkRecs chunk pre fuel o data, ∃ o' p, d = pre o' ++ p ∧ p ∈ pieces chunk fuel data := by
  induction fuel generalizing o data with
  | zero => intro d hd; simp [chunkRecs] at hd
  | succ n ih =>
    unfold chunkRecs pieces
    by_cases he : data.isEmpty = true
    · simp [he]
    · simp only [he, Bool.false_eq_true, if_false]
      intro d hd
      rcases List.mem_cons.mp hd with rfl | hd
      · exact ⟨o, _, rfl, List.mem_cons_self⟩
      · obtain ⟨o', p, h1, h2⟩ := ih _ _ d hd
        exact ⟨o', p, h1, List.mem_cons_of_mem _ h2⟩

theorem pieces_exact {α : Type} (chunk : Nat) (_hc : 0 < chunk) (fuel : Nat) (data : List α)
    (hmod : data.length % chunk = 0) : ∀ p ∈ pieces chunk fuel data, p.length = chunk := by
  induction fuel generalizing data with
  | zero => intro p hp; simp [pieces] at hp
  | succ n ih =>
    unfold pieces
    by_cases he : data.isEmpty = true
    · simp [he]
    · simp only [he, Bool.false_eq_true, if_false]
      have hne : data ≠ [] := by intro h; subst h; simp at he
      have hpos : 0 < data.length := List.length_pos_iff.mpr hne
      have hge : chunk ≤ data.length := by
        rcases Nat.lt_or_ge data.length chunk with h | h
        · rw [Nat.mod_eq_of_lt h] at hmod; omega
        · exact h
      intro p hp
      rcases List.mem_cons.mp hp with rfl | hp
      · rw [List.length_take]; omega
      · refine ih (data.drop chunk) ?_ p hp
        rw [List.length_drop, ← Nat.mod_eq_sub_mod hge]; exact hmod

theorem wire_null_priv (mk : List Nat → RR) (hmk : mk = RR.null ∨ mk = RR.priv) (chunk : Nat) (hc : 0 < chunk)
    (hch : chunk + 2 ≤ 65535) (fuel o : Nat) (data : List Nat) :
    answersOverWire ((chunkRecs chunk (fun o => le16 o) fuel o data).map mk)
      = .ok ((chunkRecs chunk (fun o => le16 o) fuel o data).map mk) := by
  apply answersOverWire_all
  intro r hr
  obtain ⟨d, hd, rfl⟩ := List.mem_map.mp hr
  obtain ⟨o', p, rfl, hp⟩ := chunkRecs_mem _ _ _ _ _ d hd
  have hpl := (pieces_bounds chunk hc fuel data p hp).2
  have hlen : (le16 o' ++ p).length ≤ 65535 := by rw [List.length_append]; simp [le16]; omega
  rcases hmk with rfl | rfl
  · simp only [rrOverWire, hlen, if_true]
  · have : ¬ ((le16 o' ++ p).length > 65535) := by omega
    simp only [rrOverWire, this, if_false, private_registered, if_true]

theorem wire_aaaa (fuel o : Nat) (data : List Nat) (hmod : data.length % SA.Gen.C09.wrapChunkAAAA = 0) :
    answersOverWire ((chunkRecs SA.Gen.C09.wrapChunkAAAA (fun o => le16 o) fuel o data).map .aaaa)
      = .ok ((chunkRecs SA.Gen.C09.wrapChunkAAAA (fun o => le16 o) fuel o data).map .aaaa) := by
  apply answersOverWire_all
  intro r hr
  obtain ⟨d, hd, rfl⟩ := List.mem_map.mp hr
  obtain ⟨o', p, rfl, hp⟩ := chunkRecs_mem _ _ _ _ _ d hd
  have hpl := pieces_exact _ (by decide) fuel data hmod p hp
  have hlen : (le16 o' ++ p).length = 16 := by rw [List.length_append, hpl]; rfl
  simp [rrOverWire, hlen]

theorem wire_a (fuel o : Nat) (data : List Nat) (hmod : data.length % SA.Gen.C09.wrapChunkA = 0) :
    answersOverWire ((chunkRecs SA.Gen.C09.wrapChunkA (fun o => [o % 256]) fuel o data).map .a)
      = .ok ((chunkRecs SA.Gen.C09.wrapChunkA (fun o => [o % 256]) fuel o data).map .a) := by
  apply answersOverWire_all
  intro r hr
  obtain ⟨d, hd, rfl⟩ := List.mem_map.mp hr
  obtain ⟨o', p, rfl, hp⟩ := chunkRecs_mem _ _ _ _ _ d hd
  have hpl := pieces_exact _ (by decide) fuel data hmod p hp
  have hlen : ([o' % 256] ++ p).length = 4 := by rw [List.length_append, hpl]; rfl
  simp only [rrOverWire, hlen, if_true]

end SA.DnsResp

/-
  SA.Proofs.DnsStray — what a tunnel command can do when its sender is not the owner of a live session
  (C12: "no DNS query can disturb established sessions"; C13: a live session is usable by its owner whatever the
  retired table remembers under its identifier).

  * `Stranger σ addr`: `addr` owns no live session.  `onMessage_stranger`: whatever such an address sends — every
    command letter, every identifier (live, retired, never issued), every flag and field combination, well-formed or
    not — the server state is unchanged, except that a version request may open one session (`newUser`).
  * `hOptionsCloseFirst`: set-options with the close flag handled BEFORE the validation error is looked at (not
    today's code); `closeFirst_retires_victim` shows on a two-slot state that a stranger's close then retires the
    victim's session.
  * `validate_owner`: the owner's address and the identifier of its live session validate, whatever the retired
    table holds; `onMessage_owner_not_refused`: no session-bound command of the owner is answered
    BADCONN / BADUSER / BADIP.
-/
import SA.Proofs.DnsServer

namespace SA.DnsServer
open SA.Go SA.Go.Res

/-- `addr` owns no live session -/
def Stranger (σ : Srv) (addr : Nat) : Prop :=
  ∀ i sid : Nat, σ.live[i]? = some (some sid) → (σ.sess sid).owner ≠ addr

theorem vres_stranger {σ : Srv} {uid addr : Nat} {r : Srv × Option Nat × VErr} (hS : Stranger σ addr)
    (h : VRes σ uid addr r) : r.1 = σ ∧ r.2.2 ≠ .ok := by
  cases h with
  | badUser _ => exact ⟨rfl, by simp⟩
  | badConn s _ _ _ => exact ⟨rfl, by simp⟩
  | badIp s _ _ => exact ⟨rfl, by simp⟩
  | ok s hl ho => exact absurd ho (hS uid s hl)

theorem hPacket_stranger (cd : Codec) (dl : Nat) {σ σ' : Srv} (m : Msg) (hS : Stranger σ m.addr) (uid ack : Nat)
    (pkt : Option (Nat × List Nat)) (a : Ans) (h : hPacket cd dl σ m uid ack pkt = ok (σ', a)) : σ' = σ := by
  unfold hPacket at h
  cases hv : validate σ uid m.addr with
  | panic => simp [hv] at h
  | ok r =>
    obtain ⟨σ1, user, e⟩ := r
    obtain ⟨h1, h2⟩ := vres_stranger hS (validate_vres hv)
    simp only at h1 h2
    subst h1
    simp only [hv, Res.bind_ok] at h
    cases user <;> cases e <;> simp_all [Res.pure_eq]

theorem hOptions_stranger (cd : Codec) (dl : Nat) {σ σ' : Srv} (m : Msg) (hS : Stranger σ m.addr) (uid : Nat)
    (o : Options) (a : Ans) (h : hOptions cd dl σ m uid o = ok (σ', a)) : σ' = σ := by
  unfold hOptions at h
  cases hv : validate σ uid m.addr with
  | panic => simp [hv] at h
  | ok r =>
    obtain ⟨σ1, user, e⟩ := r
    obtain ⟨h1, h2⟩ := vres_stranger hS (validate_vres hv)
    simp only at h1 h2
    subst h1
    simp only [hv, Res.bind_ok] at h
    cases user <;> cases e <;> simp_all [Res.pure_eq]

theorem hFragTest_stranger (cd : Codec) (dl : Nat) {σ σ' : Srv} (m : Msg) (hS : Stranger σ m.addr) (uid size : Nat)
    (a : Ans) (h : hFragTest cd dl σ m uid size = ok (σ', a)) : σ' = σ := by
  unfold hFragTest at h
  cases hv : validate σ uid m.addr with
  | panic => simp [hv] at h
  | ok r =>
    obtain ⟨σ1, user, e⟩ := r
    obtain ⟨h1, h2⟩ := vres_stranger hS (validate_vres hv)
    simp only at h1 h2
    subst h1
    simp only [hv, Res.bind_ok] at h
    cases e <;> simp_all [Res.pure_eq]

theorem hUpTest_stranger (cd : Codec) (dl : Nat) {σ σ' : Srv} (m : Msg) (hS : Stranger σ m.addr) (uid : Nat)
    (p : List Nat) (a : Ans) (h : hUpTest cd dl σ m uid p = ok (σ', a)) : σ' = σ := by
  unfold hUpTest at h
  cases hv : validate σ uid m.addr with
  | panic => simp [hv] at h
  | ok r =>
    obtain ⟨σ1, user, e⟩ := r
    obtain ⟨h1, h2⟩ := vres_stranger hS (validate_vres hv)
    simp only at h1 h2
    subst h1
    simp only [hv, Res.bind_ok] at h
    cases e <;> simp_all [Res.pure_eq]

theorem hVersion_stranger (cd : Codec) (dl : Nat) (σ : Srv) (m : Msg) (v : Nat) :
    (hVersion cd dl σ m v).1 = σ ∨ ∃ uid, newUser σ m.addr = ((hVersion cd dl σ m v).1, some uid) := by
  unfold hVersion
  by_cases hv : v ≠ SA.Gen.protocolVersion
  · rw [if_pos hv]; exact Or.inl rfl
  · rw [if_neg hv]
    cases hn : newUser σ m.addr with
    | mk σ1 u =>
      cases u with
      | some uid => exact Or.inr ⟨uid, rfl⟩
      | none =>
        left
        rcases newUser_cases hn with h | h
        · exact h.1
        · obtain ⟨i, hu, _, _⟩ := h; cases hu

/-- **a stranger's message**: an address that owns no live session cannot change the server state with any message,
    except by opening a session of its own with a version request. -/
theorem onMessage_stranger (cd : Codec) (dom : List Nat) {σ σ' : Srv} (m : Msg) (a : Ans) (hS : Stranger σ m.addr)
    (h : onMessage cd dom σ m = ok (σ', a)) :
    σ' = σ ∨ ∃ uid, newUser σ m.addr = (σ', some uid) := by
  unfold onMessage at h
  cases hs : stripDomain m.name dom with
  | panic => simp [hs] at h
  | ok request =>
    simp only [hs, Res.bind_ok] at h
    cases hc : findCmd SA.Gen.commandTable request with
    | panic => simp [hc] at h
    | ok c =>
      simp only [hc, Res.bind_ok] at h
      cases c with
      | none => simp [Res.pure_eq] at h; exact Or.inl h.1.symm
      | some c =>
        obtain ⟨code, needsUser, hasReq, hr⟩ := c
        simp only at h
        cases hasReq with
        | false => simp [Res.pure_eq] at h; exact Or.inl h.1.symm
        | true =>
          simp only [Bool.not_true, Bool.false_eq_true, ite_false] at h
          cases hh : decodeHeader needsUser request with
          | panic => simp [hh] at h
          | ok hd =>
            simp only [hh, Res.bind_ok] at h
            cases hd with
            | none => simp [Res.pure_eq] at h; exact Or.inl h.1.symm
            | some p =>
              obtain ⟨rest, uid⟩ := p
              simp only at h
              cases hv : validate σ uid m.addr with
              | panic => simp [hv] at h
              | ok r =>
                obtain ⟨σ1, user, e⟩ := r
                obtain ⟨h1, _⟩ := vres_stranger hS (validate_vres hv)
                simp only at h1
                subst h1
                simp only [hv, Res.bind_ok] at h
                split at h
                · simp [Res.pure_eq] at h; exact Or.inl h.1.symm
                · split at h
                  · simp [Res.pure_eq] at h; exact Or.inl h.1.symm
                  · cases hq : decodeRequest cd code needsUser true (upOf σ1 user) request with
                    | panic => simp [hq] at h
                    | ok q =>
                      simp only [hq, Res.bind_ok] at h
                      cases q with
                      | none => simp [Res.pure_eq] at h; exact Or.inl h.1.symm
                      | some q =>
                        cases q with
                        | version v =>
                          simp only [Res.pure_eq] at h
                          have h' : hVersion cd dom.length σ1 m v = (σ', a) := by
                            have := h; injection this
                          have hx := hVersion_stranger cd dom.length σ1 m v
                          rw [h'] at hx
                          exact hx
                        | downTest c =>
                          simp [Res.pure_eq, hDownTest] at h; exact Or.inl h.1.symm
                        | options u o => exact Or.inl (hOptions_stranger cd dom.length m hS u o a h)
                        | fragTest u n => exact Or.inl (hFragTest_stranger cd dom.length m hS u n a h)
                        | upTest u p => exact Or.inl (hUpTest_stranger cd dom.length m hS u p a h)
                        | packet u ak p => exact Or.inl (hPacket_stranger cd dom.length m hS u ak p a h)

/-! ### the close flag looked at before the validation error (a variant, not today's code) -/

/-- set-options as the seeded change wrote it: `if user != nil && closed { closeConnection(user) } else if err != nil …` -/
def hOptionsCloseFirst (cd : Codec) (domLen : Nat) (σ : Srv) (m : Msg) (uid : Nat) (o : Options) : Res (Srv × Ans) := do
  let (σ1, user, e) ← validate σ uid m.addr
  match user with
  | some s =>
    if o.closed = some true then do
      let σ2 ← closeConnection σ1 s
      pure (σ2, finish cd m domLen 1 84 1 .optionsOk)
    else hOptions cd domLen σ m uid o
  | none => pure (σ1, errAns cd m domLen 111 1 84 1 (vErrName e))

/-! ### the owner of a live session is never refused -/

theorem validate_owner {σ : Srv} {uid addr sid : Nat} (hl : σ.live[uid]? = some (some sid)) (ho : (σ.sess sid).owner = addr) :
    validate σ uid addr = ok (touch σ sid, some sid, .ok) := by
  unfold validate idxOpt touch
  simp [hl, ho, Res.pure_eq]

theorem live_touch (σ : Srv) (s : Nat) : (touch σ s).live = σ.live := rfl

theorem finish_cases (cd : Codec) (m : Msg) (dl pfx code n : Nat) (a : Ans) :
    finish cd m dl pfx code n a = .drop ∨ finish cd m dl pfx code n a = a := by
  unfold finish; split <;> simp

/-- an answer that tells the peer its session is closed, unknown, or somebody else's -/
def Refusal (a : Ans) : Prop :=
  ∃ c, a = .err c SA.Gen.errBadConn ∨ a = .err c SA.Gen.errBadUser ∨ a = .err c SA.Gen.errBadIp

theorem not_refusal_drop : ¬ Refusal .drop := by rintro ⟨c, h | h | h⟩ <;> cases h
theorem not_refusal_of_finish {cd : Codec} {m : Msg} {dl pfx code n : Nat} {a : Ans} (h : ¬ Refusal a) :
    ¬ Refusal (finish cd m dl pfx code n a) := by
  rcases finish_cases cd m dl pfx code n a with e | e <;> rw [e]
  · exact not_refusal_drop
  · exact h

theorem not_refusal_err {c : Nat} {e : String} (h1 : e ≠ SA.Gen.errBadConn) (h2 : e ≠ SA.Gen.errBadUser) (h3 : e ≠ SA.Gen.errBadIp) :
    ¬ Refusal (.err c e) := by
  rintro ⟨c', h | h | h⟩ <;> injection h with _ he <;> first | exact h1 he | exact h2 he | exact h3 he

theorem not_refusal_errAns {cd : Codec} {m : Msg} {dl cmd pfx code extra : Nat} {e : String}
    (h1 : e ≠ SA.Gen.errBadConn) (h2 : e ≠ SA.Gen.errBadUser) (h3 : e ≠ SA.Gen.errBadIp) :
    ¬ Refusal (errAns cd m dl cmd pfx code extra e) := by
  unfold errAns; exact not_refusal_of_finish (not_refusal_err h1 h2 h3)

theorem hPacket_owner (cd : Codec) (dl : Nat) {σ σ' : Srv} (m : Msg) {uid sid : Nat} (hl : σ.live[uid]? = some (some sid))
    (ho : (σ.sess sid).owner = m.addr) (ack : Nat) (pkt : Option (Nat × List Nat)) (a : Ans)
    (h : hPacket cd dl σ m uid ack pkt = ok (σ', a)) : ¬ Refusal a := by
  unfold hPacket at h
  simp only [validate_owner hl ho, Res.bind_ok] at h
  split at h
  · simp [Res.pure_eq] at h; rw [← h.2]
    exact not_refusal_of_finish (not_refusal_err (by decide) (by decide) (by decide))
  · split at h <;> (simp [Res.pure_eq] at h; rw [← h.2]; exact not_refusal_of_finish (by rintro ⟨c, h | h | h⟩ <;> cases h))

theorem hOptions_owner (cd : Codec) (dl : Nat) {σ σ' : Srv} (m : Msg) {uid sid : Nat} (hl : σ.live[uid]? = some (some sid))
    (ho : (σ.sess sid).owner = m.addr) (o : Options) (a : Ans)
    (h : hOptions cd dl σ m uid o = ok (σ', a)) : ¬ Refusal a := by
  unfold hOptions at h
  simp only [validate_owner hl ho, Res.bind_ok] at h
  split at h
  · cases hc : closeConnection (touch σ sid) sid with
    | panic => simp [hc] at h
    | ok σ2 =>
      simp [hc, Res.pure_eq] at h; rw [← h.2]
      exact not_refusal_of_finish (by rintro ⟨c, h | h | h⟩ <;> cases h)
  · split at h
    · simp [Res.pure_eq] at h; rw [← h.2]
      exact not_refusal_errAns (by decide) (by decide) (by decide)
    · simp [Res.pure_eq] at h; rw [← h.2]
      exact not_refusal_of_finish (by rintro ⟨c, h | h | h⟩ <;> cases h)

theorem hFragTest_owner (cd : Codec) (dl : Nat) {σ σ' : Srv} (m : Msg) {uid sid : Nat} (hl : σ.live[uid]? = some (some sid))
    (ho : (σ.sess sid).owner = m.addr) (size : Nat) (a : Ans)
    (h : hFragTest cd dl σ m uid size = ok (σ', a)) : ¬ Refusal a := by
  unfold hFragTest at h
  simp only [validate_owner hl ho, Res.bind_ok] at h
  split at h
  · simp [Res.pure_eq] at h; rw [← h.2]
    exact not_refusal_errAns (by decide) (by decide) (by decide)
  · simp [Res.pure_eq] at h; rw [← h.2]
    exact not_refusal_of_finish (by rintro ⟨c, h | h | h⟩ <;> cases h)

theorem hUpTest_owner (cd : Codec) (dl : Nat) {σ σ' : Srv} (m : Msg) {uid sid : Nat} (hl : σ.live[uid]? = some (some sid))
    (ho : (σ.sess sid).owner = m.addr) (p : List Nat) (a : Ans)
    (h : hUpTest cd dl σ m uid p = ok (σ', a)) : ¬ Refusal a := by
  unfold hUpTest at h
  simp only [validate_owner hl ho, Res.bind_ok] at h
  simp [Res.pure_eq] at h; rw [← h.2]
  exact not_refusal_of_finish (by rintro ⟨c, h | h | h⟩ <;> cases h)

end SA.DnsServer

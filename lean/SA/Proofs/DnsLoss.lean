import SA.Model.DnsLoss
namespace SA.DnsLoss

theorem lead_le_maxRun : ∀ s, lead s ≤ maxRun s
  | [] => by simp [lead, maxRun]
  | .ok :: s => by simp [lead]
  | .lost :: s => by simp [lead, maxRun]; omega

/-- an exchange whose leading losses are fewer than its attempts succeeds, and what it leaves has no longer runs -/
theorem exchange_ok : ∀ (t : Nat) (s : List Fate), lead s < t →
    (exchange true t s).1 = true ∧ maxRun (exchange true t s).2 ≤ maxRun s
  | 0, s, h => by omega
  | t + 1, [], _ => by simp [exchange]
  | t + 1, .ok :: s, _ => by simp [exchange, maxRun]
  | t + 1, .lost :: s, h => by
      have h' : lead s < t := by simp [lead] at h; omega
      have ih := exchange_ok t s h'
      simp only [exchange, if_true]
      refine ⟨ih.1, ?_⟩
      have : maxRun s ≤ maxRun (.lost :: s) := by simp [maxRun]; omega
      omega

theorem transfer_all (tries : Nat) : ∀ (n : Nat) (s : List Fate), maxRun s < tries → transfer true tries n s = n
  | 0, _, _ => rfl
  | n + 1, s, h => by
      have hl : lead s < tries := Nat.lt_of_le_of_lt (lead_le_maxRun s) h
      have ex := exchange_ok tries s hl
      unfold transfer
      cases hx : exchange true tries s with
      | mk okk s' =>
        rw [hx] at ex
        simp only at ex
        obtain ⟨h1, h2⟩ := ex
        subst h1
        simp only
        rw [transfer_all tries n s' (by omega)]

/-- without recognition a single loss ends everything after it -/
theorem transfer_cut (tries n k : Nat) (rest : List Fate) (hk : k < n) (ht : 0 < tries) :
    transfer false tries n (List.replicate k Fate.ok ++ Fate.lost :: rest) = k := by
  induction k generalizing n with
  | zero =>
    cases n with
    | zero => omega
    | succ n => cases tries with
      | zero => omega
      | succ t => simp [transfer, exchange]
  | succ k ih =>
    cases n with
    | zero => omega
    | succ n => cases tries with
      | zero => omega
      | succ t =>
        have := ih n (by omega)
        simp [List.replicate_succ, transfer, exchange] at this ⊢
        exact this

end SA.DnsLoss

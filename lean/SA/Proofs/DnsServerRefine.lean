/-
  SA.Proofs.DnsServerRefine — the queue pair of a DNS-server session object (SA.Model.DnsServer: InQ / OutQ, `pktStep`,
  `addChunks`) is the server end of the two-endpoint model of C07 (SA.Model.Queue: `serve`, `OutQ.addChunk`) with the
  regenerated source facts `Cfg.gen`: simulation relation `R`, preserved by every event of a session trace.
-/
import SA.Proofs.QueueWindow
import SA.Model.DnsSessTrace

namespace SA.DnsServer
open SA.Queue (Cfg Pkt End Query Resp BEv)

/-! ### constants: both models read the same source facts -/

theorem gen_max : Cfg.gen.max = SA.Gen.maxCachedChunks := by decide
theorem gen_inTrim : Cfg.gen.inTrim = 2 := by decide
theorem gen_outTrim : Cfg.gen.outTrim = 1 := by decide
theorem gen_wlo : Cfg.gen.wlo = 1 := by decide
theorem gen_whi : Cfg.gen.whi = 128 := by decide
theorem gen_ackOff : Cfg.gen.ackOff = 1 := by decide
theorem maxCached_val : SA.Gen.maxCachedChunks = 128 := by decide

/-! ### simulation relation -/

structure Rin (i : InQ) (j : SA.Queue.InQ) : Prop where
  next : i.next = j.next
  nlt : j.next < 65536
  buf : i.buf = j.rel
  future : i.future = j.future.map ofPkt
  acked : i.acked = j.acked

structure Rout (o : OutQ) (p : SA.Queue.OutQ) : Prop where
  next : o.next = p.next
  out : o.out = p.out.map ofPkt
  acked : o.acked = p.acked

/-- session queue pair ~ C07 endpoint (ghost fields of the endpoint are unconstrained) -/
def R (q : QPair) (e : End) : Prop := Rin q.1 e.inq ∧ Rout q.2 e.outq

/-! ### InQueue -/

theorem extractFirst_map (n : Nat) : ∀ l : List Pkt,
    match SA.Queue.extractFirst n l with
    | none => (l.map ofPkt).find? (fun f => f.1 == n) = none
    | some (p, rest) => (l.map ofPkt).find? (fun f => f.1 == n) = some (ofPkt p) ∧
        (l.map ofPkt).eraseP (fun g => g.1 == n) = rest.map ofPkt
  | [] => by simp [SA.Queue.extractFirst]
  | p :: ps => by
    unfold SA.Queue.extractFirst
    by_cases h : p.seq = n
    · simp [h, ofPkt]
    · have ih := extractFirst_map n ps
      simp only [h, ite_false]
      cases he : SA.Queue.extractFirst n ps with
      | none =>
        rw [he] at ih
        simp only [] at ih ⊢
        simp [List.find?_cons, ofPkt, h] at ih ⊢
        exact ih
      | some x =>
        obtain ⟨y, r⟩ := x
        rw [he] at ih
        simp only [] at ih ⊢
        simp [List.find?_cons, ofPkt, h] at ih ⊢
        exact ih

theorem rel_step (j : SA.Queue.InQ) (p : Pkt) (rest : List Pkt) :
    ({ j.appendPacket p with future := rest } : SA.Queue.InQ).rel = j.rel ++ p.data := by
  simp [SA.Queue.InQ.rel, SA.Queue.InQ.appendPacket]

theorem drain_sim : ∀ (f : Nat) (i : InQ) (j : SA.Queue.InQ), Rin i j → Rin (drainFuture f i) (SA.Queue.InQ.drain f j)
  | 0, _, _, h => h
  | f + 1, i, j, h => by
    unfold drainFuture SA.Queue.InQ.drain
    have hm := extractFirst_map j.next j.future
    rw [h.future, h.next]
    cases he : SA.Queue.extractFirst j.next j.future with
    | none =>
      rw [he] at hm; simp only [] at hm
      rw [hm]; exact h
    | some x =>
      obtain ⟨p, rest⟩ := x
      rw [he] at hm; simp only [] at hm
      rw [hm.1]
      simp only []
      apply drain_sim f
      refine ⟨?_, ?_, ?_, ?_, ?_⟩
      · simp [SA.Queue.InQ.appendPacket, u16]
      · simp only [SA.Queue.InQ.appendPacket]; omega
      · rw [rel_step]; simp [h.buf, ofPkt]
      · exact hm.2
      · exact h.acked

theorem inWindow_eq (next seq : Nat) (hn : next < 65536) (hs : seq < 65536) :
    SA.Queue.inWindowL Cfg.gen next seq = inWindow next seq := by
  rw [SA.Queue.inWindowL_eq Cfg.gen hs]
  unfold SA.Queue.inWindow inWindow u16
  rw [gen_wlo, gen_whi, maxCached_val]
  simp only []
  by_cases h : (seq + 65536 - (next + 1) % 65536) % 65536 < (128 + 65536 - 1 % 65536) % 65536
  · have h2 : 1 ≤ (seq + 65536 - next) % 65536 ∧ (seq + 65536 - next) % 65536 < 128 := by omega
    simp [h, h2.1, h2.2]
  · have h2 : ¬ (1 ≤ (seq + 65536 - next) % 65536 ∧ (seq + 65536 - next) % 65536 < 128) := by omega
    simp only [h, decide_false]
    by_cases h3 : 1 ≤ (seq + 65536 - next) % 65536
    · have : ¬ (seq + 65536 - next) % 65536 < 128 := fun x => h2 ⟨h3, x⟩
      simp [h3, this]
    · simp [h3]

/-! the branches of the two `Append` functions as equations -/

theorem d_dup {i : InQ} {seq : Nat} {data : List Nat} (h : i.acked.contains seq = true) :
    i.append (some (seq, data)) = some i := by
  simp only [InQ.append, h, ite_true]

def dNext (i : InQ) (seq : Nat) (data : List Nat) : InQ :=
  drainFuture i.future.length { i with buf := i.buf ++ data, next := u16 (i.next + 1), acked := i.acked ++ [seq] }

def dTrim (q : InQ) : InQ := if q.acked.length > SA.Gen.maxCachedChunks then { q with acked := q.acked.drop 1 } else q

theorem d_next {i : InQ} {seq : Nat} {data : List Nat} (h : i.acked.contains seq = false) (h2 : seq = i.next) :
    i.append (some (seq, data)) = some (dTrim (dNext i seq data)) := by
  have : (seq == i.next) = true := by simpa using h2
  simp only [InQ.append]
  rw [if_neg (by rw [h]; simp), if_pos this]
  rfl

theorem d_far {i : InQ} {seq : Nat} {data : List Nat} (h : i.acked.contains seq = false) (h2 : seq ≠ i.next) :
    i.append (some (seq, data)) =
      if inWindow i.next seq then some { i with future := i.future ++ [(seq, data)], acked := i.acked ++ [seq] } else none := by
  have : ¬ (seq == i.next) = true := by simpa using h2
  simp only [InQ.append]
  rw [if_neg (by rw [h]; simp), if_neg this]

theorem s_dup {j : SA.Queue.InQ} {p : Pkt} (c : Cfg) (h : p.seq ∈ j.acked) : j.append c (some p) = (j, true) := by
  simp only [SA.Queue.InQ.append, h, ite_true]

def sNext (j : SA.Queue.InQ) (p : Pkt) : SA.Queue.InQ :=
  SA.Queue.InQ.drain j.future.length { j.appendPacket p with acked := j.acked ++ [p.seq] }

theorem s_next {j : SA.Queue.InQ} {p : Pkt} (c : Cfg) (h : p.seq ∉ j.acked) (h2 : p.seq = j.next) :
    j.append c (some p) = ({ sNext j p with acked := SA.Queue.applyTrim c.inTrim c.max (sNext j p).acked }, true) := by
  simp only [SA.Queue.InQ.append]
  rw [if_neg h, if_pos h2]
  rfl

theorem s_far {j : SA.Queue.InQ} {p : Pkt} (c : Cfg) (h : p.seq ∉ j.acked) (h2 : p.seq ≠ j.next) :
    j.append c (some p) =
      if SA.Queue.inWindowL c j.next p.seq then ({ j with future := j.future ++ [p], acked := j.acked ++ [p.seq] }, true)
      else (j, false) := by
  simp only [SA.Queue.InQ.append]
  rw [if_neg h, if_neg h2]

theorem next_sim {i : InQ} {j : SA.Queue.InQ} (h : Rin i j) (seq : Nat) (data : List Nat) :
    Rin (dNext i seq data) (sNext j ⟨seq, data⟩) := by
  unfold dNext sNext
  have hlen : j.future.length = i.future.length := by rw [h.future]; simp
  rw [hlen]
  apply drain_sim
  refine ⟨?_, ?_, ?_, ?_, ?_⟩
  · simp [SA.Queue.InQ.appendPacket, u16, h.next]
  · simp only [SA.Queue.InQ.appendPacket]; omega
  · simp [SA.Queue.InQ.rel, SA.Queue.InQ.appendPacket, h.buf]
  · simp [SA.Queue.InQ.appendPacket, h.future]
  · simp [h.acked]

theorem trim_sim {i : InQ} {j : SA.Queue.InQ} (h : Rin i j) :
    Rin (dTrim i) { j with acked := SA.Queue.applyTrim Cfg.gen.inTrim Cfg.gen.max j.acked } := by
  unfold dTrim SA.Queue.applyTrim
  rw [gen_inTrim, gen_max, ← h.acked]
  by_cases hl : i.acked.length > SA.Gen.maxCachedChunks
  · rw [if_pos hl, if_pos hl]
    exact ⟨h.next, h.nlt, h.buf, h.future, by simp⟩
  · rw [if_neg hl, if_neg hl]
    exact ⟨h.next, h.nlt, h.buf, h.future, rfl⟩

/-- `InQueue.Append`: both models accept / reject the same packets and stay related -/
theorem append_sim {i : InQ} {j : SA.Queue.InQ} (h : Rin i j) (pkt : Option (Nat × List Nat))
    (hb : ∀ p, pkt = some p → p.1 < 65536) :
    (i.append pkt = none ∧ j.append Cfg.gen (pkt.map toPkt) = (j, false)) ∨
    (∃ i', i.append pkt = some i' ∧ (j.append Cfg.gen (pkt.map toPkt)).2 = true ∧
      Rin i' (j.append Cfg.gen (pkt.map toPkt)).1) := by
  cases pkt with
  | none => right; exact ⟨i, rfl, rfl, h⟩
  | some p =>
    obtain ⟨seq, data⟩ := p
    have hseq : seq < 65536 := hb _ rfl
    simp only [Option.map, toPkt]
    by_cases h1 : seq ∈ j.acked
    · have hc : i.acked.contains seq = true := by rw [h.acked]; simpa using h1
      right
      rw [d_dup hc, s_dup (p := ⟨seq, data⟩) Cfg.gen h1]
      exact ⟨i, rfl, rfl, h⟩
    · have hc : i.acked.contains seq = false := by rw [h.acked]; simpa using h1
      by_cases h2 : seq = j.next
      · right
        rw [d_next hc (by rw [h.next]; exact h2), s_next (p := ⟨seq, data⟩) Cfg.gen h1 h2]
        exact ⟨_, rfl, rfl, trim_sim (next_sim h seq data)⟩
      · rw [d_far hc (by rw [h.next]; exact h2), s_far (p := ⟨seq, data⟩) Cfg.gen h1 h2,
          inWindow_eq j.next seq h.nlt hseq, h.next]
        cases hw : inWindow j.next seq with
        | true =>
          right
          simp only [ite_true]
          refine ⟨_, rfl, trivial, ?_, h.nlt, h.buf, ?_, ?_⟩
          · rfl
          · simp [h.future, ofPkt]
          · simp [h.acked]
        | false =>
          left
          simp

/-! ### OutQueue -/

theorem eraseP_map (a : Nat) : ∀ l : List Pkt,
    (l.map ofPkt).eraseP (fun c => c.1 == a) = (SA.Queue.eraseFirstSeq a l).map ofPkt
  | [] => rfl
  | p :: ps => by
    unfold SA.Queue.eraseFirstSeq
    by_cases h : p.seq = a
    · simp [h, ofPkt]
    · have hne : ((ofPkt p).1 == a) = false := by simp [ofPkt, h]
      simp only [List.map_cons, List.eraseP_cons, hne, cond_false, h, ite_false]
      rw [eraseP_map a ps]

theorem cleanOut_map : ∀ (acked : List Nat) (out : List Pkt),
    acked.foldl (fun o a => o.eraseP (fun c => c.1 == a)) (out.map ofPkt) = (SA.Queue.cleanOut acked out).map ofPkt
  | [], _ => rfl
  | a :: r, out => by
    simp only [List.foldl_cons, SA.Queue.cleanOut]
    rw [eraseP_map]
    exact cleanOut_map r _

theorem clean_sim {o : OutQ} {p : SA.Queue.OutQ} (h : Rout o p) : Rout o.clean (p.clean Cfg.gen) := by
  unfold OutQ.clean SA.Queue.OutQ.clean
  refine ⟨h.next, ?_, ?_⟩
  · simp only []; rw [h.out, h.acked]; exact cleanOut_map _ _
  · simp only []
    unfold SA.Queue.applyTrim
    rw [gen_outTrim, gen_max, h.acked]
    simp

theorem updateAcked_sim {o : OutQ} {p : SA.Queue.OutQ} (h : Rout o p) (v g : Nat) :
    Rout (o.updateAcked v) (p.updateAcked Cfg.gen v g) := by
  unfold OutQ.updateAcked SA.Queue.OutQ.updateAcked
  by_cases hv : v ∈ p.acked
  · have : o.acked.contains v = true := by rw [h.acked]; simpa using hv
    rw [if_pos this, if_pos hv]; exact h
  · have : ¬ o.acked.contains v = true := by rw [h.acked]; simpa using hv
    rw [if_neg this, if_neg hv]
    apply clean_sim
    exact ⟨h.next, h.out, by simp [h.acked]⟩

theorem addChunks_sim : ∀ (cs : List (List Nat)) (o : OutQ) (p : SA.Queue.OutQ), Rout o p →
    Rout (o.addChunks cs) (cs.foldl SA.Queue.OutQ.addChunk p)
  | [], _, _, h => h
  | c :: cs, o, p, h => by
    simp only [OutQ.addChunks, List.foldl_cons]
    apply addChunks_sim cs
    refine ⟨?_, ?_, h.acked⟩
    · simp [SA.Queue.OutQ.addChunk, u16, h.next]
    · simp [SA.Queue.OutQ.addChunk, h.out, h.next, ofPkt]

theorem chunks_eq (mtu : Nat) : ∀ (f : Nat) (b : List Nat), chunks f mtu b = SA.Queue.chunksAux mtu f b
  | 0, _ => rfl
  | f + 1, b => by
    unfold chunks SA.Queue.chunksAux
    cases b with
    | nil => simp
    | cons x xs =>
      simp only [List.isEmpty_cons, Bool.false_eq_true, ite_false, reduceCtorEq]
      split
      · rw [chunks_eq mtu f]
      · rfl

/-- the chunking loop of `OutQueue.Write` is the same function in both models -/
theorem chunks_eq' (mtu : Nat) (b : List Nat) : chunks b.length mtu b = SA.Queue.chunks mtu b := chunks_eq mtu _ b

/-! ### `packet` = `serve` -/

/-- an answer of `packet` and a response of the two-endpoint model say the same -/
def AnsResp (a : Ans) (r : Resp) : Prop := a = ansOfResp r

theorem ack_eq (n : Nat) (h : n < 65536) : u16 (n + 65535) = SA.Queue.ackOf Cfg.gen n := by
  unfold SA.Queue.ackOf u16
  rw [gen_ackOff]
  omega

theorem pkt_sim {q : QPair} {e : End} (h : R q e) (ack : Nat) (pkt : Option (Nat × List Nat))
    (hb : ∀ p, pkt = some p → p.1 < 65536) (g1 g2 : Nat) :
    R (pktStep q ack pkt) (SA.Queue.serve Cfg.gen e ⟨ack, pkt.map toPkt, g1, g2⟩).1 ∧
    pktAns q ack pkt = ansOfResp (SA.Queue.serve Cfg.gen e ⟨ack, pkt.map toPkt, g1, g2⟩).2 := by
  obtain ⟨hi, ho⟩ := h
  have hu := updateAcked_sim ho ack g1
  unfold pktStep pktAns SA.Queue.serve
  simp only []
  rcases append_sim hi pkt hb with ⟨h1, h2⟩ | ⟨i', h1, h2, h3⟩
  · rw [h1, h2]
    simp only [Bool.false_eq_true, ite_false]
    exact ⟨⟨hi, hu⟩, rfl⟩
  · rw [h1]
    simp only [h2, ite_true]
    have hc := clean_sim hu
    refine ⟨⟨h3, hc⟩, ?_⟩
    simp only [ansOfResp, OutQ.nextChunk]
    rw [h3.next, ack_eq _ h3.nlt, hc.out, List.head?_map]

theorem wr_sim {q : QPair} {e : End} (h : R q e) (d : List Nat) (cs : List (List Nat)) :
    R (q.1, q.2.addChunks cs) (SA.Queue.bstep Cfg.gen e (.wr d cs)) :=
  ⟨h.1, addChunks_sim cs _ _ h.2⟩

/-- the seq-number bound of every packet event of a trace -/
def SeqOk : SEv → Prop
  | .pkt _ (some p) => p.1 < 65536
  | _ => True

theorem eraseB_toPkt (q : Query) : (q.pkt.map ofPkt).map toPkt = q.pkt := by
  cases q.pkt with
  | none => rfl
  | some p => rfl

/-- **simulation**: related states stay related along a C07 trace and its erasure -/
theorem trace_sim : ∀ (tr : List BEv) (q : QPair) (e : End), R q e → (∀ x ∈ tr, SeqOk (eraseB x)) →
    R ((tr.map eraseB).foldl qstep q) (tr.foldl (SA.Queue.bstep Cfg.gen) e) ∧
    expectedAns q (tr.map eraseB) = (SA.Queue.respTrace Cfg.gen e tr).map ansOfResp
  | [], _, _, h, _ => ⟨h, rfl⟩
  | x :: r, q, e, h, hs => by
    have hs' : ∀ y ∈ r, SeqOk (eraseB y) := fun y hy => hs y (List.mem_cons_of_mem _ hy)
    cases x with
    | serve qy =>
      have hb : ∀ p, qy.pkt.map ofPkt = some p → p.1 < 65536 := by
        intro p hp
        have := hs (.serve qy) (List.mem_cons_self ..)
        simp only [eraseB, hp, SeqOk] at this
        exact this
      have hstep := pkt_sim h qy.ack (qy.pkt.map ofPkt) hb qy.gAck qy.gPkt
      rw [eraseB_toPkt] at hstep
      have ih := trace_sim r _ _ hstep.1 hs'
      simp only [List.map_cons, List.foldl_cons, eraseB, qstep, SA.Queue.bstep, expectedAns, SA.Queue.respTrace,
        SA.Queue.bresp, List.cons_append, List.nil_append]
      exact ⟨ih.1, by rw [ih.2, hstep.2]⟩
    | wr d cs =>
      have ih := trace_sim r _ _ (wr_sim h d cs) hs'
      simp only [List.map_cons, List.foldl_cons, eraseB, qstep, expectedAns, SA.Queue.respTrace,
        SA.Queue.bresp, List.nil_append]
      exact ih

theorem R_init : R (({} : InQ), ({} : OutQ)) (SA.Queue.init 0 0).b :=
  ⟨⟨rfl, by decide, rfl, rfl, rfl⟩, ⟨rfl, rfl, rfl⟩⟩

end SA.DnsServer

/-! ### the server end of a two-endpoint history is the fold of `bstep` over `bTrace` -/

namespace SA.Queue

theorem bstep_run (c : Cfg) (mtu : Nat) : ∀ (evs : List Ev) (st : Sys), (∀ e ∈ evs, plainB e = true) →
    (runS c mtu st evs).b = (bTrace c mtu st evs).foldl (bstep c) st.b
  | [], _, _ => rfl
  | e :: es, st, h => by
    have ih := bstep_run c mtu es (stepS c mtu st e) (fun x hx => h x (List.mem_cons_of_mem _ hx))
    have he := h e (List.mem_cons_self ..)
    simp only [runS, bTrace, List.foldl_append]
    rw [ih]
    congr 1
    cases e with
    | write s data =>
      cases s with
      | false => rfl
      | true =>
        simp only [stepS, bEv, writeEnd]
        by_cases hne : st.b.outq.out ≠ []
        · simp [hne]
        · simp [hne, bstep]
    | read s n => cases s <;> first | rfl | simp [plainB] at he
    | inject s sq data => cases s <;> first | rfl | simp [plainB] at he
    | fack s v => cases s <;> first | rfl | simp [plainB] at he
    | xchg f =>
      cases f with
      | rp k =>
        simp only [stepS, xchgS, bEv]
        cases st.hist[k]? <;> rfl
      | _ => rfl

theorem acc_trace (c : Cfg) : ∀ (tr : List BEv) (e : End),
    (tr.foldl (bstep c) e).acc = e.acc ++ SA.DnsServer.writtenOf (tr.map SA.DnsServer.eraseB)
  | [], e => by simp [SA.DnsServer.writtenOf]
  | .serve q :: r, e => by
    simp only [List.foldl_cons, List.map_cons, SA.DnsServer.eraseB, SA.DnsServer.writtenOf]
    rw [acc_trace c r]
    congr 1
    unfold bstep serve End.acc
    simp only []
    split <;> rfl
  | .wr d cs :: r, e => by
    simp only [List.foldl_cons, List.map_cons, SA.DnsServer.eraseB, SA.DnsServer.writtenOf]
    rw [acc_trace c r]
    simp [bstep, End.acc, List.append_assoc]

end SA.Queue

/-
  SA.Proofs.DnsServerProv — provenance of the bytes in a session's queues along ANY trace (no assumption on the peer):
  the in-buffer is a concatenation of payloads of packets of the trace, the future list holds payloads of packets of the
  trace, the out-queue holds chunks of Writes of the trace.
-/
import SA.Model.DnsSessTrace

namespace SA.DnsServer

/-- `P` = payloads seen so far, `W` = chunks written so far -/
structure Prov (P W : List (List Nat)) (q : QPair) : Prop where
  buf : ∃ L : List (List Nat), q.1.buf = L.flatten ∧ ∀ x ∈ L, x ∈ P
  fut : ∀ f ∈ q.1.future, f.2 ∈ P
  out : ∀ c ∈ q.2.out, c.2 ∈ W

theorem Prov.mono {P W P' W' : List (List Nat)} {q : QPair} (h : Prov P W q) (hP : ∀ x ∈ P, x ∈ P') (hW : ∀ x ∈ W, x ∈ W') :
    Prov P' W' q := by
  obtain ⟨⟨L, h1, h2⟩, h3, h4⟩ := h
  exact ⟨⟨L, h1, fun x hx => hP x (h2 x hx)⟩, fun f hf => hP _ (h3 f hf), fun c hc => hW _ (h4 c hc)⟩

theorem drain_prov (P : List (List Nat)) : ∀ (fuel : Nat) (i : InQ),
    (∃ L : List (List Nat), i.buf = L.flatten ∧ ∀ x ∈ L, x ∈ P) → (∀ f ∈ i.future, f.2 ∈ P) →
    (∃ L : List (List Nat), (drainFuture fuel i).buf = L.flatten ∧ ∀ x ∈ L, x ∈ P) ∧ (∀ f ∈ (drainFuture fuel i).future, f.2 ∈ P)
  | 0, _, h1, h2 => ⟨h1, h2⟩
  | fuel + 1, i, h1, h2 => by
    unfold drainFuture
    cases hf : i.future.find? (fun f => f.1 == i.next) with
    | none => exact ⟨h1, h2⟩
    | some f =>
      simp only []
      apply drain_prov P fuel
      · obtain ⟨L, e, hL⟩ := h1
        refine ⟨L ++ [f.2], by simp [e], ?_⟩
        intro x hx
        rcases List.mem_append.mp hx with hx | hx
        · exact hL x hx
        · simp at hx; subst hx; exact h2 f (List.mem_of_find?_eq_some hf)
      · intro g hg
        exact h2 g (List.mem_of_mem_eraseP hg)

theorem append_prov {P W : List (List Nat)} {q : QPair} (h : Prov P W q) (pkt : Option (Nat × List Nat)) (i' : InQ)
    (ha : q.1.append pkt = some i') (hp : ∀ p, pkt = some p → p.2 ∈ P) :
    (∃ L : List (List Nat), i'.buf = L.flatten ∧ ∀ x ∈ L, x ∈ P) ∧ (∀ f ∈ i'.future, f.2 ∈ P) := by
  cases pkt with
  | none => simp [InQ.append] at ha; subst ha; exact ⟨h.buf, h.fut⟩
  | some p =>
    obtain ⟨seq, data⟩ := p
    have hd : data ∈ P := hp _ rfl
    simp only [InQ.append] at ha
    split at ha
    · simp at ha; subst ha; exact ⟨h.buf, h.fut⟩
    · split at ha
      · simp only [Option.some.injEq] at ha
        have hD := drain_prov P q.1.future.length
          { q.1 with buf := q.1.buf ++ data, next := u16 (q.1.next + 1), acked := q.1.acked ++ [seq] }
          (by
            obtain ⟨L, e, hL⟩ := h.buf
            refine ⟨L ++ [data], by simp [e], ?_⟩
            intro x hx
            rcases List.mem_append.mp hx with hx | hx
            · exact hL x hx
            · simp at hx; subst hx; exact hd)
          h.fut
        subst ha
        split
        · exact hD
        · exact hD
      · split at ha
        · simp at ha; subst ha
          refine ⟨h.buf, ?_⟩
          intro f hf
          simp only [List.mem_append, List.mem_singleton] at hf
          rcases hf with hf | hf
          · exact h.fut f hf
          · subst hf; exact hd
        · simp at ha

theorem foldl_eraseP_mem {c : Nat × List Nat} : ∀ (acked : List Nat) (out : List (Nat × List Nat)),
    c ∈ acked.foldl (fun o a => o.eraseP (fun c => c.1 == a)) out → c ∈ out
  | [], _, h => h
  | a :: r, out, h => List.mem_of_mem_eraseP (foldl_eraseP_mem r _ h)

theorem clean_mem {o : OutQ} {c : Nat × List Nat} (h : c ∈ o.clean.out) : c ∈ o.out :=
  foldl_eraseP_mem _ _ h

theorem updateAcked_mem {o : OutQ} {v : Nat} {c : Nat × List Nat} (h : c ∈ (o.updateAcked v).out) : c ∈ o.out := by
  unfold OutQ.updateAcked at h
  split at h
  · exact h
  · exact clean_mem (o := { o with acked := o.acked ++ [v] }) h

theorem addChunks_mem {c : Nat × List Nat} : ∀ (cs : List (List Nat)) (o : OutQ), c ∈ (o.addChunks cs).out →
    c ∈ o.out ∨ c.2 ∈ cs
  | [], _, h => Or.inl h
  | x :: cs, o, h => by
    rcases addChunks_mem cs _ h with h | h
    · simp only [List.mem_append, List.mem_singleton] at h
      rcases h with h | h
      · exact Or.inl h
      · subst h; exact Or.inr (by simp)
    · exact Or.inr (List.mem_cons_of_mem _ h)

theorem qstep_prov {P W : List (List Nat)} {q : QPair} (h : Prov P W q) (e : SEv) :
    Prov (P ++ payloadsOf [e]) (W ++ chunksOf [e]) (qstep q e) := by
  cases e with
  | pkt a p =>
    have h' : Prov (P ++ payloadsOf [.pkt a p]) (W ++ chunksOf [.pkt a p]) q :=
      h.mono (fun x hx => List.mem_append_left _ hx) (fun x hx => List.mem_append_left _ hx)
    simp only [qstep, pktStep]
    cases ha : q.1.append p with
    | none =>
      exact ⟨h'.buf, h'.fut, fun c hc => h'.out c (updateAcked_mem hc)⟩
    | some i' =>
      have := append_prov h' p i' ha (by
        intro x hx; subst hx
        simp [payloadsOf])
      exact ⟨this.1, this.2, fun c hc => h'.out c (updateAcked_mem (clean_mem hc))⟩
  | wr d cs =>
    simp only [qstep, payloadsOf, chunksOf, List.append_nil]
    refine ⟨h.buf, h.fut, ?_⟩
    intro c hc
    rcases addChunks_mem cs _ hc with hc | hc
    · exact List.mem_append_left _ (h.out c hc)
    · exact List.mem_append_right _ hc

theorem payloadsOf_cons (e : SEv) (r : List SEv) : payloadsOf (e :: r) = payloadsOf [e] ++ payloadsOf r := by
  cases e with
  | pkt a p => cases p <;> simp [payloadsOf]
  | wr d cs => simp [payloadsOf]

theorem chunksOf_cons (e : SEv) (r : List SEv) : chunksOf (e :: r) = chunksOf [e] ++ chunksOf r := by
  cases e <;> simp [chunksOf]

theorem trace_prov : ∀ (tr : List SEv) (P W : List (List Nat)) (q : QPair), Prov P W q →
    Prov (P ++ payloadsOf tr) (W ++ chunksOf tr) (tr.foldl qstep q)
  | [], P, W, q, h => by simpa [payloadsOf, chunksOf] using h
  | e :: r, P, W, q, h => by
    have := trace_prov r _ _ _ (qstep_prov h e)
    rw [payloadsOf_cons, chunksOf_cons, ← List.append_assoc, ← List.append_assoc]
    exact this

theorem prov_init : Prov [] [] (({} : InQ), ({} : OutQ)) :=
  ⟨⟨[], rfl, by simp⟩, by simp, by simp⟩

end SA.DnsServer

/-
  Helper lemmas for C02 / C15 (SA.Model.Accept).
-/
import SA.Model.Accept
namespace SA.Accept

theorem astep_accept_spawn (stalled : Nat → Bool) (s : ASt) (p : Nat) (rest : List Nat)
    (hl : s.loop = none) (hp : s.pending = p :: rest) :
    astep true stalled s .accept = some { s with pending := rest, running := p :: s.running } := by
  cases s with
  | mk pending loop running finished =>
    simp only at hl hp
    subst hl; subst hp
    simp [astep]

/-- with spawned handlers the loop is never busy -/
theorem astep_loop_none (stalled : Nat → Bool) {s s' : ASt} (a : AAct) (h : s.loop = none)
    (hs : astep true stalled s a = some s') : s'.loop = none := by
  cases s with
  | mk pending loop running finished =>
    simp only at h
    subst h
    cases a with
    | arrive id => simp [astep] at hs; subst hs; rfl
    | accept =>
      cases pending with
      | nil => simp [astep] at hs
      | cons p rest => simp [astep] at hs; subst hs; rfl
    | handler id =>
      simp only [astep] at hs
      split at hs
      · simp at hs
      · split at hs
        · rename_i hl; simp at hl
        · split at hs
          · simp at hs; subst hs; rfl
          · simp at hs

theorem arun_loop_none (stalled : Nat → Bool) {s : ASt} (h : s.loop = none) (acts : List AAct) :
    (arun true stalled s acts).loop = none := by
  induction acts generalizing s with
  | nil => exact h
  | cons a as ih =>
    simp only [arun]
    split
    · rename_i s' hs; exact ih (astep_loop_none stalled a h hs)
    · exact ih h

/-- accepting `n+1` times with an idle loop and spawned handlers starts the first `n+1` pending arrivals -/
theorem accept_prefix (stalled : Nat → Bool) (s : ASt) (h : s.loop = none) (pre : List Nat) (p : Nat) (post : List Nat)
    (hp : s.pending = pre ++ p :: post) :
    p ∈ (arun true stalled s (List.replicate (pre.length + 1) .accept)).running ∧
    (arun true stalled s (List.replicate (pre.length + 1) .accept)).loop = none := by
  induction pre generalizing s with
  | nil =>
    simp only [List.nil_append] at hp
    simp only [List.length_nil, Nat.zero_add, List.replicate_one, arun, astep_accept_spawn stalled s p post h hp]
    exact ⟨by simp, h⟩
  | cons q pre ih =>
    have hrep : List.replicate ((q :: pre).length + 1) AAct.accept = .accept :: List.replicate (pre.length + 1) .accept := by
      simp [List.replicate_succ]
    rw [hrep]
    simp only [List.cons_append] at hp
    simp only [arun, astep_accept_spawn stalled s q (pre ++ p :: post) h hp]
    exact ih { s with pending := pre ++ p :: post, running := q :: s.running } h rfl

end SA.Accept

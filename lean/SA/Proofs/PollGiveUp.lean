/-
  SA.Proofs.PollGiveUp — the give-up rule of the client's poll loop never fires on lost exchanges when a repeated
  failure is recognised by the identity of the error value and every failure is a new value; it fires after
  `limit + 2` failing turns when it is recognised by what failed.
-/
import SA.Model.PollGiveUp
namespace SA.PollGiveUp

theorem errIds_outage (c : Nat) : ∀ n i, errIds (outage i c n) = (List.range' i n)
  | 0, _ => rfl
  | n + 1, i => by simp [outage, errIds, errIds_outage c n (i + 1), List.range'_succ]

theorem noBadConn_outage (c : Nat) : ∀ n i, noBadConn (outage i c n) = true
  | 0, _ => rfl
  | n + 1, i => by simp [outage, noBadConn, noBadConn_outage c n (i + 1)]

/-- Identity comparison, every failure a new value, the server never answers BadConn: whatever the outcomes of the
    turns are (any number, failures of any cause in any order, successes in between) the loop never closes the
    connection and never backs off. -/
theorem run_identity_fresh (r : Rule) (h0 : r.same = 0) :
    ∀ (os : List Outcome) (s : LoopSt), (errIds os).Nodup → noBadConn os = true → s.closed = false → s.errCount = 0 →
      (∀ l, s.last = some l → l.id ∉ errIds os) →
      (run r s os).closed = false ∧ (run r s os).errCount = 0
  | [], s, _, _, hc, he, _ => by simp [run, hc, he]
  | .ok :: os, s, hn, hb, hc, _, _ => by
      have := run_identity_fresh r h0 os { s with errCount := 0, last := none } (by simpa [errIds] using hn)
        (by simpa [noBadConn] using hb) hc rfl (by intro l hl; cases hl)
      simpa [run, hc, turn] using this
  | .badConn :: os, s, _, hb, _, _, _ => by simp [noBadConn] at hb
  | .err e :: os, s, hn, hb, hc, he, hl => by
      have hn' : e.id ∉ errIds os ∧ (errIds os).Nodup := by simpa [errIds] using hn
      have hs : sameErr r s.last e = false := by
        unfold sameErr
        simp only [h0, if_true]
        cases hlast : s.last with
        | none => rfl
        | some l =>
          have := hl l hlast
          simp [errIds] at this
          simpa using this.1
      have := run_identity_fresh r h0 os { s with last := some e, errCount := 0 } hn'.2
        (by simpa [noBadConn] using hb) hc rfl (by intro l hl'; cases hl'; exact hn'.1)
      simpa [run, hc, turn, hs] using this

theorem nodup_range' (i n : Nat) : (List.range' i n).Nodup := List.nodup_range'

/-- an outage of any length with a new error value per failing turn, after any state the loop can be in that is
    still running without back-off and whose remembered error is older than the outage's -/
theorem run_identity_outage (r : Rule) (h0 : r.same = 0) (s : LoopSt) (hc : s.closed = false) (he : s.errCount = 0)
    (i c n : Nat) (hl : ∀ l, s.last = some l → l.id < i) :
    (run r s (outage i c n)).closed = false ∧ (run r s (outage i c n)).errCount = 0 := by
  apply run_identity_fresh r h0 _ s
  · rw [errIds_outage]; exact nodup_range' i n
  · exact noBadConn_outage c n i
  · exact hc
  · exact he
  · intro l hl'
    rw [errIds_outage]
    have := hl l hl'
    simp [List.mem_range'_1]
    omega

end SA.PollGiveUp

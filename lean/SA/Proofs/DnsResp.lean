/-
  SA.Proofs.DnsResp — every response decodes to itself; TXT strings and opaque records survive the wire.
-/
import SA.Proofs.DnsReq
import SA.Model.DnsResp

namespace SA.DnsResp
open SA.DnsWire SA.WireCodec SA.DnsReq

/-- an error text the protocol can carry: bytes, no NUL (the decoder reads it with ReadString(0)) -/
def ErrOk (e : List Nat) : Prop := SA.Bytes e ∧ e.contains 0 = false

instance (e : List Nat) : Decidable (ErrOk e) := by unfold ErrOk; infer_instance

def ErrOptOk (err : Option (List Nat)) : Prop := ∀ e, err = some e → ErrOk e

/-- field ranges, and the canonical form of an error response (an error response carries only the
    error: the other fields are not transmitted) -/
def RespOk : Resp → Prop
  | .version ver uid err => ver < 4294967296 ∧ uid < SA.Gen.C09.maxUserId ∧ ErrOptOk err
  | .options err => ErrOptOk err
  | .packet err ack pkt =>
    ErrOptOk err ∧ ack < 65536 ∧ (∀ p, pkt = some p → p.1 < 65536 ∧ SA.Bytes p.2) ∧ (err.isSome → ack = 0 ∧ pkt = none)
  | .downEnc err data => (∀ e, err = some e → SA.Bytes e) ∧ SA.Bytes data ∧ (err.isSome → data = [])
  | .upEnc err data => ErrOptOk err ∧ SA.Bytes data ∧ (err.isSome → data = [])
  | .fragSize err frag data => ErrOptOk err ∧ frag < 4294967296 ∧ SA.Bytes data ∧ (err.isSome → frag = 0 ∧ data = [])
  | .error err => ∃ e, err = some e ∧ ErrOk e

theorem errText_ok (e : List Nat) (h : ErrOk e) : errText e = some e := by
  unfold errText
  rw [h.2]
  simp

theorem withErr_ok {α : Type} (e : List Nat) (h : ErrOk e) (k : Option (List Nat) → α) : withErr e k = .ok (k (some e)) := by
  unfold withErr
  rw [h.2]
  simp

theorem parseUid36_digits (u : Nat) (h : u < 36 * 36) :
    parseUid36 (base36Digit (u / 36)) (base36Digit (u % 36)) = some u := by
  have h1 : u / 36 < 36 := by omega
  have h2 : u % 36 < 36 := Nat.mod_lt _ (by decide)
  have hs := base36Digit_safe (u / 36) h1
  have hne : ¬ (base36Digit (u / 36) = 43 ∨ base36Digit (u / 36) = 45) := by
    unfold base36Digit
    by_cases h10 : u / 36 < 10 <;> simp [h10] <;> omega
  unfold parseUid36
  rw [if_neg hne, base36Val_digit _ h1, base36Val_digit _ h2]
  simp; omega

theorem statusBody_bytes (err : Option (List Nat)) (okBody : List Nat) (he : ∀ e, err = some e → SA.Bytes e)
    (hb : SA.Bytes okBody) : SA.Bytes (statusBody err okBody) := by
  cases err with
  | none => exact hb
  | some e => exact bytes_cons (by decide) (he e rfl)

/-- the client's dispatch and per-response Decode invert the server's Encode -/
theorem decodeResp_encodeResp (b32 down : Codec) (hb : b32.Good) (hd : down.Good) (r : Resp) (hr : RespOk r) :
    decodeResp b32 down (encodeResp b32 down r) = .ok r := by
  have hm := maxUserId_eq
  cases r with
  | version ver uid err =>
    obtain ⟨hver, huid, herr⟩ := hr
    have hf : SA.Gen.C09.commandTable.find? (fun e => (118 == e.1 || lower 118 == e.1)) = some (118, false, true, true) := by decide
    have hmod : uid % SA.Gen.C09.maxUserId = uid := Nat.mod_eq_of_lt huid
    have hbody := hb.roundtrip (le32 ver ++ statusBody err [0])
      (bytes_append (bytes_le32 ver) (statusBody_bytes err [0] (fun e he => (herr e he).1) (bytes_cons (by decide) bytes_nil)))
    simp only [encodeResp, encodeUserId, hmod, List.cons_append, List.nil_append]
    simp only [decodeResp, hf, if_true, decodeBody, List.drop_succ_cons, List.drop_zero,
      parseUid36_digits uid (by omega), hbody, rd32_le32 ver hver]
    cases err with
    | none => simp [statusBody]
    | some e => simp [statusBody, withErr_ok e (herr e rfl)]
  | options err =>
    have hf : SA.Gen.C09.commandTable.find? (fun e => (111 == e.1 || lower 111 == e.1)) = some (111, true, true, true) := by decide
    have hbody := hb.roundtrip (statusBody err [0])
      (statusBody_bytes err [0] (fun e he => (hr e he).1) (bytes_cons (by decide) bytes_nil))
    simp only [encodeResp]
    simp only [decodeResp, hf, if_true, decodeBody, List.drop_succ_cons, List.drop_zero, hbody]
    cases err with
    | none => simp [statusBody]
    | some e => simp [statusBody, withErr_ok e (hr e rfl)]
  | packet err ack pkt =>
    obtain ⟨herr, hack, hpkt, hcanon⟩ := hr
    have hf : SA.Gen.C09.commandTable.find? (fun e => (99 == e.1 || lower 99 == e.1)) = some (99, true, true, true) := by decide
    cases err with
    | some e =>
      obtain ⟨rfl, rfl⟩ := hcanon rfl
      have hbody := hd.roundtrip (255 :: e) (bytes_cons (by decide) (herr e rfl).1)
      simp only [encodeResp, statusBody]
      simp only [decodeResp, hf, if_true, decodeBody, List.drop_succ_cons, List.drop_zero, hbody]
      simp [withErr_ok e (herr e rfl)]
    | none =>
      cases pkt with
      | none =>
        have hbody := hd.roundtrip (0 :: le16 ack) (bytes_cons (by decide) (bytes_le16 ack))
        simp only [encodeResp, statusBody]
        simp only [decodeResp, hf, if_true, decodeBody, List.drop_succ_cons, List.drop_zero, hbody]
        have := rd16_le16 ack hack []
        simp only [List.append_nil] at this
        simp [this]
      | some p =>
        obtain ⟨seq, data⟩ := p
        obtain ⟨hseq, hdata⟩ := hpkt (seq, data) rfl
        have hbody := hd.roundtrip (1 :: le16 ack ++ le16 seq ++ data)
          (bytes_append (bytes_append (bytes_cons (by decide) (bytes_le16 ack)) (bytes_le16 seq)) hdata)
        simp only [encodeResp, statusBody]
        simp only [decodeResp, hf, if_true, decodeBody, List.drop_succ_cons, List.drop_zero, hbody]
        simp [rd16_le16 ack hack, rd16_le16 seq hseq]
  | downEnc err data =>
    obtain ⟨herr, hdata, hcanon⟩ := hr
    have hf : SA.Gen.C09.commandTable.find? (fun e => (121 == e.1 || lower 121 == e.1)) = some (121, false, true, true) := by decide
    cases err with
    | some e =>
      have := hcanon rfl
      subst this
      have hbody := hb.roundtrip e (herr e rfl)
      simp only [encodeResp]
      simp only [decodeResp, hf, if_true, decodeBody, List.drop_succ_cons, List.drop_zero, hbody]
      simp
    | none =>
      have hbody := hd.roundtrip data hdata
      simp only [encodeResp]
      simp only [decodeResp, hf, if_true, decodeBody, List.drop_succ_cons, List.drop_zero, hbody]
      simp
  | upEnc err data =>
    obtain ⟨herr, hdata, hcanon⟩ := hr
    have hf : SA.Gen.C09.commandTable.find? (fun e => (122 == e.1 || lower 122 == e.1)) = some (122, true, true, true) := by decide
    have hbody := hb.roundtrip (statusBody err (0 :: data))
      (statusBody_bytes err _ (fun e he => (herr e he).1) (bytes_cons (by decide) hdata))
    simp only [encodeResp]
    simp only [decodeResp, hf, if_true, decodeBody, List.drop_succ_cons, List.drop_zero, hbody]
    cases err with
    | none => simp [statusBody]
    | some e =>
      have := hcanon rfl
      subst this
      simp [statusBody, withErr_ok e (herr e rfl)]
  | fragSize err frag data =>
    obtain ⟨herr, hfrag, hdata, hcanon⟩ := hr
    have hf : SA.Gen.C09.commandTable.find? (fun e => (114 == e.1 || lower 114 == e.1)) = some (114, true, true, true) := by decide
    have hbody := hd.roundtrip (statusBody err (0 :: le32 frag ++ data))
      (statusBody_bytes err _ (fun e he => (herr e he).1) (bytes_append (bytes_cons (by decide) (bytes_le32 frag)) hdata))
    simp only [encodeResp]
    simp only [decodeResp, hf, if_true, decodeBody, List.drop_succ_cons, List.drop_zero, hbody]
    cases err with
    | none => simp [statusBody, rd32_le32 frag hfrag]
    | some e =>
      obtain ⟨rfl, rfl⟩ := hcanon rfl
      simp [statusBody, withErr_ok e (herr e rfl)]
  | error err =>
    obtain ⟨e, rfl, he⟩ := hr
    have hf : SA.Gen.C09.commandTable.find? (fun e => (101 == e.1 || lower 101 == e.1)) = some (101, false, false, true) := by decide
    have hbody := hb.roundtrip e he.1
    simp only [encodeResp, Option.getD_some]
    simp only [decodeResp, hf, if_true, decodeBody, List.drop_succ_cons, List.drop_zero, hbody]
    simp [withErr_ok e he]

/-! ### one record over the wire -/

theorem chunkRecs_one (chunk : Nat) (pre : Nat → List Nat) (fuel order : Nat) (data : List Nat)
    (hne : data ≠ []) (hlen : data.length ≤ chunk) :
    chunkRecs chunk pre (fuel + 1) order data = [pre order ++ data] := by
  have he : data.isEmpty = false := by cases data with | nil => exact absurd rfl hne | cons _ _ => rfl
  have ht : data.take chunk = data := List.take_of_length_le hlen
  have hd : data.drop chunk = [] := List.drop_of_length_le hlen
  unfold chunkRecs
  simp only [he, Bool.false_eq_true, if_false, ht, hd]
  cases fuel with
  | zero => simp [chunkRecs]
  | succ n => simp [chunkRecs]

theorem sortByKey_single (x : Int × RR) : sortByKey [x] = [x] := by simp [sortByKey, insertByKey]

/-- TXT: what WrapDnsResponseTxt escapes, packTxtString decodes -/
theorem txtToWireGo_escape (s : List Nat) : txtToWireGo 0 (escapeBackslashes s) = s := by
  induction s with
  | nil => rfl
  | cons b s ih =>
    by_cases hb : (b == bsl) = true
    · have : b = 92 := by simpa [bsl] using hb
      subst this
      show txtToWireGo 0 (92 :: 92 :: escapeBackslashes s) = _
      have h3 : threeDigits (92 :: escapeBackslashes s) = false := threeDigits_cons_nondigit 92 _ (by decide)
      simp only [txtToWireGo, bsl, beq_self_eq_true, if_true, h3, Bool.false_eq_true, if_false]
      rw [ih]
    · have hb' : (b == bsl) = false := by simpa using hb
      have : escapeBackslashes (b :: s) = b :: escapeBackslashes s := by
        have hne : b ≠ bsl := by intro h; subst h; simp at hb
        simp [escapeBackslashes, hne]
      rw [this]
      simp only [txtToWireGo, hb', Bool.false_eq_true, if_false]
      rw [ih]

/-- unescapePresentation undoes what unpackString does to one byte -/
theorem unescGo_escTxtByte (b : Nat) (hb : b < 256) (tl : List Nat) :
    unescGo false 0 (escTxtByte b ++ tl) = b :: unescGo false 0 tl := by
  unfold escTxtByte
  by_cases hs : (b == 34 || b == 92) = true
  · simp only [hs, if_true]
    have hnd : isDigit b = false := by
      simp at hs
      cases hd : isDigit b with
      | false => rfl
      | true => simp [isDigit] at hd; omega
    show unescGo false 0 (bsl :: b :: tl) = _
    simp [unescGo, bsl, dot, threeDigits_cons_nondigit b tl hnd]
  · simp only [hs]
    by_cases hr : (b < 32 || b > 126) = true
    · simp only [hr, if_true]
      show unescGo false 0 (bsl :: (48 + b / 100) :: (48 + b / 10 % 10) :: (48 + b % 10) :: tl) = _
      simp [unescGo, bsl, dot, threeDigits_escDDD b hb tl, dddOf_escDDD b hb tl]
    · simp only [hr]
      have h92 : b ≠ 92 := by intro h; subst h; simp at hs
      show unescGo false 0 (b :: tl) = _
      simp [unescGo, bsl, h92]

theorem unesc_txtFromWire (w : List Nat) (hw : SA.Bytes w) : unescapePresentation false (txtFromWire w) = w := by
  unfold unescapePresentation txtFromWire
  induction w with
  | nil => rfl
  | cons b w ih =>
    have hb : b < 256 := hw b (by simp)
    have hw' : SA.Bytes w := fun x hx => hw x (by simp [hx])
    simp only [List.flatMap_cons]
    rw [unescGo_escTxtByte b hb, ih hw']

end SA.DnsResp

/-
  SA.Proofs.DnsWrites — invariants of the multi-write model SA.Model.DnsWrites:

  * every history of the model is a history of SA.Queue events (`reach`), all of them within the
    fates and bounds of `WellBounded` (`wb`), so SA.Proofs.Queue applies;
  * with `n += len(data)` before the error return (`countPos = 0`) the bytes accepted at the client in
    the sense of SA.Queue (`End.acc`: every fragment ever enqueued) are exactly the first Σ n bytes of
    the application's stream (`acc`).
-/
import SA.Model.DnsWrites
import SA.Proofs.Queue
namespace SA.DnsWrites
open SA.Queue

/-! ### lists -/

theorem genBytes_add (off a b : Nat) : genBytes off (a + b) = genBytes off a ++ genBytes (off + a) b := by
  unfold genBytes
  rw [List.range_add, List.map_append, List.map_map]
  congr 1
  apply List.map_congr_left
  intro i _
  simp [Nat.add_assoc]

theorem genBytes_length (off n : Nat) : (genBytes off n).length = n := by simp [genBytes]

theorem genBytes_take (off k n : Nat) (h : n ≤ k) : (genBytes off k).take n = genBytes off n := by
  obtain ⟨m, rfl⟩ : ∃ m, k = n + m := ⟨k - n, by omega⟩
  rw [genBytes_add, List.take_left' (genBytes_length off n)]

theorem take_flatten (l : List (List Nat)) (j : Nat) :
    (l.take j).flatten = l.flatten.take (l.take j).flatten.length := by
  have h : l.flatten = (l.take j).flatten ++ (l.drop j).flatten := by
    rw [← List.flatten_append, List.take_append_drop]
  conv => rhs; arg 2; rw [h]
  exact (List.take_left' rfl).symm

theorem runS_append (c : Cfg) (mtu : Nat) : ∀ (es : List Ev) (st : Sys) (e : Ev),
    runS c mtu st (es ++ [e]) = stepS c mtu (runS c mtu st es) e := by
  intro es
  induction es with
  | nil => intro st e; rfl
  | cons x xs ih => intro st e; simp only [List.cons_append, runS]; exact ih _ _

/-! ### chunks -/

theorem chunksAux_mem_le {mtu : Nat} : ∀ (fu : Nat) (b d : List Nat), d ∈ chunksAux mtu fu b → d.length ≤ mtu := by
  intro fu
  induction fu with
  | zero => intro b d h; simp [chunksAux] at h
  | succ fu ih =>
    intro b d h
    unfold chunksAux at h
    split at h
    · simp at h
    · split at h
      · rcases List.mem_cons.mp h with rfl | h
        · simp [List.length_take]; omega
        · exact ih _ _ h
      · simp at h; subst h; omega

theorem chunks_mem_le {mtu : Nat} {b d : List Nat} (h : d ∈ chunks mtu b) : d.length ≤ mtu :=
  chunksAux_mem_le _ _ _ h

theorem chunks_small {mtu : Nat} {d : List Nat} (h : d.length ≤ mtu) : (chunks mtu d).length ≤ 1 := by
  unfold chunks
  cases hd : d.length with
  | zero => simp [chunksAux]
  | succ n =>
    unfold chunksAux
    split
    · simp
    · split
      · omega
      · simp

theorem chunksAux_length_le {mtu : Nat} (hm : 0 < mtu) : ∀ (fu : Nat) (b : List Nat),
    (chunksAux mtu fu b).length ≤ b.length := by
  intro fu
  induction fu with
  | zero => intro b; simp [chunksAux]
  | succ fu ih =>
    intro b
    unfold chunksAux
    split
    · simp
    · split
      · have := ih (b.drop mtu)
        simp only [List.length_cons, List.length_drop] at *
        omega
      · rename_i h1 _
        have : b.length ≠ 0 := fun h0 => h1 (List.eq_nil_of_length_eq_zero h0)
        simp; omega

theorem chunks_length_le {mtu : Nat} (hm : 0 < mtu) (b : List Nat) : (chunks mtu b).length ≤ b.length :=
  chunksAux_length_le hm _ _

/-! ### what the exchange machinery leaves alone: the client's accepted bytes -/

theorem clientRecv_accR (c : Cfg) (e : End) (r : Resp) : (clientRecv c e r).1.accR = e.accR := by
  cases r <;> rfl

theorem xchg_accR (c : Cfg) (mtu : Nat) (st : Sys) (ft : Fate) :
    (stepS c mtu st (.xchg ft)).a.accR = st.a.accR := by
  cases ft <;> simp only [stepS, xchgS]
  · rw [clientRecv_accR]; rfl
  · rfl
  · rfl
  · rw [clientRecv_accR]; rfl
  · rw [clientRecv_accR]; rfl
  · split <;> rfl

section core
variable {f : Facts} {mtu : Nat}

/-- a core state reached by well-bounded SA.Queue events from the initial state -/
structure Reach (f : Facts) (mtu sab sba Bd : Nat) (s : Core) : Prop where
  run : s.sys = runS f.cfg mtu (init sab sba) s.evs.reverse
  wb : s.evs.all (evOk mtu 0 Bd) = true

theorem Reach.ap {sab sba Bd : Nat} {s : Core} (h : Reach f mtu sab sba Bd s) (e : Ev)
    (he : evOk mtu 0 Bd e = true) : Reach f mtu sab sba Bd (Core.ap f mtu s e) := by
  refine ⟨?_, ?_⟩
  · simp only [Core.ap, List.reverse_cons]; rw [runS_append, ← h.run]
  · simp only [Core.ap, List.all_cons, he, h.wb, Bool.and_self]

/-- a relation between core states that every exchange step preserves: reachability and the client's
    accepted bytes -/
structure Keeps (f : Facts) (mtu sab sba Bd : Nat) (s s' : Core) : Prop where
  reach : Reach f mtu sab sba Bd s → Reach f mtu sab sba Bd s'
  acc : s'.sys.a.accR = s.sys.a.accR

theorem Keeps.refl {sab sba Bd : Nat} (s : Core) : Keeps f mtu sab sba Bd s s := ⟨id, rfl⟩

theorem Keeps.trans {sab sba Bd : Nat} {s1 s2 s3 : Core} (h1 : Keeps f mtu sab sba Bd s1 s2)
    (h2 : Keeps f mtu sab sba Bd s2 s3) : Keeps f mtu sab sba Bd s1 s3 :=
  ⟨fun r => h2.reach (h1.reach r), by rw [h2.acc, h1.acc]⟩

theorem keeps_xchg {sab sba Bd : Nat} (s : Core) (ft : Fate) (hft : evOk mtu 0 Bd (.xchg ft) = true) :
    Keeps f mtu sab sba Bd s (Core.ap f mtu s (.xchg ft)) :=
  ⟨fun r => r.ap _ hft, xchg_accR f.cfg mtu s.sys ft⟩

theorem keeps_fates {sab sba Bd : Nat} (s : Core) (fs : List XF) (n : Nat) :
    Keeps f mtu sab sba Bd s { s with fates := fs, calls := n } :=
  ⟨fun r => ⟨r.run, r.wb⟩, rfl⟩

theorem keeps_nextChunk {sab sba Bd : Nat} (s : Core) : Keeps f mtu sab sba Bd s (nextChunk f mtu s) :=
  keeps_xchg s .ql rfl

theorem keeps_tryOnce {sab sba Bd : Nat} (s : Core) : Keeps f mtu sab sba Bd s (tryOnce f mtu s).1 := by
  unfold tryOnce
  have h0 := keeps_fates (f := f) (mtu := mtu) (sab := sab) (sba := sba) (Bd := Bd) s s.fates.tail (s.calls + 1)
  cases s.fates.head?.getD s.dflt <;> simp only
  · exact h0.trans (keeps_xchg _ .d rfl)
  · exact h0.trans (keeps_xchg _ .ql rfl)
  · exact h0.trans (keeps_xchg _ .al rfl)
  · exact h0.trans (keeps_xchg _ .ql rfl)
  · exact h0

theorem keeps_sendRecv {sab sba Bd : Nat} : ∀ (left : Nat) (s : Core),
    Keeps f mtu sab sba Bd s (sendRecv f mtu left s).1 := by
  intro left
  induction left with
  | zero => intro s; exact Keeps.refl s
  | succ left ih =>
    intro s
    have h1 := keeps_tryOnce (f := f) (mtu := mtu) (sab := sab) (sba := sba) (Bd := Bd) s
    unfold sendRecv
    simp only
    split
    · exact h1
    · exact h1
    · split
      · split
        · exact h1
        · exact h1.trans (ih _)
      · exact h1

theorem keeps_chunkAdded {sab sba Bd : Nat} : ∀ (fuel : Nat) (s : Core),
    Keeps f mtu sab sba Bd s (chunkAdded f mtu fuel s).1 ∧
    ((chunkAdded f mtu fuel s).2 = true → (chunkAdded f mtu fuel s).1.sys.a.outq.out = []) := by
  intro fuel
  induction fuel with
  | zero => intro s; exact ⟨Keeps.refl s, by simp [chunkAdded]⟩
  | succ fuel ih =>
    intro s
    have h1 := keeps_nextChunk (f := f) (mtu := mtu) (sab := sab) (sba := sba) (Bd := Bd) s
    unfold chunkAdded
    simp only
    split
    · rename_i h0; exact ⟨h1, fun _ => h0⟩
    · have h2 := keeps_sendRecv (f := f) (mtu := mtu) (sab := sab) (sba := sba) (Bd := Bd) f.tries (nextChunk f mtu s)
      split
      · obtain ⟨k, hk⟩ := ih (sendRecv f mtu f.tries (nextChunk f mtu s)).1
        exact ⟨(h1.trans h2).trans k, hk⟩
      · exact ⟨h1.trans h2, by simp⟩

/-- enqueueing one fragment at the client while `out` is empty -/
theorem write_frag {sab sba Bd : Nat} (hBd : 1 ≤ Bd) (s : Core) (d : List Nat) (hd : d.length ≤ mtu)
    (hout : s.sys.a.outq.out = []) :
    (Reach f mtu sab sba Bd s → Reach f mtu sab sba Bd (Core.ap f mtu s (.write false d))) ∧
    (Core.ap f mtu s (.write false d)).sys.a.acc = s.sys.a.acc ++ d := by
  refine ⟨fun r => r.ap _ ?_, ?_⟩
  · have := chunks_small hd
    simp only [evOk, decide_eq_true_eq]; omega
  · simp only [Core.ap, stepS, writeEnd, hout, ne_eq, not_true_eq_false, if_false, End.acc,
      List.reverse_cons, List.flatten_append, List.flatten_cons, List.flatten_nil, List.append_nil]

/-- **the accounting of `n` in the fragment loop** with `n += len(data)` before the error return:
    the loop enqueues a prefix `ds.take j` of the fragments, reports exactly their total length, and
    reports success only when that prefix is everything. -/
theorem writeLoop_counts {sab sba Bd : Nat} (hBd : 1 ≤ Bd) (hpos : f.countPos = 0) :
    ∀ (ds : List (List Nat)) (s : Core) (n : Nat), (∀ d ∈ ds, d.length ≤ mtu) → s.sys.a.outq.out = [] →
      ∃ j, j ≤ ds.length ∧
        (Reach f mtu sab sba Bd s → Reach f mtu sab sba Bd (writeLoop f mtu ds s n).1) ∧
        (writeLoop f mtu ds s n).1.sys.a.acc = s.sys.a.acc ++ (ds.take j).flatten ∧
        (writeLoop f mtu ds s n).2.1 = n + (ds.take j).flatten.length ∧
        ((writeLoop f mtu ds s n).2.2 = true → j = ds.length) := by
  intro ds
  induction ds with
  | nil => intro s n _ _; exact ⟨0, Nat.le_refl _, id, by simp [writeLoop], by simp [writeLoop], fun _ => rfl⟩
  | cons d ds ih =>
    intro s n hlen hout
    obtain ⟨w1, w2⟩ := write_frag (f := f) (sab := sab) (sba := sba) hBd s d (hlen d (by simp)) hout
    obtain ⟨k1, k2⟩ := keeps_chunkAdded (f := f) (mtu := mtu) (sab := sab) (sba := sba) (Bd := Bd)
      ((Core.ap f mtu s (.write false d)).sys.a.outq.out.length + 3) (Core.ap f mtu s (.write false d))
    have hacc1 : (chunkAdded f mtu ((Core.ap f mtu s (.write false d)).sys.a.outq.out.length + 3)
        (Core.ap f mtu s (.write false d))).1.sys.a.acc = s.sys.a.acc ++ d := by
      rw [← w2]; unfold End.acc; rw [k1.acc]
    unfold writeLoop
    simp only [hpos, if_true]
    split
    · rename_i hok
      obtain ⟨j, hj, r, a, c, o⟩ := ih _ (n + d.length) (fun x hx => hlen x (by simp [hx])) (k2 hok)
      refine ⟨j + 1, by simp; omega, fun rr => r (k1.reach (w1 rr)), ?_, ?_, fun h => by simp [o h]⟩
      · rw [a, hacc1]; simp
      · rw [c]; simp; omega
    · exact ⟨1, by simp, fun rr => k1.reach (w1 rr), by rw [hacc1]; simp, by simp, by simp⟩

end core

/-! ### whole histories -/

/-- W events are bounded like the writes of `WellBounded` -/
def WEv.ok (Bd : Nat) : WEv → Bool
  | .W k => decide (k ≤ Bd)
  | _ => true

structure Inv (f : Facts) (mtu sab sba Bd : Nat) (s : St) : Prop where
  reach : Reach f mtu sab sba Bd s.core
  /-- what SA.Queue calls accepted at the client is what the client's Writes reported -/
  acc : s.core.sys.a.acc = streamU 0 s.posU

section hist
variable {f : Facts} {mtu sab sba Bd : Nat}

theorem Inv.of_core {s s' : St} (h : Inv f mtu sab sba Bd s) (hc : s'.core = s.core)
    (hp : s'.posU = s.posU) : Inv f mtu sab sba Bd s' :=
  ⟨by rw [hc]; exact h.reach, by rw [hc, hp]; exact h.acc⟩

theorem Inv.say {s : St} (h : Inv f mtu sab sba Bd s) (t : String) : Inv f mtu sab sba Bd (St.say s t) :=
  h.of_core rfl rfl

theorem Inv.keeps {s : St} (h : Inv f mtu sab sba Bd s) {c' : Core}
    (k : Keeps f mtu sab sba Bd s.core c') : Inv f mtu sab sba Bd { s with core := c' } :=
  ⟨k.reach h.reach, by show c'.sys.a.acc = _; unfold End.acc; rw [k.acc]; exact h.acc⟩

theorem doWriteU_inv (hm : 0 < mtu) (hBd : 1 ≤ Bd) (hpos : f.countPos = 0) {s : St}
    (h : Inv f mtu sab sba Bd s) (hout : s.core.sys.a.outq.out = []) (k : Nat) (pre : String) :
    Inv f mtu sab sba Bd (doWriteU f mtu s k pre) := by
  obtain ⟨j, _, r, a, c, _⟩ := writeLoop_counts (f := f) (mtu := mtu) (sab := sab) (sba := sba) hBd hpos
    (chunks mtu (streamU s.posU k)) s.core 0 (fun d hd => chunks_mem_le hd) hout
  unfold doWriteU
  refine Inv.say ⟨r h.reach, ?_⟩ _
  show (writeLoop f mtu (chunks mtu (streamU s.posU k)) s.core 0).1.sys.a.acc
    = streamU 0 (s.posU + (writeLoop f mtu (chunks mtu (streamU s.posU k)) s.core 0).2.1)
  generalize hLdef : ((chunks mtu (streamU s.posU k)).take j).flatten = L at a c
  have h1 := take_flatten (chunks mtu (streamU s.posU k)) j
  rw [hLdef, chunks_flatten hm] at h1
  have hle : L.length ≤ k := by
    have h2 := congrArg List.length h1
    rw [List.length_take] at h2
    simp only [streamU, genBytes_length] at h2
    omega
  have hL : L = genBytes s.posU L.length := by
    unfold streamU at h1
    rw [genBytes_take _ _ _ hle] at h1
    exact h1
  rw [a, c, h.acc, Nat.zero_add]
  unfold streamU
  rw [genBytes_add, Nat.zero_add]
  exact congrArg (genBytes 0 s.posU ++ ·) hL

theorem settleD_inv {s : St} (h : Inv f mtu sab sba Bd s) : Inv f mtu sab sba Bd (settleD s) := by
  unfold settleD
  split
  · split
    · exact h.of_core rfl rfl
    · exact h
  · exact h

theorem settleU_inv (hm : 0 < mtu) (hBd : 1 ≤ Bd) (hpos : f.countPos = 0) {s : St}
    (h : Inv f mtu sab sba Bd s) : Inv f mtu sab sba Bd (settleU f mtu s) := by
  unfold settleU
  split
  · split
    · rename_i hout
      exact doWriteU_inv hm hBd hpos (s := { s with pendU := none }) (h.of_core rfl rfl) hout _ _
    · exact h
  · exact h

theorem keeps_pollBody (hpoll : f.pollArg = 0) (s : Core) : Keeps f mtu sab sba Bd s (pollBody f mtu s).1 := by
  unfold pollBody
  rw [if_pos hpoll]
  exact (keeps_nextChunk s).trans (keeps_sendRecv _ _)

theorem poll_inv (hpoll : f.pollArg = 0) {s : St} (h : Inv f mtu sab sba Bd s) : Inv f mtu sab sba Bd (poll f mtu s) := by
  unfold poll
  exact Inv.say (h.keeps (keeps_pollBody hpoll s.core)) _

theorem settle_inv (hm : 0 < mtu) (hBd : 1 ≤ Bd) (hpos : f.countPos = 0) {s : St}
    (h : Inv f mtu sab sba Bd s) : Inv f mtu sab sba Bd (settle f mtu s) :=
  settleD_inv (settleU_inv hm hBd hpos (settleD_inv h))

theorem keeps_other {s : Core} (e : Ev) (he : evOk mtu 0 Bd e = true)
    (ha : (stepS f.cfg mtu s.sys e).a.accR = s.sys.a.accR) : Keeps f mtu sab sba Bd s (Core.ap f mtu s e) :=
  ⟨fun r => r.ap _ he, ha⟩

theorem stepW_inv (hm : 0 < mtu) (hBd : 1 ≤ Bd) (hpos : f.countPos = 0) (hpoll : f.pollArg = 0) {s : St}
    (h : Inv f mtu sab sba Bd s) (e : WEv) (he : e.ok Bd = true) : Inv f mtu sab sba Bd (stepW f mtu s e) := by
  cases e with
  | w k =>
    simp only [stepW]
    split
    · exact h.say _
    · split
      · exact h.say _
      · split
        · exact h.of_core rfl rfl
        · rename_i hout
          exact doWriteU_inv hm hBd hpos h (by simpa using hout) _ _
  | W k =>
    simp only [stepW]
    split
    · exact h.say _
    · split
      · exact h.say _
      · have hk : k ≤ Bd := by simpa [WEv.ok] using he
        have hc : (chunks mtu (streamD s.posD k)).length ≤ Bd := by
          have := chunks_length_le hm (streamD s.posD k)
          have hl : (streamD s.posD k).length = k := genBytes_length _ _
          omega
        have kk := keeps_other (f := f) (sab := sab) (sba := sba) (s := s.core)
          (.write true (streamD s.posD k)) (by simpa [evOk] using hc) rfl
        exact Inv.say ⟨kk.reach h.reach, by
          show (Core.ap f mtu s.core _).sys.a.acc = _; unfold End.acc; rw [kk.acc]; exact h.acc⟩ _
  | p => exact poll_inv hpoll h
  | r k =>
    simp only [stepW]
    exact Inv.say (h.keeps (keeps_other _ rfl rfl)) _
  | R k =>
    simp only [stepW]
    refine Inv.say (h.keeps (keeps_other _ rfl ?_)) _
    simp only [stepS, readEnd]
    split <;> rfl
  | D => exact h.of_core rfl rfl
  | N => exact h.of_core rfl rfl

theorem runW_inv (hm : 0 < mtu) (hBd : 1 ≤ Bd) (hpos : f.countPos = 0) (hpoll : f.pollArg = 0) :
    ∀ (es : List WEv) (s : St), Inv f mtu sab sba Bd s → es.all (WEv.ok Bd) = true →
      Inv f mtu sab sba Bd (runW f mtu s es) := by
  intro es
  induction es with
  | nil => intro s h _; exact h
  | cons e es ih =>
    intro s h hall
    simp only [List.all_cons, Bool.and_eq_true] at hall
    exact ih _ (Inv.say (settle_inv hm hBd hpos (stepW_inv hm hBd hpos hpoll h e hall.1)) _) hall.2

theorem start_inv (fates : List XF) : Inv f mtu sab sba Bd (start sab sba fates) :=
  ⟨⟨rfl, rfl⟩, rfl⟩

end hist

end SA.DnsWrites

/-
  Helper lemmas for the SOCKS channel model (SA.Model.Socks).
-/
import SA.Model.Socks
namespace SA.Socks

/-- invariant of target-first histories (no `appClose`) with a half-closing connection -/
structure TInv (n : Nat) (s : SSt) : Prop where
  sum : s.delivered + s.toDeliver = n
  nodrop : s.dropped = 0
  fin : s.tgtFin = true → s.toDeliver = 0
  closed : s.chanClosed = true → s.eofDown = true
  eof : s.eofDown = true → s.downDone = true
  down : s.downDone = true → s.tgtFin = true ∧ s.eofDown = true

theorem tinv_init (n : Nat) : TInv n (sinit n) := by
  constructor <;> simp [sinit]

theorem sstep_tinv (n : Nat) {s s' : SSt} (h : TInv n s) (a : SAct) (ha : a ≠ .appClose)
    (hs : sstep true s a = some s') : TInv n s' := by
  cases a with
  | appClose => exact absurd rfl ha
  | write =>
    simp only [sstep] at hs
    split at hs
    · rename_i hc
      obtain ⟨hpos, htf, hdd⟩ := hc
      have hcc : s.chanClosed = false := by
        cases hcl : s.chanClosed with
        | false => rfl
        | true => have := h.eof (h.closed hcl); rw [hdd] at this; cases this
      rw [hcc] at hs
      simp at hs; subst hs
      refine ⟨by have := h.sum; simp only; omega, h.nodrop, ?_, ?_, h.eof, ?_⟩
      · intro hf; simp only at hf; rw [htf] at hf; cases hf
      · intro hcl; simp only at hcl; first | cases hcl | (rw [hcc] at hcl; cases hcl)
      · intro hd; simp only at hd; rw [hdd] at hd; cases hd
    · simp at hs
  | tgtClose =>
    simp only [sstep] at hs
    split at hs
    · rename_i hc
      simp at hs; subst hs
      exact ⟨h.sum, h.nodrop, fun _ => hc.1, h.closed, h.eof, fun hd => ⟨rfl, (h.down hd).2⟩⟩
    · simp at hs
  | downEnd =>
    simp only [sstep] at hs
    split at hs
    · rename_i hc
      obtain ⟨hdd, hor⟩ := hc
      have hcc : s.chanClosed = false := by
        cases hcl : s.chanClosed with
        | false => rfl
        | true => have := h.eof (h.closed hcl); rw [hdd] at this; cases this
      have htf : s.tgtFin = true := by
        rcases hor with ⟨hf, _⟩ | hcl
        · exact hf
        · rw [hcc] at hcl; cases hcl
      simp at hs; subst hs
      refine ⟨h.sum, h.nodrop, h.fin, ?_, fun _ => rfl, fun _ => ⟨htf, ?_⟩⟩
      · intro hcl; simp only at hcl; first | cases hcl | (rw [hcc] at hcl; cases hcl)
      · simp [hcc]
    · simp at hs
  | pipeClose =>
    simp only [sstep] at hs
    split at hs
    · rename_i hc
      simp at hs; subst hs
      exact ⟨h.sum, h.nodrop, h.fin, fun _ => hc.1, h.eof, h.down⟩
    · simp at hs
  | upEnd =>
    simp only [sstep] at hs
    split at hs
    · simp at hs; subst hs
      exact ⟨h.sum, h.nodrop, h.fin, h.closed, h.eof, h.down⟩
    · simp at hs
  | ret =>
    simp only [sstep] at hs
    split at hs
    · simp at hs; subst hs
      exact ⟨h.sum, h.nodrop, h.fin, h.closed, h.eof, h.down⟩
    · simp at hs

theorem srun_tinv (n : Nat) (s : SSt) (h : TInv n s) (acts : List SAct) (ha : ∀ a ∈ acts, a ≠ .appClose) :
    TInv n (srun true s acts) := by
  induction acts generalizing s with
  | nil => exact h
  | cons a as ih =>
    simp only [srun]
    have ha' : ∀ b ∈ as, b ≠ .appClose := fun b hb => ha b (List.mem_cons_of_mem _ hb)
    split
    · rename_i s' hs
      exact ih s' (sstep_tinv n h a (ha a (List.mem_cons_self)) hs) ha'
    · exact ih s h ha'

theorem srun_append (cw : Bool) (s : SSt) (a b : List SAct) : srun cw s (a ++ b) = srun cw (srun cw s a) b := by
  induction a generalizing s with
  | nil => rfl
  | cons x xs ih =>
    simp only [List.cons_append, srun]
    split <;> exact ih _

end SA.Socks

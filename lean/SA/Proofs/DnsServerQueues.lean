/-
  SA.Proofs.DnsServerQueues — which steps of a multi-session history reach the queue pair of one session object (C13).

  `QSame σ σ'`: every session object has the same InQueue / OutQueue before and after.  Every handler except `packet`
  for the validated session establishes it; `packet` applies `pktStep` to exactly the session that passed
  validateAndGetUser (`PktUpd`).  `run_trace`: the queue pair of session object `sid` after any history is the fold of
  `qstep` over `sessTrace … sid`.
-/
import SA.Proofs.DnsServer
import SA.Model.DnsSessTrace

namespace SA.DnsServer
open SA.Go SA.Go.Res

def QSame (σ σ' : Srv) : Prop := ∀ t, (σ'.sess t).q = (σ.sess t).q

theorem qsame_refl (σ : Srv) : QSame σ σ := fun _ => rfl

theorem qsame_trans {σ σ' σ'' : Srv} (h1 : QSame σ σ') (h2 : QSame σ' σ'') : QSame σ σ'' :=
  fun t => (h2 t).trans (h1 t)

theorem qsame_modify (σ : Srv) (s : Nat) (f : Sess → Sess) (hf : ∀ x, (f x).q = x.q) : QSame σ (σ.modify s f) := by
  intro t
  rw [sess_modify]; split
  · next h => rw [hf, h.1]
  · rfl

theorem qsame_touch (σ : Srv) (s : Nat) : QSame σ (touch σ s) := qsame_modify σ s _ (fun _ => rfl)

theorem vres_qsame {σ : Srv} {uid addr : Nat} {r : Srv × Option Nat × VErr} (h : VRes σ uid addr r) : QSame σ r.1 := by
  cases h with
  | badUser _ => exact qsame_refl _
  | badConn _ _ _ _ => exact qsame_refl _
  | badIp _ _ _ => exact qsame_refl _
  | ok s _ _ => exact qsame_touch σ s

/-- a fresh session object has the queues of the default object: appending it to the heap changes no queue pair -/
theorem qsame_newUser {σ σ' : Srv} {addr : Nat} {u : Option Nat} (h : newUser σ addr = (σ', u)) : QSame σ σ' := by
  rcases newUser_cases h with ⟨rfl, _⟩ | ⟨i, _, _, rfl⟩
  · exact qsame_refl _
  · intro t
    rcases Nat.lt_trichotomy t σ.heap.length with hlt | heq | hgt
    · rw [sess_append_old σ _ _ _ t hlt]
    · subst heq
      rw [sess_append_new]
      have : σ.sess σ.heap.length = default := by
        simp [Srv.sess, List.getD_eq_getElem?_getD]
      rw [this]; rfl
    · have e1 : σ.sess t = default := by
        simp [Srv.sess, List.getD_eq_getElem?_getD, List.getElem?_eq_none (Nat.le_of_lt hgt)]
      have e2 : ({ σ with live := σ.live.set i (some σ.heap.length),
                          heap := σ.heap ++ [{ uid := i, owner := addr, last := σ.now }] } : Srv).sess t = default := by
        simp only [Srv.sess, List.getD_eq_getElem?_getD]
        rw [List.getElem?_eq_none (by simp; omega)]; rfl
      rw [e1, e2]

theorem qsame_retire (σ : Srv) (sid : Nat) : QSame σ (retire σ sid) := by
  unfold retire
  refine qsame_trans (qsame_touch σ sid) (qsame_trans ?_ (qsame_modify _ sid _ (fun _ => rfl)))
  intro t; rfl

theorem close_qsame {σ σ' : Srv} {sid : Nat} (h : closeConnection σ sid = ok σ') : QSame σ σ' := by
  rcases close_cases h with rfl | ⟨_, rfl⟩
  · exact qsame_refl _
  · exact qsame_retire σ sid

/-! ### the handlers -/

theorem hVersion_q (cd : Codec) (dl : Nat) (σ : Srv) (m : Msg) (v : Nat) : QSame σ (hVersion cd dl σ m v).1 := by
  unfold hVersion
  split
  · exact qsame_refl _
  · cases hn : newUser σ m.addr with
    | mk σ1 u =>
      cases u with
      | some uid => exact qsame_newUser hn
      | none => exact qsame_newUser hn

theorem applyOptions_q (s : Sess) (o : Options) : (applyOptions s o).q = s.q := by
  unfold applyOptions
  cases o.up <;> cases o.down <;> cases o.frag <;> cases o.lazy <;> cases o.multi <;> rfl

theorem hOptions_q (cd : Codec) (dl : Nat) {σ σ' : Srv} (m : Msg) (uid : Nat) (o : Options) {a : Ans}
    (h : hOptions cd dl σ m uid o = ok (σ', a)) : QSame σ σ' := by
  unfold hOptions at h
  cases hv : validate σ uid m.addr with
  | panic => rw [hv] at h; simp at h
  | ok r =>
    rw [hv] at h
    have hr := validate_vres hv
    cases hr with
    | badUser _ => simp at h; rw [← h.1]; exact qsame_refl _
    | badConn s _ _ _ => simp at h; rw [← h.1]; exact qsame_refl _
    | badIp s _ _ => simp at h; rw [← h.1]; exact qsame_refl _
    | ok s hl ho =>
      simp only [Res.bind_ok] at h
      by_cases hc : o.closed = some true
      · rw [if_pos hc] at h
        cases h2 : closeConnection (touch σ s) s with
        | panic => rw [h2] at h; simp at h
        | ok σ2 =>
          rw [h2] at h; simp at h; rw [← h.1]
          exact qsame_trans (qsame_touch σ s) (close_qsame h2)
      · rw [if_neg hc] at h
        cases hb : badFrag o.frag with
        | true => simp [hb] at h; rw [← h.1]; exact qsame_touch σ s
        | false =>
          simp [hb] at h; rw [← h.1]
          exact qsame_trans (qsame_touch σ s) (qsame_modify _ s _ (fun x => applyOptions_q x o))

theorem hFragTest_q (cd : Codec) (dl : Nat) {σ σ' : Srv} (m : Msg) (uid size : Nat) {a : Ans}
    (h : hFragTest cd dl σ m uid size = ok (σ', a)) : QSame σ σ' := by
  unfold hFragTest at h
  cases hv : validate σ uid m.addr with
  | panic => rw [hv] at h; simp at h
  | ok r =>
    rw [hv] at h
    have hr := vres_qsame (validate_vres hv)
    obtain ⟨σ1, user, e⟩ := r
    simp only [Res.bind_ok] at h
    have : σ' = σ1 := by
      cases e <;> simp only [] at h
      · split at h <;> (simp at h; exact h.1.symm)
      all_goals (simp at h; exact h.1.symm)
    subst this; exact hr

theorem hUpTest_q (cd : Codec) (dl : Nat) {σ σ' : Srv} (m : Msg) (uid : Nat) (p : List Nat) {a : Ans}
    (h : hUpTest cd dl σ m uid p = ok (σ', a)) : QSame σ σ' := by
  unfold hUpTest at h
  cases hv : validate σ uid m.addr with
  | panic => rw [hv] at h; simp at h
  | ok r =>
    rw [hv] at h
    have hr := vres_qsame (validate_vres hv)
    obtain ⟨σ1, user, e⟩ := r
    simp only [Res.bind_ok] at h
    have : σ' = σ1 := by
      cases e <;> (simp at h; exact h.1.symm)
    subst this; exact hr

/-- `packet` applied `pktStep` to session object `s` and to nothing else, and answered `pktAns` (or nothing) -/
structure PktUpd (σ σ' : Srv) (s ack : Nat) (pkt : Option (Nat × List Nat)) (a : Ans) : Prop where
  others : ∀ t, t ≠ s → (σ'.sess t).q = (σ.sess t).q
  self : (σ'.sess s).q = pktStep (σ.sess s).q ack pkt
  ans : a = .drop ∨ a = pktAns (σ.sess s).q ack pkt

theorem finish_cases (cd : Codec) (m : Msg) (dl pfx code n : Nat) (a : Ans) :
    finish cd m dl pfx code n a = .drop ∨ finish cd m dl pfx code n a = a := by
  unfold finish; split <;> simp

theorem hPacket_q (cd : Codec) (dl : Nat) {σ σ' : Srv} (hI : Inv σ) (m : Msg) (uid ack : Nat)
    (pkt : Option (Nat × List Nat)) {a : Ans} (h : hPacket cd dl σ m uid ack pkt = ok (σ', a)) :
    (∃ s, σ.live[uid]? = some (some s) ∧ (σ.sess s).owner = m.addr ∧ PktUpd σ σ' s ack pkt a) ∨
    ((¬ ∃ s, σ.live[uid]? = some (some s) ∧ (σ.sess s).owner = m.addr) ∧ QSame σ σ') := by
  unfold hPacket at h
  cases hv : validate σ uid m.addr with
  | panic => rw [hv] at h; simp at h
  | ok r =>
    rw [hv] at h
    have hr := validate_vres hv
    cases hr with
    | badUser hl =>
      simp at h; rw [← h.1]
      exact Or.inr ⟨by rintro ⟨s, h1, _⟩; rw [hl] at h1; simp at h1, qsame_refl _⟩
    | badConn s hl _ _ =>
      simp at h; rw [← h.1]
      exact Or.inr ⟨by rintro ⟨s, h1, _⟩; rw [hl] at h1; simp at h1, qsame_refl _⟩
    | badIp s hl ho =>
      simp at h; rw [← h.1]
      exact Or.inr ⟨by rintro ⟨s', h1, h2⟩; rw [hl] at h1; simp at h1; subst h1; exact ho h2, qsame_refl _⟩
    | ok s hl ho =>
      left
      refine ⟨s, hl, ho, ?_⟩
      have hs : s < σ.heap.length := (hI.liveOk _ _ hl).1
      have hs' : s < (touch σ s).heap.length := by simpa [touch, heap_length_modify] using hs
      have hq : ((touch σ s).sess s).q = (σ.sess s).q := qsame_touch σ s s
      have hinq : ((touch σ s).sess s).inq = (σ.sess s).inq := congrArg Prod.fst hq
      have houtq : ((touch σ s).sess s).outq = (σ.sess s).outq := congrArg Prod.snd hq
      simp only [Res.bind_ok] at h
      rw [hinq, houtq] at h
      cases happ : (σ.sess s).inq.append pkt with
      | none =>
        simp only [happ] at h
        simp at h
        obtain ⟨h1, h2⟩ := h
        subst h1
        refine ⟨?_, ?_, ?_⟩
        · intro t ht
          rw [sess_modify]; simp only [ht, false_and, ite_false]
          exact qsame_touch σ s t
        · rw [sess_modify]; simp only [true_and, hs', ite_true]
          simp only [Sess.q, pktStep, happ, hinq]
        · rw [← h2]
          simp only [pktAns, Sess.q, happ]
          exact finish_cases ..
      | some inq =>
        simp only [happ] at h
        cases hch : ((σ.sess s).outq.updateAcked ack).nextChunk.2 with
        | none =>
          simp only [hch] at h
          simp at h
          obtain ⟨h1, h2⟩ := h
          subst h1
          refine ⟨?_, ?_, ?_⟩
          · intro t ht
            rw [sess_modify]; simp only [ht, false_and, ite_false]
            exact qsame_touch σ s t
          · rw [sess_modify]; simp only [true_and, hs', ite_true]
            simp only [Sess.q, pktStep, happ]
          · rw [← h2]
            simp only [pktAns, Sess.q, happ, hch]
            exact finish_cases ..
        | some c =>
          simp only [hch] at h
          simp at h
          obtain ⟨h1, h2⟩ := h
          subst h1
          refine ⟨?_, ?_, ?_⟩
          · intro t ht
            rw [sess_modify]; simp only [ht, false_and, ite_false]
            exact qsame_touch σ s t
          · rw [sess_modify]; simp only [true_and, hs', ite_true]
            simp only [Sess.q, pktStep, happ]
          · rw [← h2]
            simp only [pktAns, Sess.q, happ, hch]
            exact finish_cases ..

end SA.DnsServer

namespace SA.DnsServer
open SA.Go SA.Go.Res

theorem pktUpd_of_touch {σ σ' : Srv} {s ack : Nat} {pkt : Option (Nat × List Nat)} {a : Ans} (s0 : Nat)
    (h : PktUpd (touch σ s0) σ' s ack pkt a) : PktUpd σ σ' s ack pkt a := by
  have e : ∀ t, ((touch σ s0).sess t).q = (σ.sess t).q := qsame_touch σ s0
  exact ⟨fun t ht => (h.others t ht).trans (e t), by rw [h.self, e], by rw [← e]; exact h.ans⟩

/-- **which messages reach which queues**: a message reaches the queue pair of a session object only as the packet
    request `pktReq` recognises (live identifier, owner address, decodes with that session's codec), and then it applies
    `pktStep` to that object alone; every other message leaves every queue pair as it was. -/
theorem onMessage_q (cd : Codec) (hT : cd.Total) (dom : List Nat) {σ σ' : Srv} (hI : Inv σ) (m : Msg) {a : Ans}
    (h : onMessage cd dom σ m = ok (σ', a)) :
    match pktReq cd dom σ m with
    | some (s, ack, pkt) => PktUpd σ σ' s ack pkt a
    | none => QSame σ σ' := by
  unfold onMessage at h
  unfold pktReq
  cases hreq : stripDomain m.name dom with
  | panic => simp [hreq] at h
  | ok request =>
    cases hc : findCmd SA.Gen.commandTable request with
    | panic => simp [hreq, hc] at h
    | ok c =>
      simp only [hreq, hc, Res.bind_ok] at h ⊢
      cases c with
      | none => simp at h; rw [← h.1]; exact qsame_refl _
      | some c =>
        obtain ⟨code, needsUser, hasReq, hasResp⟩ := c
        cases hasReq with
        | false => simp at h; rw [← h.1]; exact qsame_refl _
        | true =>
          simp only [Bool.not_true, Bool.false_eq_true, ite_false] at h
          obtain ⟨hd, hh, hub⟩ := decodeHeader_spec needsUser request
          rw [hh] at h
          simp only [hh, Res.bind_ok] at h ⊢
          cases hd with
          | none => simp at h; rw [← h.1]; exact qsame_refl _
          | some p =>
            obtain ⟨rest, uid⟩ := p
            have hu : uid < SA.Gen.maxUsers := hub rest uid rfl
            obtain ⟨r, hr, hv⟩ := validate_total hI hu m.addr
            dsimp only at h ⊢
            rw [hr] at h
            obtain ⟨σ1, user, uerr⟩ := r
            have hI1 : Inv σ1 := vres_inv hI hv
            have hQ1 : QSame σ σ1 := vres_qsame hv
            simp only [Res.bind_ok] at h
            -- the dispatch after validateAndGetUser: either no queue changes, or `packet` ran on σ1
            have tail : (QSame σ1 σ' ∧ ∀ a0 p, decodeRequest cd code needsUser true (upOf σ1 user) request ≠ ok (some (.packet uid a0 p))) ∨
                (∃ a0 p, decodeRequest cd code needsUser true (upOf σ1 user) request = ok (some (.packet uid a0 p)) ∧
                  hPacket cd dom.length σ1 m uid a0 p = ok (σ', a)) ∨
                (σ' = σ1 ∧ ((user.isNone && needsUser) = true ∨ (user.isSome && decide (uerr = .badConn)) = true)) := by
              split at h
              · next hc1 => simp at h; exact Or.inr (Or.inr ⟨h.1.symm, Or.inl hc1⟩)
              · split at h
                · next hc2 => simp at h; exact Or.inr (Or.inr ⟨h.1.symm, Or.inr hc2⟩)
                · obtain ⟨q, hq, hquid⟩ := decodeRequest_spec cd hT code needsUser (upOf σ1 user) request rest uid hh
                  rw [hq] at h ⊢
                  simp only [Res.bind_ok] at h
                  cases q with
                  | none => simp at h; left; rw [← h.1]; exact ⟨qsame_refl _, by intro a0 p; simp⟩
                  | some q =>
                    cases q with
                    | version v =>
                      simp at h; left
                      have hq0 := hVersion_q cd dom.length σ1 m v
                      rw [h] at hq0
                      exact ⟨hq0, by intro a0 p; simp⟩
                    | options u o => left; exact ⟨hOptions_q cd dom.length m u o h, by intro a0 p; simp⟩
                    | fragTest u n => left; exact ⟨hFragTest_q cd dom.length m u n h, by intro a0 p; simp⟩
                    | downTest c => simp [hDownTest] at h; left; rw [← h.1]; exact ⟨qsame_refl _, by intro a0 p; simp⟩
                    | upTest u p => left; exact ⟨hUpTest_q cd dom.length m u p h, by intro a0 p; simp⟩
                    | packet u a0 p =>
                      have : u = uid := hquid _ u rfl rfl
                      subst this
                      right; left; exact ⟨a0, p, rfl, h⟩
            cases hv with
            | badUser hl =>
              simp only [hl]
              rcases tail with ⟨hq, _⟩ | ⟨a0, p, _, hp⟩ | ⟨rfl, _⟩
              · exact hq
              · rcases hPacket_q cd dom.length hI m uid a0 p hp with ⟨s, h1, _⟩ | ⟨_, hq⟩
                · rw [hl] at h1; simp at h1
                · exact hq
              · exact qsame_refl _
            | badConn s hl _ _ =>
              simp only [hl]
              rcases tail with ⟨hq, _⟩ | ⟨a0, p, _, hp⟩ | ⟨rfl, _⟩
              · exact hq
              · rcases hPacket_q cd dom.length hI m uid a0 p hp with ⟨s, h1, _⟩ | ⟨_, hq⟩
                · rw [hl] at h1; simp at h1
                · exact hq
              · exact qsame_refl _
            | badIp s hl ho =>
              simp only [hl, ho, ite_false]
              rcases tail with ⟨hq, _⟩ | ⟨a0, p, _, hp⟩ | ⟨rfl, _⟩
              · exact hq
              · rcases hPacket_q cd dom.length hI m uid a0 p hp with ⟨s', h1, h2, _⟩ | ⟨_, hq⟩
                · rw [hl] at h1; simp at h1; subst h1; exact absurd h2 ho
                · exact hq
              · exact qsame_refl _
            | ok s hl ho =>
              have hup : upOf (touch σ s) (some s) = (σ.sess s).up := by
                unfold upOf touch; simp only []; rw [sess_modify]; split <;> rfl
              rw [hup] at tail
              simp only [hl, ho, ite_true]
              rcases tail with ⟨hq, hne⟩ | ⟨a0, p, hdec, hp⟩ | ⟨_, hx⟩
              · have hq2 : QSame σ σ' := qsame_trans (qsame_touch σ s) hq
                obtain ⟨q, hq', hquid⟩ := decodeRequest_spec cd hT code needsUser (σ.sess s).up request rest uid hh
                rw [hq'] at hne ⊢
                cases q with
                | none => exact hq2
                | some q =>
                  cases q with
                  | packet u a0 p =>
                    have : u = uid := hquid _ u rfl rfl
                    subst this
                    exact absurd rfl (hne a0 p)
                  | _ => exact hq2
              · rw [hdec]
                simp only []
                rcases hPacket_q cd dom.length hI1 m uid a0 p hp with ⟨s', h1, _, hupd⟩ | ⟨hno, _⟩
                · have : s' = s := by
                    have : (touch σ s).live = σ.live := rfl
                    rw [this, hl] at h1; simp at h1; exact h1.symm
                  subst this
                  exact pktUpd_of_touch s' hupd
                · exact absurd ⟨s, hl, by rw [owner_touch]; exact ho⟩ hno
              · simp at hx

end SA.DnsServer

namespace SA.DnsServer
open SA.Go SA.Go.Res

/-! ### the other ops of a history -/

theorem foldl_sess (loop : Nat × Nat × List (Nat × Bool)) : ∀ (l : List Nat) (σ : Srv), Inv σ →
    ∀ s, (l.foldl (expireAt loop) σ).sess s = σ.sess s
  | [], _, _, _ => rfl
  | j :: r, σ, h, s => by
    have hp := expireAt_inv loop h j
    show (r.foldl (expireAt loop) (expireAt loop σ j)).sess s = _
    rw [foldl_sess loop r _ hp.1 s, hp.2.1]

theorem expireWith_sess : ∀ (loops : List (Nat × Nat × List (Nat × Bool))) (σ : Srv), Inv σ →
    ∀ s, (expireWith loops σ).sess s = σ.sess s
  | [], _, _, _ => rfl
  | l :: r, σ, h, s => by
    show (expireWith r (expireLoop σ l)).sess s = _
    have hI2 : Inv (expireLoop σ l) := foldl_inv l _ σ h
    rw [expireWith_sess r _ hI2 s]
    exact foldl_sess l _ σ h s

theorem appClose_q {σ σ' : Srv} {sid : Nat} (h : appClose σ sid = ok σ') : QSame σ σ' := by
  unfold appClose at h
  split at h
  · exact close_qsame h
  · simp at h; subst h; exact qsame_refl _

theorem appWrite_q (σ : Srv) (s : Nat) (d : List Nat) (t : Nat) :
    ((appWrite σ s d).sess t).q =
      if t = s ∧ writeReaches σ s d = true then ((σ.sess t).q.1, (σ.sess t).q.2.addChunks (chunks d.length (σ.sess t).frag d))
      else (σ.sess t).q := by
  unfold appWrite writeReaches
  by_cases h1 : s < σ.heap.length ∧ d ≠ []
  · rw [if_pos h1]
    dsimp only
    by_cases h2 : (σ.sess s).closed = true ∨ (σ.sess s).outq.hasData = true ∨ (σ.sess s).frag = 0
    · rw [if_pos h2]; simp [h1, h2]
    · rw [if_neg h2]
      rw [sess_modify]
      by_cases hts : t = s
      · subst hts; simp [h1, h2, Sess.q]
      · simp [hts]
  · rw [if_neg h1]; simp [h1]

/-- one step of a history changes the queue pair of session object `sid` by exactly the events `evOf` lists -/
theorem step_q (cd : Codec) (hT : cd.Total) (dom : List Nat) {σ : Srv} (hI : Inv σ) (op : Op) (sid : Nat) :
    ((step cd dom σ op).sess sid).q = (evOf cd dom sid σ op).foldl qstep (σ.sess sid).q := by
  cases op with
  | msg m =>
    obtain ⟨σ', a, h, _, _⟩ := onMessage_good cd hT dom hI m
    have hs : step cd dom σ (.msg m) = σ' := by unfold step stepAns; simp [h]
    rw [hs]
    have hq := onMessage_q cd hT dom hI m h
    cases hp : pktReq cd dom σ m with
    | none => rw [hp] at hq; simp only [evOf, hp, List.foldl_nil]; exact hq sid
    | some x =>
      obtain ⟨s, ack, pkt⟩ := x
      rw [hp] at hq
      simp only [evOf, hp]
      by_cases hss : s = sid
      · subst hss; simp only [ite_true, List.foldl_cons, List.foldl_nil, qstep]; exact hq.self
      · simp only [hss, ite_false, List.foldl_nil]; exact hq.others sid (fun e => hss e.symm)
  | close s =>
    obtain ⟨σ', h⟩ : ∃ σ', appClose σ s = ok σ' := by
      unfold appClose; split
      · next hs => exact close_no_panic hI hs
      · exact ⟨σ, rfl⟩
    have hs : step cd dom σ (.close s) = σ' := by unfold step stepAns; simp [h]
    rw [hs]
    exact appClose_q h sid
  | write s d =>
    have hs : step cd dom σ (.write s d) = appWrite σ s d := by unfold step stepAns; rfl
    rw [hs, appWrite_q]
    simp only [evOf]
    by_cases hc : s = sid ∧ writeReaches σ s d = true
    · obtain ⟨rfl, hw⟩ := hc
      simp [hw, qstep]
    · have hc' : ¬ (sid = s ∧ writeReaches σ s d = true) := fun ⟨e, w⟩ => hc ⟨e.symm, w⟩
      rw [if_neg hc, if_neg hc']; rfl
  | tick dt => rfl
  | expire =>
    have hs : step cd dom σ .expire = expire σ := by unfold step stepAns; rfl
    rw [hs]
    show ((expireWith _ σ).sess sid).q = _
    rw [expireWith_sess _ σ hI]; rfl

end SA.DnsServer

namespace SA.DnsServer
open SA.Go SA.Go.Res

/-! ### sequence numbers on the wire are 16-bit (the decoders return bytes) -/

theorem le16_bytes {b r : List Nat} {v : Nat} (h : le16 b = some (v, r)) (hb : ∀ x ∈ b, x < 256) :
    v < 65536 ∧ ∀ x ∈ r, x < 256 := by
  unfold le16 at h
  split at h
  · next x y r' =>
    simp at h
    obtain ⟨rfl, rfl⟩ := h
    have hx := hb x (by simp)
    have hy := hb y (by simp)
    exact ⟨by omega, fun z hz => hb z (by simp [hz])⟩
  · simp at h

theorem decodePacketBody_bytes {uid u a : Nat} {d : List Nat} {p : Option (Nat × List Nat)}
    (h : decodePacketBody uid d = some (.packet u a p)) (hb : ∀ x ∈ d, x < 256) : ∀ x, p = some x → x.1 < 65536 := by
  unfold decodePacketBody at h
  cases h1 : le16 d with
  | none => simp [h1] at h
  | some ar =>
    obtain ⟨ack, r⟩ := ar
    have hr := (le16_bytes h1 hb).2
    simp only [h1] at h
    cases r with
    | nil => simp at h
    | cons has r1 =>
      simp only [] at h
      split at h
      · cases h2 : le16 r1 with
        | none => simp [h2] at h
        | some sd =>
          obtain ⟨seq, data⟩ := sd
          simp [h2] at h
          intro x hx
          rw [← h.2.2] at hx
          simp at hx
          rw [← hx]
          exact (le16_bytes h2 (fun z hz => hr z (by simp [hz]))).1
      · simp at h
        intro x hx; rw [← h.2.2] at hx; simp at hx

/-- a decoded packet request carries a 16-bit sequence number -/
theorem decodeRequest_packet_bytes (cd : Codec) (hT : cd.Total) (hB : cd.Bytes) (code : Nat) (needsUser : Bool) (up : Nat)
    (req : List Nat) (u a : Nat) (p : Option (Nat × List Nat))
    (h : decodeRequest cd code needsUser true up req = ok (some (.packet u a p))) : ∀ x, p = some x → x.1 < 65536 := by
  unfold decodeRequest at h
  simp only [callField, ite_true, Res.bind_ok, Codec.decode_total hT] at h
  cases hh : decodeHeader needsUser req with
  | panic => simp [hh] at h
  | ok hd =>
    cases hd with
    | none => simp [hh] at h
    | some pr =>
      obtain ⟨rest, uid⟩ := pr
      simp only [hh, Res.bind_ok] at h
      by_cases c1 : code = 118
      · simp only [c1, ite_true] at h
        cases hd : cd.dec 84 rest with
        | none => simp [hd] at h
        | some d => cases hl : le32 d <;> simp [hd, hl] at h
      · simp only [c1, ite_false] at h
        by_cases c2 : code = 111
        · simp only [c2, ite_true] at h
          cases hd : cd.dec 84 rest with
          | none => simp [hd] at h
          | some d =>
            simp [hd] at h
            have := decodeOptionsBody_uid uid d _ h
            unfold decodeOptionsBody at h
            exfalso
            revert h
            split
            · simp
            · simp
            · simp
            · dsimp only
              split
              · simp
              · split
                · simp
                · split
                  · simp
                  · split
                    · simp
                    · split <;> simp
        · simp only [c2, ite_false] at h
          by_cases c3 : code = 114
          · simp only [c3, ite_true] at h
            cases hd : cd.dec 84 rest with
            | none => simp [hd] at h
            | some d => cases hl : le32 d <;> simp [hd, hl] at h
          · simp only [c3, ite_false] at h
            by_cases c4 : code = 121
            · simp only [c4, ite_true] at h
              by_cases he : rest.length = 0
              · simp [he] at h
              · have : 0 < rest.length := Nat.pos_of_ne_zero he
                simp [he, idx, this] at h
            · simp only [c4, ite_false] at h
              by_cases c5 : code = 122
              · simp only [c5, ite_true] at h
                simp at h
              · simp only [c5, ite_false] at h
                by_cases c6 : code = 99
                · simp only [c6, ite_true] at h
                  cases hd : cd.dec up rest with
                  | none => simp [hd] at h
                  | some d =>
                    simp [hd] at h
                    exact decodePacketBody_bytes h (hB up rest d hd)
                · simp [c6] at h

theorem pktReq_bytes (cd : Codec) (hT : cd.Total) (hB : cd.Bytes) (dom : List Nat) (σ : Srv) (m : Msg) {s a : Nat}
    {p : Option (Nat × List Nat)} (h : pktReq cd dom σ m = some (s, a, p)) : ∀ x, p = some x → x.1 < 65536 := by
  unfold pktReq at h
  split at h
  · split at h
    · split at h
      · split at h
        · split at h
          · split at h
            · next u a0 p0 hdec =>
              simp at h
              obtain ⟨_, rfl, rfl⟩ := h
              exact decodeRequest_packet_bytes cd hT hB _ _ _ _ u a0 p0 hdec
            · simp at h
          · simp at h
        · simp at h
      · simp at h
    · simp at h
  · simp at h

end SA.DnsServer

/-
  SA.Proofs.Handshake — helper lemmas for C06 / C04.
  1. the reader primitives (`readLine`, `skipSpace`, `ensure`) only depend on, and only change, the flattened
     byte stream `Rd.flat`;
  2. simulation: everything built on the primitives gives equal results on readers with equal `flat`
     (this is segmentation independence; the `optimistic` short cut is the one place that looks at the buffer);
  3. the Go slice expressions of the two line parsers are always in range;
  4. shape of a successfully parsed request line.
-/
import SA.Model.Handshake
namespace SA.Handshake

/-! ### list lemmas -/

theorem takeWhile_append_of_exists {p : Nat → Bool} {a : B} (b : B) (h : ∃ x ∈ a, p x = false) :
    (a ++ b).takeWhile p = a.takeWhile p := by
  induction a with
  | nil => obtain ⟨x, hx, _⟩ := h; cases hx
  | cons y ys ih =>
    by_cases hy : p y = true
    · have : ∃ x ∈ ys, p x = false := by
        obtain ⟨x, hx, hpx⟩ := h
        rcases List.mem_cons.mp hx with rfl | hx'
        · rw [hy] at hpx; cases hpx
        · exact ⟨x, hx', hpx⟩
      simp [List.takeWhile, hy, ih this]
    · simp [List.takeWhile, hy]

theorem dropWhile_append_of_exists {p : Nat → Bool} {a : B} (b : B) (h : ∃ x ∈ a, p x = false) :
    (a ++ b).dropWhile p = a.dropWhile p ++ b := by
  induction a with
  | nil => obtain ⟨x, hx, _⟩ := h; cases hx
  | cons y ys ih =>
    by_cases hy : p y = true
    · have : ∃ x ∈ ys, p x = false := by
        obtain ⟨x, hx, hpx⟩ := h
        rcases List.mem_cons.mp hx with rfl | hx'
        · rw [hy] at hpx; cases hpx
        · exact ⟨x, hx', hpx⟩
      simp [List.dropWhile, hy, ih this]
    · simp [List.dropWhile, hy]

theorem takeWhile_append_of_all {p : Nat → Bool} {a : B} (b : B) (h : ∀ x ∈ a, p x = true) :
    (a ++ b).takeWhile p = a ++ b.takeWhile p := by
  induction a with
  | nil => rfl
  | cons y ys ih =>
    have hy : p y = true := h y (by simp)
    simp [List.takeWhile, hy, ih (fun x hx => h x (by simp [hx]))]

theorem dropWhile_append_of_all {p : Nat → Bool} {a : B} (b : B) (h : ∀ x ∈ a, p x = true) :
    (a ++ b).dropWhile p = b.dropWhile p := by
  induction a with
  | nil => rfl
  | cons y ys ih =>
    have hy : p y = true := h y (by simp)
    simp [List.dropWhile, hy, ih (fun x hx => h x (by simp [hx]))]

theorem dropWhile_nil_all {p : Nat → Bool} {l : B} (h : l.dropWhile p = []) : ∀ x ∈ l, p x = true := by
  induction l with
  | nil => intro x hx; cases hx
  | cons y ys ih =>
    by_cases hy : p y = true
    · rw [List.dropWhile_cons_of_pos hy] at h
      intro x hx
      rcases List.mem_cons.mp hx with rfl | hx'
      · exact hy
      · exact ih h x hx'
    · rw [List.dropWhile_cons_of_neg hy] at h; cases h

theorem takeWhile_self_of_all {p : Nat → Bool} {l : B} (h : ∀ x ∈ l, p x = true) : l.takeWhile p = l := by
  induction l with
  | nil => rfl
  | cons y ys ih =>
    rw [List.takeWhile_cons_of_pos (h y (by simp)), ih (fun x hx => h x (by simp [hx]))]

theorem exists_of_dropWhile_ne_nil {p : Nat → Bool} {l : B} (h : l.dropWhile p ≠ []) : ∃ x ∈ l, p x = false := by
  induction l with
  | nil => exact absurd rfl h
  | cons y ys ih =>
    by_cases hy : p y = true
    · rw [List.dropWhile_cons_of_pos hy] at h
      obtain ⟨x, hx, hpx⟩ := ih h
      exact ⟨x, by simp [hx], hpx⟩
    · exact ⟨y, by simp, by simpa using hy⟩

theorem hasNL_exists {b : B} (h : hasNL b = true) : ∃ x ∈ b, (x != 10) = false := by
  unfold hasNL at h
  exact ⟨10, by simpa using h, by simp⟩

theorem hasNL_append_left {a : B} (b : B) (h : hasNL a = true) : hasNL (a ++ b) = true := by
  unfold hasNL at *; simp at *; exact Or.inl h

/-! ### the primitives in terms of the flat stream -/

def flatLine (s : B) : Option B :=
  if hasNL s then some (chompCR (lineOf s)) else if s.isEmpty then none else some s

def flatRest (s : B) : B := if hasNL s then afterNL s else []

theorem readLineAux_spec (buf : B) (p : List B) :
    (readLineAux buf p).1 = flatLine (buf ++ p.flatten) ∧
    (readLineAux buf p).2.flat = flatRest (buf ++ p.flatten) := by
  induction p generalizing buf with
  | nil =>
    simp only [List.flatten_nil, List.append_nil]
    unfold readLineAux flatLine flatRest
    by_cases h : hasNL buf = true
    · simp [h, Rd.flat]
    · by_cases h2 : buf.isEmpty = true <;> simp [h, h2, Rd.flat]
  | cons c cs ih =>
    unfold readLineAux
    by_cases h : hasNL buf = true
    · have e := hasNL_exists h
      have h' : hasNL (buf ++ (c :: cs).flatten) = true := hasNL_append_left _ h
      simp only [h, if_true, flatLine, flatRest, h', lineOf, afterNL, Rd.flat]
      rw [takeWhile_append_of_exists _ e, dropWhile_append_of_exists _ e]
      constructor
      · rfl
      · have : 0 < (List.dropWhile (fun x => x != 10) buf).length := by
          obtain ⟨x, hx, hpx⟩ := e
          cases hd : List.dropWhile (fun x => x != 10) buf with
          | nil =>
            have := dropWhile_nil_all hd x hx
            rw [hpx] at this; cases this
          | cons _ _ => simp
        cases hd : List.dropWhile (fun x => x != 10) buf with
        | nil => rw [hd] at this; cases this
        | cons y ys => simp
    · simp only [h, Bool.false_eq_true, if_false]
      have := ih (buf ++ c)
      simpa [List.flatten_cons, List.append_assoc] using this

theorem readLine_fst (r : Rd) : r.readLine.1 = flatLine r.flat := (readLineAux_spec _ _).1
theorem readLine_snd (r : Rd) : r.readLine.2.flat = flatRest r.flat := (readLineAux_spec _ _).2

theorem skipAux_spec (buf : B) (p : List B) :
    (skipAux buf p).1 = ((buf ++ p.flatten).takeWhile isSpTab).length ∧
    (skipAux buf p).2.flat = (buf ++ p.flatten).dropWhile isSpTab := by
  induction p generalizing buf with
  | nil => simp [skipAux, Rd.flat]
  | cons c cs ih =>
    unfold skipAux
    by_cases h : (buf.dropWhile isSpTab).isEmpty = true
    · have hall : ∀ x ∈ buf, isSpTab x = true := by
        have : buf.dropWhile isSpTab = [] := by simpa using h
        exact dropWhile_nil_all this
      have ht : buf.takeWhile isSpTab = buf := takeWhile_self_of_all hall
      simp only [h, if_true]
      rw [takeWhile_append_of_all _ hall, dropWhile_append_of_all _ hall, ht]
      obtain ⟨i1, i2⟩ := ih c
      simp only [List.flatten_cons, List.length_append]
      exact ⟨by rw [i1], i2⟩
    · have e : ∃ x ∈ buf, isSpTab x = false := by
        have hne : buf.dropWhile isSpTab ≠ [] := by simpa using h
        exact exists_of_dropWhile_ne_nil hne
      simp only [h, Bool.false_eq_true, if_false]
      rw [takeWhile_append_of_exists _ e, dropWhile_append_of_exists _ e]
      simp [Rd.flat]

theorem skipSpace_fst (r : Rd) : r.skipSpace.1 = (r.flat.takeWhile isSpTab).length := (skipAux_spec _ _).1
theorem skipSpace_snd (r : Rd) : r.skipSpace.2.flat = r.flat.dropWhile isSpTab := (skipAux_spec _ _).2

theorem ensureAux_spec (buf : B) (p : List B) :
    (ensureAux buf p).flat = buf ++ p.flatten ∧ (ensureAux buf p).buf.head? = (buf ++ p.flatten).head? := by
  induction p generalizing buf with
  | nil => cases buf <;> simp [ensureAux, Rd.flat]
  | cons c cs ih =>
    cases buf with
    | nil =>
      have := ih c
      simpa [ensureAux, List.flatten_cons] using this
    | cons b bs => simp [ensureAux, Rd.flat]

theorem ensure_flat (r : Rd) : r.ensure.flat = r.flat := (ensureAux_spec _ _).1
theorem ensure_head (r : Rd) : r.ensure.buf.head? = r.flat.head? := (ensureAux_spec _ _).2

/-! ### simulation: equal flat streams give equal results -/

/-- results agree and the readers left behind hold the same bytes -/
def RelP {α : Type} (x y : α × Rd) : Prop := x.1 = y.1 ∧ x.2.flat = y.2.flat

def RelO {α : Type} : Option (α × Rd) → Option (α × Rd) → Prop
  | none, none => True
  | some x, some y => RelP x y
  | _, _ => False

theorem contLoop_sim (fuel : Nat) (acc : B) (r r' : Rd) (h : r.flat = r'.flat) :
    RelP (contLoop fuel acc r) (contLoop fuel acc r') := by
  induction fuel generalizing acc r r' with
  | zero => exact ⟨rfl, h⟩
  | succ f ih =>
    have h1 : r.skipSpace.1 = r'.skipSpace.1 := by rw [skipSpace_fst, skipSpace_fst, h]
    have h2 : r.skipSpace.2.flat = r'.skipSpace.2.flat := by rw [skipSpace_snd, skipSpace_snd, h]
    simp only [contLoop]
    rw [← h1]
    by_cases h0 : r.skipSpace.1 = 0
    · simp only [h0, if_true]; exact ⟨rfl, h2⟩
    · simp only [h0, if_false]
      have l1 : r.skipSpace.2.readLine.1 = r'.skipSpace.2.readLine.1 := by
        rw [readLine_fst, readLine_fst, h2]
      have l2 : r.skipSpace.2.readLine.2.flat = r'.skipSpace.2.readLine.2.flat := by
        rw [readLine_snd, readLine_snd, h2]
      rcases e : r.skipSpace.2.readLine with ⟨o, r2⟩
      rcases e' : r'.skipSpace.2.readLine with ⟨o', r2'⟩
      rw [e, e'] at l1 l2
      simp only at l1 l2
      subst l1
      cases o with
      | none => exact ⟨rfl, l2⟩
      | some l => exact ih _ _ _ l2

theorem contLoop_nospace (fuel : Nat) (acc : B) (r : Rd) (h : r.flat.takeWhile isSpTab = []) :
    (contLoop fuel acc r).1 = acc ∧ (contLoop fuel acc r).2.flat = r.flat := by
  cases fuel with
  | zero => simp [contLoop]
  | succ f =>
    have h0 : r.skipSpace.1 = 0 := by rw [skipSpace_fst, h]; rfl
    simp only [contLoop, h0, if_true, true_and]
    rw [skipSpace_snd]
    have := List.takeWhile_append_dropWhile (p := isSpTab) (l := r.flat)
    rw [h] at this
    simpa using this

theorem optimistic_nospace (r : Rd) (h : optimistic r.buf = true) : r.flat.takeWhile isSpTab = [] := by
  unfold Rd.flat
  cases hb : r.buf with
  | nil => rw [hb] at h; simp [optimistic] at h
  | cons a t =>
    cases t with
    | nil => rw [hb] at h; simp [optimistic] at h
    | cons b t' =>
      rw [hb] at h
      have : isSpTab a = false := by
        simp only [optimistic, isAsciiLetter, isLowerB, isUpperB, Bool.or_eq_true, Bool.and_eq_true,
          decide_eq_true_eq, beq_iff_eq] at h
        simp only [isSpTab, Bool.or_eq_false_iff, beq_eq_false_iff_ne, ne_eq]
        omega
      simp [List.takeWhile, this]

theorem readCont_sim (fuel : Nat) (line : B) (r r' : Rd) (h : r.flat = r'.flat) :
    RelP (readCont fuel line r) (readCont fuel line r') := by
  unfold readCont
  by_cases o : optimistic r.buf = true <;> by_cases o' : optimistic r'.buf = true
  · simp only [o, o', if_true]; exact ⟨rfl, h⟩
  · simp only [o, o', if_true, Bool.false_eq_true, if_false]
    have := contLoop_nospace fuel (trim line) r' (by rw [← h]; exact optimistic_nospace r o)
    exact ⟨this.1.symm, by rw [this.2]; exact h⟩
  · simp only [o, o', if_true, Bool.false_eq_true, if_false]
    have := contLoop_nospace fuel (trim line) r (by rw [h]; exact optimistic_nospace r' o')
    exact ⟨this.1, by rw [this.2]; exact h⟩
  · simp only [o, o', Bool.false_eq_true, if_false]
    exact contLoop_sim fuel _ r r' h

theorem hdrLoop_sim (fuel : Nat) (acc : Headers) (r r' : Rd) (h : r.flat = r'.flat) :
    RelO (hdrLoop fuel acc r) (hdrLoop fuel acc r') := by
  induction fuel generalizing acc r r' with
  | zero => simp [hdrLoop, RelO]
  | succ f ih =>
    have l1 : r.readLine.1 = r'.readLine.1 := by rw [readLine_fst, readLine_fst, h]
    have l2 : r.readLine.2.flat = r'.readLine.2.flat := by rw [readLine_snd, readLine_snd, h]
    simp only [hdrLoop]
    rcases e : r.readLine with ⟨o, r1⟩
    rcases e' : r'.readLine with ⟨o', r1'⟩
    rw [e, e'] at l1 l2
    simp only at l1 l2
    subst l1
    cases o with
    | none => simp [RelO]
    | some line =>
      simp only
      by_cases he : line.isEmpty = true
      · simp only [he, if_true]; exact ⟨rfl, l2⟩
      · simp only [he, Bool.false_eq_true, if_false]
        by_cases hc : (!line.contains 58) = true
        · simp only [hc, if_true]; simp [RelO]
        · simp only [hc, Bool.false_eq_true, if_false]
          have rc := readCont_sim f line r1 r1' l2
          rw [← rc.1]
          cases hk : cutHeader (readCont f line r1).1 with
          | none => simp [RelO]
          | some kvp => exact ih _ _ _ rc.2

theorem readMIME_sim (fuel : Nat) (r r' : Rd) (h : r.flat = r'.flat) :
    RelO (readMIME fuel r) (readMIME fuel r') := by
  simp only [readMIME]
  have hf : r.ensure.flat = r'.ensure.flat := by rw [ensure_flat, ensure_flat, h]
  have hh : r.ensure.buf.head? = r'.ensure.buf.head? := by rw [ensure_head, ensure_head, h]
  have key := hdrLoop_sim fuel [] r.ensure r'.ensure hf
  cases hb : r.ensure.buf with
  | nil =>
    cases hb' : r'.ensure.buf with
    | nil => exact key
    | cons c t => rw [hb, hb'] at hh; simp at hh
  | cons c t =>
    cases hb' : r'.ensure.buf with
    | nil => rw [hb, hb'] at hh; simp at hh
    | cons c' t' =>
      rw [hb, hb'] at hh
      have : c = c' := by simpa using hh
      subst this
      simp only
      by_cases hs : isSpTab c = true
      · simp only [hs, if_true]; trivial
      · simp only [hs, Bool.false_eq_true, if_false]; exact key

/-- agreement of two `readHeader` results -/
def RelH : Option (B × Headers × Rd) → Option (B × Headers × Rd) → Prop
  | none, none => True
  | some (l, h, r), some (l', h', r') => l = l' ∧ h = h' ∧ r.flat = r'.flat
  | _, _ => False

theorem readHeader_sim (fuel : Nat) (r r' : Rd) (h : r.flat = r'.flat) :
    RelH (readHeader fuel r) (readHeader fuel r') := by
  have l1 : r.readLine.1 = r'.readLine.1 := by rw [readLine_fst, readLine_fst, h]
  have l2 : r.readLine.2.flat = r'.readLine.2.flat := by rw [readLine_snd, readLine_snd, h]
  unfold readHeader
  rcases e : r.readLine with ⟨o, r1⟩
  rcases e' : r'.readLine with ⟨o', r1'⟩
  rw [e, e'] at l1 l2
  simp only at l1 l2
  subst l1
  cases o with
  | none => simp [RelH]
  | some l =>
    simp only
    have m := readMIME_sim fuel r1 r1' l2
    cases hm : readMIME fuel r1 with
    | none =>
      cases hm' : readMIME fuel r1' with
      | none => simp [RelH]
      | some y => rw [hm, hm'] at m; exact m.elim
    | some x =>
      cases hm' : readMIME fuel r1' with
      | none => rw [hm, hm'] at m; exact m.elim
      | some y =>
        rw [hm, hm'] at m
        obtain ⟨hx, rx⟩ := x
        obtain ⟨hy, ry⟩ := y
        exact ⟨rfl, m.1, m.2⟩

/-- agreement of two parser results -/
def RelParsed {α : Type} : Parsed (α × Rd) → Parsed (α × Rd) → Prop
  | .ok x, .ok y => RelP x y
  | .err, .err => True
  | .panic, .panic => True
  | _, _ => False

theorem readRequest_sim (fuel : Nat) (r r' : Rd) (h : r.flat = r'.flat) :
    RelParsed (readRequest fuel r) (readRequest fuel r') := by
  have m := readHeader_sim fuel r r' h
  unfold readRequest
  cases hm : readHeader fuel r with
  | none =>
    cases hm' : readHeader fuel r' with
    | none => simp [RelParsed]
    | some y => rw [hm, hm'] at m; obtain ⟨a, b, c⟩ := y; exact m.elim
  | some x =>
    obtain ⟨l, hd, r1⟩ := x
    cases hm' : readHeader fuel r' with
    | none => rw [hm, hm'] at m; exact m.elim
    | some y =>
      obtain ⟨l', hd', r1'⟩ := y
      rw [hm, hm'] at m
      obtain ⟨e1, e2, e3⟩ := m
      subst e1; subst e2
      simp only
      cases parseRequestLine l with
      | ok t => obtain ⟨a, b, c⟩ := t; exact ⟨rfl, e3⟩
      | err => trivial
      | panic => trivial

theorem readResponse_sim (fuel : Nat) (r r' : Rd) (h : r.flat = r'.flat) :
    RelParsed (readResponse fuel r) (readResponse fuel r') := by
  have m := readHeader_sim fuel r r' h
  unfold readResponse
  cases hm : readHeader fuel r with
  | none =>
    cases hm' : readHeader fuel r' with
    | none => simp [RelParsed]
    | some y => rw [hm, hm'] at m; obtain ⟨a, b, c⟩ := y; exact m.elim
  | some x =>
    obtain ⟨l, hd, r1⟩ := x
    cases hm' : readHeader fuel r' with
    | none => rw [hm, hm'] at m; exact m.elim
    | some y =>
      obtain ⟨l', hd', r1'⟩ := y
      rw [hm, hm'] at m
      obtain ⟨e1, e2, e3⟩ := m
      subst e1; subst e2
      simp only
      cases parseResponseLine l with
      | ok t => obtain ⟨a, b, c⟩ := t; exact ⟨rfl, e3⟩
      | err => trivial
      | panic => trivial

/-! ### Go slice expressions of the line parsers are always in range -/

theorem takeWhile_ne_length_lt (l : B) (c : Nat) (h : c ∈ l) : (l.takeWhile (· != c)).length < l.length := by
  induction l with
  | nil => cases h
  | cons y ys ih =>
    by_cases hy : y = c
    · subst hy; simp
    · have hm : c ∈ ys := by
        rcases List.mem_cons.mp h with rfl | h'
        · exact absurd rfl hy
        · exact h'
      have : (y != c) = true := by simpa using hy
      have e : (y :: ys).takeWhile (· != c) = y :: ys.takeWhile (· != c) :=
        List.takeWhile_cons_of_pos (p := (· != c)) this
      rw [e]
      simp only [List.length_cons]
      have := ih hm
      omega

theorem goIndex_bounds (l : B) (c : Nat) : -1 ≤ goIndex l c ∧ goIndex l c < (l.length : Int) := by
  unfold goIndex
  by_cases h : l.contains c = true
  · simp only [h, if_true]
    have := takeWhile_ne_length_lt l c (by simpa using h)
    omega
  · simp only [h, Bool.false_eq_true, if_false]; omega

theorem goSlice_some {l : B} {lo hi : Int} (h : 0 ≤ lo ∧ lo ≤ hi ∧ hi ≤ (l.length : Int)) :
    goSlice l lo hi = some ((l.drop lo.toNat).take (hi.toNat - lo.toNat)) := by
  simp [goSlice, h]

theorem goSliceFrom_some {l : B} {lo : Int} (h : 0 ≤ lo ∧ lo ≤ (l.length : Int)) :
    goSliceFrom l lo = some (l.drop lo.toNat) := by
  unfold goSliceFrom
  rw [goSlice_some ⟨h.1, h.2, Int.le_refl _⟩]
  congr 1
  apply List.take_of_length_le
  simp only [List.length_drop, Int.toNat_natCast]
  omega

theorem parseRequestLine_ne_panic (line : B) : parseRequestLine line ≠ .panic := by
  simp only [parseRequestLine]
  obtain ⟨a1, a2⟩ := goIndex_bounds line 32
  generalize goIndex line 32 = s1 at *
  rw [goSliceFrom_some (l := line) ⟨by omega, by omega⟩]
  simp only
  have hlen : ((line.drop (s1 + 1).toNat).length : Int) = line.length - (s1 + 1) := by
    simp only [List.length_drop]; omega
  obtain ⟨b1, b2⟩ := goIndex_bounds (line.drop (s1 + 1).toNat) 32
  generalize goIndex (line.drop (s1 + 1).toNat) 32 = s2 at *
  by_cases he : s1 < 0 ∨ s2 < 0
  · simp [he]
  · simp only [he, if_false]
    rw [goSlice_some (l := line) ⟨by omega, by omega, by omega⟩,
      goSlice_some (l := line) ⟨by omega, by omega, by omega⟩,
      goSliceFrom_some (l := line) ⟨by omega, by omega⟩]
    simp

theorem parseResponseLine_ne_panic (line : B) : parseResponseLine line ≠ .panic := by
  simp only [parseResponseLine]
  obtain ⟨a1, a2⟩ := goIndex_bounds line 32
  generalize goIndex line 32 = s1 at *
  rw [goSliceFrom_some (l := line) ⟨by omega, by omega⟩]
  simp only
  have hlen : ((line.drop (s1 + 1).toNat).length : Int) = line.length - (s1 + 1) := by
    simp only [List.length_drop]; omega
  obtain ⟨b1, b2⟩ := goIndex_bounds (line.drop (s1 + 1).toNat) 32
  generalize goIndex (line.drop (s1 + 1).toNat) 32 = s2 at *
  by_cases he : s1 < 0 ∨ s2 < 0
  · simp [he]
  · simp only [he, if_false]
    rw [goSlice_some (l := line) ⟨by omega, by omega, by omega⟩]
    simp only
    cases parseInt32 _ with
    | none => simp
    | some sc =>
      simp only
      rw [goSlice_some (l := line) ⟨by omega, by omega, by omega⟩,
        goSliceFrom_some (l := line) ⟨by omega, by omega⟩]
      simp

theorem readRequest_ne_panic (fuel : Nat) (r : Rd) : readRequest fuel r ≠ .panic := by
  unfold readRequest
  cases readHeader fuel r with
  | none => simp
  | some x =>
    obtain ⟨l, h, r'⟩ := x
    simp only
    have := parseRequestLine_ne_panic l
    cases hp : parseRequestLine l with
    | ok t => obtain ⟨a, b, c⟩ := t; simp
    | err => simp
    | panic => exact absurd hp this

theorem readResponse_ne_panic (fuel : Nat) (r : Rd) : readResponse fuel r ≠ .panic := by
  unfold readResponse
  cases readHeader fuel r with
  | none => simp
  | some x =>
    obtain ⟨l, h, r'⟩ := x
    simp only
    have := parseResponseLine_ne_panic l
    cases hp : parseResponseLine l with
    | ok t => obtain ⟨a, b, c⟩ := t; simp
    | err => simp
    | panic => exact absurd hp this

/-! ### shape of a successfully parsed request line -/

theorem split_at_first (c : Nat) (l : B) (h : c ∈ l) :
    l = l.takeWhile (· != c) ++ c :: l.drop ((l.takeWhile (· != c)).length + 1) := by
  induction l with
  | nil => cases h
  | cons y ys ih =>
    by_cases hy : y = c
    · subst hy
      have : (y :: ys).takeWhile (· != y) = [] := List.takeWhile_cons_of_neg (p := (· != y)) (by simp)
      rw [this]; simp
    · have hm : c ∈ ys := by
        rcases List.mem_cons.mp h with rfl | h'
        · exact absurd rfl hy
        · exact h'
      have hp : (y != c) = true := by simpa using hy
      have e : (y :: ys).takeWhile (· != c) = y :: ys.takeWhile (· != c) :=
        List.takeWhile_cons_of_pos (p := (· != c)) hp
      rw [e]
      simp only [List.length_cons, List.drop_succ_cons, List.cons_append]
      congr 1
      exact ih hm

theorem not_mem_takeWhile_ne (c : Nat) (l : B) : c ∉ l.takeWhile (· != c) := by
  induction l with
  | nil => simp
  | cons y ys ih =>
    by_cases hy : y = c
    · subst hy
      have : (y :: ys).takeWhile (· != y) = [] := List.takeWhile_cons_of_neg (p := (· != y)) (by simp)
      rw [this]; simp
    · have hp : (y != c) = true := by simpa using hy
      have e : (y :: ys).takeWhile (· != c) = y :: ys.takeWhile (· != c) :=
        List.takeWhile_cons_of_pos (p := (· != c)) hp
      rw [e]
      intro h
      rcases List.mem_cons.mp h with rfl | h'
      · exact hy rfl
      · exact ih h'

theorem goIndex_nonneg {l : B} {c : Nat} (h : ¬ goIndex l c < 0) :
    c ∈ l ∧ goIndex l c = ((l.takeWhile (· != c)).length : Int) := by
  unfold goIndex at *
  by_cases hc : l.contains c = true
  · simp only [hc, if_true]; exact ⟨by simpa using hc, trivial⟩
  · simp only [hc, Bool.false_eq_true, if_false] at h; omega

theorem parseRequestLine_ok {line m u p : B} (h : parseRequestLine line = .ok (m, u, p)) :
    line = m ++ [32] ++ u ++ [32] ++ p ∧ 32 ∉ m ∧ 32 ∉ u := by
  simp only [parseRequestLine] at h
  obtain ⟨a1, a2⟩ := goIndex_bounds line 32
  rw [goSliceFrom_some (l := line) ⟨by omega, by omega⟩] at h
  simp only at h
  obtain ⟨b1, b2⟩ := goIndex_bounds (line.drop (goIndex line 32 + 1).toNat) 32
  have hlen : ((line.drop (goIndex line 32 + 1).toNat).length : Int) = line.length - (goIndex line 32 + 1) := by
    simp only [List.length_drop]; omega
  by_cases he : goIndex line 32 < 0 ∨ goIndex (line.drop (goIndex line 32 + 1).toNat) 32 < 0
  · simp [he] at h
  · simp only [he, if_false] at h
    have he' := not_or.mp he
    obtain ⟨m1, e1⟩ := goIndex_nonneg he'.1
    rw [e1] at h he' hlen b2
    have t1 : ((((line.takeWhile (· != 32)).length : Nat) : Int) + 1).toNat = (line.takeWhile (· != 32)).length + 1 := by omega
    rw [t1] at h he' hlen b2
    obtain ⟨m2, e2⟩ := goIndex_nonneg he'.2
    rw [e2] at h b2
    generalize hn1 : (line.takeWhile (· != 32)).length = n1 at *
    generalize hn2 : ((line.drop (n1 + 1)).takeWhile (· != 32)).length = n2 at *
    rw [goSlice_some (l := line) ⟨by omega, by omega, by omega⟩,
      goSlice_some (l := line) ⟨by omega, by omega, by omega⟩,
      goSliceFrom_some (l := line) ⟨by omega, by omega⟩] at h
    simp only [Parsed.ok.injEq, Prod.mk.injEq] at h
    obtain ⟨hm, hu, hp⟩ := h
    have s1 := split_at_first 32 line m1
    have s2 := split_at_first 32 (line.drop (n1 + 1)) m2
    rw [hn1] at s1
    rw [hn2] at s2
    have q1 : (0 : Int).toNat = 0 := rfl
    have q2 : ((n1 : Int)).toNat - 0 = n1 := by omega
    have q3 : ((n2 : Int) + (n1 : Int) + 1).toNat - ((n1 : Int) + 1).toNat = n2 := by omega
    have q4 : ((n1 : Int) + 1).toNat = n1 + 1 := by omega
    have q5 : ((n2 : Int) + (n1 : Int) + 1 + 1).toNat = (n1 + 1) + (n2 + 1) := by omega
    rw [q1, q2, List.drop_zero] at hm
    rw [q3, q4] at hu
    rw [q5, ← List.drop_drop] at hp
    have hm' : m = line.takeWhile (· != 32) := by
      rw [← hm]
      conv => lhs; rw [s1]
      rw [List.take_left' hn1]
    have hu' : u = (line.drop (n1 + 1)).takeWhile (· != 32) := by
      rw [← hu]
      conv => lhs; rw [s2]
      rw [List.take_left' hn2]
    refine ⟨?_, ?_, ?_⟩
    · have e : line = line.takeWhile (· != 32) ++ 32 ::
          ((line.drop (n1 + 1)).takeWhile (· != 32) ++ 32 :: (line.drop (n1 + 1)).drop (n2 + 1)) := by
        rw [← s2]; exact s1
      rw [hm', hu', ← hp]
      simpa [List.append_assoc] using e
    · rw [hm']; exact not_mem_takeWhile_ne 32 line
    · rw [hu']; exact not_mem_takeWhile_ne 32 _

end SA.Handshake

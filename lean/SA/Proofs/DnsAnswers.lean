/-
  SA.Proofs.DnsAnswers — lemmas about the exchange model with answer identities (SA.Model.DnsAnswers).
-/
import SA.Model.DnsAnswers
namespace SA.DnsAnswers

/-- the retry loop with no id rule above the communicator: `k < left` sends that the client sees as timeouts, then ANY
    answer — whatever send it answers — ends the loop with success after k+1 sends -/
theorem loopA_absorbs (p : P) (hr : p.ring = none) (ht : p.test = 1) (fs : List AFate) :
    ∀ (k left j : Nat) (o : Option Nat), k < left →
      (∀ i, i < k → sees p.filter fs (j + i) = .tmo) → sees p.filter fs (j + k) = .ans o →
      loopA p fs left j = (j + k + 1, .got o) := by
  intro k
  induction k with
  | zero =>
    intro left j o hl _ ha
    cases left with
    | zero => omega
    | succ l =>
      simp only [Nat.add_zero] at ha
      simp [loopA, ha, accepts, hr]
  | succ k ih =>
    intro left j o hl hloss ha
    cases left with
    | zero => omega
    | succ l =>
      have h0 : sees p.filter fs j = .tmo := by simpa using hloss 0 (by omega)
      have hl' : l ≠ 0 := by omega
      have := ih l (j + 1) o (by omega)
        (fun i hi => by have := hloss (i + 1) (by omega); simpa [Nat.add_assoc, Nat.add_comm 1 i] using this)
        (by simpa [Nat.add_assoc, Nat.add_comm 1 k] using ha)
      simp only [loopA, h0, ht, hl', if_true, if_false, this]
      congr 1
      omega

theorem find_range_some {q : Nat → Bool} {j i : Nat} (h : (List.range j).find? q = some i) : i < j ∧ q i = true := by
  have h1 := List.find?_some h
  have h2 := List.mem_of_find?_eq_some h
  exact ⟨List.mem_range.mp h2, h1⟩

/-- a delivered answer is the answer to a send whose query the server has handled: to this one, or to an earlier one -/
theorem ans_origin_handled (fs : List AFate) (j i : Nat) (h : sees false fs j = .ans (some i)) :
    i ≤ j ∧ (fateAt fs i).handled = true := by
  unfold sees at h
  simp only [Bool.false_eq_true, if_false] at h
  cases hd : dueFrom fs j with
  | some i' =>
    have hf : i' < j ∧ dueAt fs i' j = true := find_range_some (q := fun i => dueAt fs i j) hd
    have hi : i' = i := by
      cases hfj : fateAt fs j <;> simp_all
    subst hi
    refine ⟨by omega, ?_⟩
    have := hf.2
    unfold dueAt at this
    cases hfi : fateAt fs i' <;> simp_all [AFate.handled]
  | none =>
    cases hfj : fateAt fs j <;> simp_all [AFate.handled]

theorem ans_foreign_handled (fs : List AFate) (j : Nat) (h : sees false fs j = .ans none) :
    (fateAt fs j).handled = true := by
  unfold sees at h
  simp only [Bool.false_eq_true, if_false] at h
  cases hd : dueFrom fs j <;> cases hfj : fateAt fs j <;> simp_all [AFate.handled]

/-- through miekg's filter only the answer to the query just sent gets through -/
theorem ans_filtered (fs : List AFate) (j : Nat) (o : Option Nat) (h : sees true fs j = .ans o) :
    o = some j ∧ (fateAt fs j).handled = true := by
  unfold sees at h
  simp only [if_true] at h
  cases hfj : fateAt fs j <;> simp_all [AFate.handled]

theorem anyHandled_of (fs : List AFate) (j j' i : Nat) (h1 : j ≤ i) (h2 : i < j') (h : (fateAt fs i).handled = true) :
    anyHandled fs j j' = true := by
  unfold anyHandled
  rw [List.any_eq_true]
  exact ⟨i, by rw [List.mem_range']; exact ⟨i - j, by omega, by omega⟩, h⟩

end SA.DnsAnswers

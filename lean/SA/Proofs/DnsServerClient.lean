/-
  SA.Proofs.DnsServerClient — the client's answer decoder cannot panic (C12 client half).
-/
import SA.Model.DnsServerClient
import SA.Proofs.DnsServer

namespace SA.DnsClient
open SA.Go SA.Go.Res SA.DnsServer

theorem le16At_no_panic (d : List Nat) (h : 2 ≤ d.length) : ∃ n, le16At d = ok n := by
  unfold le16At
  rw [slice_ok (Nat.zero_le _) h]
  simp only [Res.bind_ok]
  have h2 : ((d.take 2).drop 0).length = 2 := by simp; omega
  rw [idx_ok (by omega), idx_ok (by omega)]
  exact ⟨_, rfl⟩

theorem typePriority_no_panic (rr : RR) : ∃ p, typePriority rr = ok p := by
  cases rr with
  | null d =>
    simp only [typePriority]
    by_cases h : d.length < 2
    · exact ⟨_, by rw [if_pos h]; rfl⟩
    · obtain ⟨n, hn⟩ := le16At_no_panic d (Nat.le_of_not_lt h)
      exact ⟨_, by rw [if_neg h, hn]; rfl⟩
  | priv d =>
    simp only [typePriority]
    by_cases h : d.length < 2
    · exact ⟨_, by rw [if_pos h]; rfl⟩
    · obtain ⟨n, hn⟩ := le16At_no_panic d (Nat.le_of_not_lt h)
      exact ⟨_, by rw [if_neg h, hn]; rfl⟩
  | txt ss =>
    simp only [typePriority]
    cases ss with
    | nil => exact ⟨90000, by simp⟩
    | cons s0 r =>
      simp only [List.length_cons, Nat.add_eq_zero, Nat.succ_ne_zero, and_false, ite_false]
      by_cases h : s0.length < 2
      · exact ⟨_, by rw [if_pos h]; rfl⟩
      · rw [if_neg h, idx_ok (by omega), idx_ok (by omega)]
        exact ⟨_, rfl⟩
  | mx p n => exact ⟨_, rfl⟩
  | srv p t => exact ⟨_, rfl⟩
  | cname t =>
    simp only [typePriority]
    by_cases h : t.length < 2
    · exact ⟨_, by rw [if_pos h]; rfl⟩
    · rw [if_neg h, idx_ok (by omega), idx_ok (by omega)]
      exact ⟨_, rfl⟩
  | aaaa d =>
    simp only [typePriority]
    by_cases h : d.length < 2
    · exact ⟨_, by rw [if_pos h]; rfl⟩
    · obtain ⟨n, hn⟩ := le16At_no_panic d (Nat.le_of_not_lt h)
      exact ⟨_, by rw [if_neg h, hn]; rfl⟩
  | a d =>
    simp only [typePriority]
    by_cases h : d.length < 1
    · exact ⟨_, by rw [if_pos h]; rfl⟩
    · rw [if_neg h, idx_ok (by omega)]
      exact ⟨_, rfl⟩
  | other => exact ⟨_, rfl⟩

theorem mapRes_no_panic {α β : Type} (f : α → Res β) (hf : ∀ x, ∃ y, f x = ok y) : ∀ xs : List α, ∃ ys, mapRes f xs = ok ys
  | [] => ⟨[], rfl⟩
  | x :: xs => by
    obtain ⟨y, hy⟩ := hf x
    obtain ⟨ys, hys⟩ := mapRes_no_panic f hf xs
    exact ⟨y :: ys, by simp [mapRes, hy, hys]⟩

theorem recordData_no_panic (dl : Nat) (rr : RR) : ∃ d, recordData dl rr = ok d := by
  cases rr with
  | null d => simp only [recordData]; split
              · next h => rw [sliceFrom_ok h]; exact ⟨_, rfl⟩
              · exact ⟨_, rfl⟩
  | priv d => simp only [recordData]; split
              · next h => rw [sliceFrom_ok h]; exact ⟨_, rfl⟩
              · exact ⟨_, rfl⟩
  | txt ss => simp only [recordData]; split
              · next h => rw [sliceFrom_ok h]; exact ⟨_, rfl⟩
              · exact ⟨_, rfl⟩
  | mx p n => simp only [recordData]; split
              · rw [slice_ok (Nat.zero_le _) (by omega)]; exact ⟨_, rfl⟩
              · exact ⟨_, rfl⟩
  | srv p t => simp only [recordData]; split
               · rw [slice_ok (Nat.zero_le _) (by omega)]; exact ⟨_, rfl⟩
               · exact ⟨_, rfl⟩
  | cname t =>
    simp only [recordData]; split
    · next h =>
      rw [sliceFrom_ok (by omega)]
      simp only [Res.bind_ok]
      rw [slice_ok (Nat.zero_le _) (by omega)]; exact ⟨_, rfl⟩
    · exact ⟨_, rfl⟩
  | aaaa d => simp only [recordData]; split
              · next h => rw [sliceFrom_ok h]; exact ⟨_, rfl⟩
              · exact ⟨_, rfl⟩
  | a d => simp only [recordData]; split
           · next h => rw [sliceFrom_ok h]; exact ⟨_, rfl⟩
           · exact ⟨_, rfl⟩
  | other => exact ⟨_, rfl⟩

theorem unwrap_no_panic (dl : Nat) (rrs : List RR) : ∃ d, unwrap dl rrs = ok d := by
  unfold unwrap
  by_cases h : rrs.length < 2
  · obtain ⟨parts, hp⟩ := mapRes_no_panic (recordData dl) (recordData_no_panic dl) rrs
    exact ⟨parts.flatten, by simp [h, hp]⟩
  · obtain ⟨ps, hps⟩ := mapRes_no_panic typePriority typePriority_no_panic rrs
    obtain ⟨parts, hp⟩ := mapRes_no_panic (recordData dl) (recordData_no_panic dl) ((sortByPrio (ps.zip rrs)).map (·.2))
    exact ⟨parts.flatten, by simp [h, hps, hp]⟩

theorem decodeResponse_no_panic (cd : Codec) (hT : cd.Total) (code down : Nat) (data : List Nat) : ∃ r, decodeResponse cd code down data = ok r := by
  unfold decodeResponse
  simp only [Codec.decode_total hT, Res.bind_ok]
  by_cases h0 : data.length = 0
  · exact ⟨none, by simp [h0]⟩
  · have h1 : 1 ≤ data.length := Nat.pos_of_ne_zero h0
    simp only [h0, ite_false]
    rw [sliceFrom_ok h1]
    simp only [Res.bind_ok]
    by_cases c1 : code = 118
    · simp only [c1, ite_true]
      by_cases hb : (data.drop 1).length < 2
      · exact ⟨none, by rw [if_pos hb]; rfl⟩
      · have hb' : 2 ≤ (data.drop 1).length := Nat.le_of_not_lt hb
        rw [if_neg hb, slice_ok (Nat.zero_le _) hb']
        simp only [Res.bind_ok]
        cases parseInt36 (List.drop 0 (List.take 2 (List.drop 1 data))) with
        | none => exact ⟨none, rfl⟩
        | some uid => rw [sliceFrom_ok hb']; exact ⟨_, rfl⟩
    · simp only [c1, ite_false]
      by_cases c2 : code = 101
      · simp only [c2, ite_true]; exact ⟨_, rfl⟩
      · simp only [c2, ite_false]
        by_cases c3 : code = 111
        · simp only [c3, ite_true]; exact ⟨_, rfl⟩
        · simp only [c3, ite_false]
          by_cases c4 : code = 122
          · simp only [c4, ite_true]; exact ⟨_, rfl⟩
          · simp only [c4, ite_false]
            by_cases c5 : code = 121
            · simp only [c5, ite_true]
              by_cases hl : data.length > 1
              · rw [if_pos hl, idx_ok hl, sliceFrom_ok (by omega)]
                simp only [Res.bind_ok]
                split
                · exact ⟨_, rfl⟩
                · split <;> exact ⟨_, rfl⟩
              · rw [if_neg hl]; exact ⟨_, rfl⟩
            · simp only [c5, ite_false]
              by_cases c6 : code = 114
              · simp only [c6, ite_true]; exact ⟨_, rfl⟩
              · simp only [c6, ite_false]
                by_cases c7 : code = 99
                · simp only [c7, ite_true]; exact ⟨_, rfl⟩
                · simp only [c7, ite_false]; exact ⟨_, rfl⟩

theorem decodeAnswer_no_panic (cd : Codec) (hT : cd.Total) (dl down : Nat) (rrs : List RR) : ∃ r, decodeAnswer cd dl down rrs = ok r := by
  unfold decodeAnswer
  obtain ⟨data, hd⟩ := unwrap_no_panic dl rrs
  rw [hd]
  simp only [Res.bind_ok]
  by_cases h0 : data.length = 0
  · exact ⟨none, by rw [if_pos h0]; rfl⟩
  · rw [if_neg h0]
    obtain ⟨c, hc⟩ := findCmd_no_panic SA.Gen.commandTable data
    rw [hc]
    simp only [Res.bind_ok]
    cases c with
    | none => exact ⟨none, rfl⟩
    | some c =>
      obtain ⟨code, nu, hq, hr⟩ := c
      cases hr with
      | false => exact ⟨none, rfl⟩
      | true =>
        obtain ⟨r, hr⟩ := decodeResponse_no_panic cd hT code down data
        exact ⟨r, by simp [callField, hr]⟩

end SA.DnsClient

/-
  SA.Proofs.HandshakeWire — the wire format of a handshake message and the proof that the model's
  textproto reader (`readHeader`) reads every well-formed message back.

  A message on the wire is `first line CRLF (name ":" raw-value CRLF)* CRLF`.  Go's
  `(*Request).String` / `(*Response).String` (prepareFirstLine + http.Header.Write) produce the instance
  where every raw value is `" " ++ value` (`renderHeaders`).

  "Well-formed header" (`wfHeader`) is the decidable predicate
    * name: non-empty, every byte a token byte (`validHeaderFieldByte`) or a space, first byte not a space;
    * raw value: every byte a `validHeaderValueByte` (HTAB, SP, 0x21–0x7e, ≥ 0x80 — hence no CR / LF / NUL / DEL).
  Such a line is read back as `(canonicalMIMEHeaderKey name, trim raw)`.
-/
import SA.Proofs.Handshake
namespace SA.Handshake

/-! ### the wire format -/

/-- one header line: `name ":" raw CRLF` -/
def wireHeader (kv : B × B) : B := kv.1 ++ 58 :: (kv.2 ++ [13, 10])
def wireBlock (hs : Headers) : B := (hs.map wireHeader).flatten
/-- first line, header lines, blank line -/
def wireMessage (line : B) (hs : Headers) : B := line ++ 13 :: 10 :: (wireBlock hs ++ [13, 10])

/-- http.Header.Write: `name ": " value CRLF` -/
def renderHeaders (hs : Headers) : Headers := hs.map fun kv => (kv.1, 32 :: kv.2)

/-- a request on the wire: `method SP url SP proto CRLF`, header lines `name ":" raw CRLF`, blank line -/
def wireRequest (m u p : B) (ws : Headers) : B := wireMessage (m ++ [32] ++ u ++ [32] ++ p) ws
/-- a response on the wire: `proto SP code SP text CRLF`, header lines, blank line -/
def wireResponse (proto code text : B) (ws : Headers) : B := wireMessage (proto ++ [32] ++ code ++ [32] ++ text) ws

/-- (*Request).String for a request with all three first-line fields set and the headers `hs` in the order written -/
def renderRequest (m u p : B) (hs : Headers) : B := wireRequest m u p (renderHeaders hs)

/-- (*Response).String: `proto SP status` where `status` is `code SP text` -/
def renderResponse (proto code text : B) (hs : Headers) : B := wireResponse proto code text (renderHeaders hs)

/-! ### well-formedness (decidable) -/

def wfName (k : B) : Bool :=
  !k.isEmpty && k.all (fun c => validFieldByte c || c == 32) && !(k.head? == some 32)
def wfValue (v : B) : Bool := v.all validValueByte
def wfHeader (kv : B × B) : Bool := wfName kv.1 && wfValue kv.2
def wfHeaders (hs : Headers) : Bool := hs.all wfHeader

/-- textproto.CanonicalMIMEHeaderKey of a well-formed name -/
def canonName (k : B) : B := (canonKey k).getD []
/-- what ReadMIMEHeader stores for a well-formed line -/
def parsedHeader (kv : B × B) : B × B := (canonName kv.1, trim kv.2)
def parsedHeaders (hs : Headers) : Headers := hs.map parsedHeader

/-! ### trim lemmas -/

theorem trimRight_cons (c : Nat) (l : B) :
    trimRight (c :: l) = if (trimRight l).isEmpty && isSpTab c then [] else c :: trimRight l := by
  unfold trimRight
  rw [List.reverse_cons, List.dropWhile_append]
  by_cases h : (l.reverse.dropWhile isSpTab).isEmpty = true
  · have h' : l.reverse.dropWhile isSpTab = [] := by simpa using h
    rw [h']
    by_cases hc : isSpTab c = true
    · simp [hc]
    · simp [hc]
  · have h' : l.reverse.dropWhile isSpTab ≠ [] := by simpa using h
    simp [h']

theorem trimRight_nil : trimRight [] = [] := rfl

theorem trimRight_append_cons (a b : B) (c : Nat) (hc : isSpTab c = false) :
    trimRight (a ++ c :: b) = a ++ c :: trimRight b := by
  induction a with
  | nil => rw [List.nil_append, trimRight_cons]; simp [hc]
  | cons x a ih => rw [List.cons_append, trimRight_cons, ih]; simp

theorem trimLeft_trimRight_comm (v : B) : trimLeft (trimRight v) = trimRight (trimLeft v) := by
  induction v with
  | nil => rfl
  | cons c l ih =>
    by_cases hc : isSpTab c = true
    · have e1 : trimLeft (c :: l) = trimLeft l := by
        unfold trimLeft; exact List.dropWhile_cons_of_pos hc
      rw [e1, ← ih, trimRight_cons]
      by_cases he : (trimRight l).isEmpty = true
      · have he' : trimRight l = [] := by simpa using he
        simp [hc, he', trimLeft]
      · simp only [he, Bool.false_and, Bool.false_eq_true, if_false]
        unfold trimLeft; exact List.dropWhile_cons_of_pos hc
    · have e1 : trimLeft (c :: l) = c :: l := by
        unfold trimLeft; exact List.dropWhile_cons_of_neg hc
      have hc' : isSpTab c = false := by simpa using hc
      rw [e1, trimRight_cons]
      simp only [hc', Bool.and_false, Bool.false_eq_true, if_false]
      unfold trimLeft; exact List.dropWhile_cons_of_neg hc

theorem trim_eq (v : B) : trim v = trimLeft (trimRight v) := (trimLeft_trimRight_comm v).symm

theorem trim_space_cons (v : B) : trim (32 :: v) = trim v := by
  unfold trim
  have : trimLeft (32 :: v) = trimLeft v := by
    unfold trimLeft; exact List.dropWhile_cons_of_pos (by decide)
  rw [this]

theorem mem_trimRight {x : Nat} {l : B} (h : x ∈ trimRight l) : x ∈ l := by
  unfold trimRight at h
  have h1 : x ∈ l.reverse.dropWhile isSpTab := List.mem_reverse.mp h
  exact List.mem_reverse.mp ((List.dropWhile_sublist _).subset h1)

/-! ### names -/

theorem wfName_spec {k : B} (h : wfName k = true) :
    (∃ c t, k = c :: t ∧ isSpTab c = false) ∧ (∀ x ∈ k, validFieldByte x = true ∨ x = 32) ∧
      canonKey k = some (canonName k) := by
  simp only [wfName, Bool.and_eq_true, Bool.not_eq_true', List.all_eq_true, Bool.or_eq_true, beq_iff_eq] at h
  obtain ⟨⟨h1, h2⟩, h3⟩ := h
  have hall : ∀ x ∈ k, validFieldByte x = true ∨ x = 32 := h2
  refine ⟨?_, hall, ?_⟩
  · cases k with
    | nil => simp at h1
    | cons c t =>
      refine ⟨c, t, rfl, ?_⟩
      have hc32 : c ≠ 32 := by simpa using h3
      rcases hall c (by simp) with hv | hv
      · by_cases h9 : c = 9
        · subst h9; revert hv; decide
        · simp [isSpTab, hc32, h9]
      · exact absurd hv hc32
  · have e1 : k.isEmpty = false := h1
    have e2 : (k.all fun c => validFieldByte c || c == 32) = true := by
      simp only [List.all_eq_true, Bool.or_eq_true, beq_iff_eq]; exact hall
    unfold canonName canonKey
    simp only [e1, e2, Bool.false_eq_true, if_false, Bool.not_true]
    split <;> rfl

theorem wfName_no (k : B) (h : wfName k = true) (c : Nat) (hc : validFieldByte c = false) (hc' : c ≠ 32) : c ∉ k := by
  intro hm
  rcases (wfName_spec h).2.1 c hm with hv | hv
  · rw [hc] at hv; cases hv
  · exact hc' hv

theorem wfValue_no (v : B) (h : wfValue v = true) (c : Nat) (hc : validValueByte c = false) : c ∉ v := by
  intro hm
  have := (List.all_eq_true.mp h) c hm
  rw [hc] at this; cases this

/-! ### one header line -/

theorem cutHeader_wire (kv : B × B) (h : wfHeader kv = true) :
    cutHeader (trim (kv.1 ++ 58 :: kv.2)) = some (parsedHeader kv) := by
  obtain ⟨k, v⟩ := kv
  simp only [wfHeader, Bool.and_eq_true] at h
  obtain ⟨hk, hv⟩ := h
  obtain ⟨⟨c, t, ek, hc⟩, hall, hcan⟩ := wfName_spec hk
  have h58 : (58 : Nat) ∉ k := wfName_no k hk 58 (by decide) (by decide)
  -- trimLeft leaves the line alone, trimRight stops at the colon at the latest
  have tl : trimLeft (k ++ 58 :: v) = k ++ 58 :: v := by
    rw [ek]; unfold trimLeft; exact List.dropWhile_cons_of_neg (by simp [hc])
  have tr : trim (k ++ 58 :: v) = k ++ 58 :: trimRight v := by
    unfold trim; rw [tl]; exact trimRight_append_cons k v 58 (by decide)
  rw [tr]
  have hne : ∀ x ∈ k, (x != 58) = true := by
    intro x hx
    have : x ≠ 58 := fun e => h58 (e ▸ hx)
    simpa using this
  have tk : (k ++ 58 :: trimRight v).takeWhile (· != 58) = k := by
    rw [takeWhile_append_of_all _ hne, List.takeWhile_cons_of_neg (by simp)]; simp
  have dk : ((k ++ 58 :: trimRight v).dropWhile (· != 58)).drop 1 = trimRight v := by
    rw [dropWhile_append_of_all _ hne, List.dropWhile_cons_of_neg (by simp)]; rfl
  have hvv : (trimRight v).all validValueByte = true := by
    rw [List.all_eq_true]
    intro x hx
    exact (List.all_eq_true.mp hv) x (mem_trimRight hx)
  have hcont : (k ++ 58 :: trimRight v).contains 58 = true := by simp
  unfold cutHeader
  simp only [hcont, Bool.not_true, Bool.false_eq_true, if_false, tk, dk, hcan, hvv, if_true]
  simp [parsedHeader, trim_eq]

/-! ### reading lines from a fully buffered reader -/

theorem readLine_crlf (l rest : B) (h : 10 ∉ l) :
    Rd.readLine ⟨l ++ 13 :: 10 :: rest, []⟩ = (some l, ⟨rest, []⟩) := by
  have e : l ++ 13 :: 10 :: rest = (l ++ [13]) ++ 10 :: rest := by simp
  have hall : ∀ x ∈ l ++ [13], (x != 10) = true := by
    intro x hx
    rcases List.mem_append.mp hx with hx | hx
    · have : x ≠ 10 := fun e => h (e ▸ hx)
      simpa using this
    · have : x = 13 := by simpa using hx
      subst this; decide
  have hn : hasNL (l ++ 13 :: 10 :: rest) = true := by simp [hasNL]
  have hl : lineOf (l ++ 13 :: 10 :: rest) = l ++ [13] := by
    unfold lineOf
    rw [e, takeWhile_append_of_all _ hall, List.takeWhile_cons_of_neg (by simp)]; simp
  have ha : afterNL (l ++ 13 :: 10 :: rest) = rest := by
    unfold afterNL
    rw [e, dropWhile_append_of_all _ hall, List.dropWhile_cons_of_neg (by simp)]; rfl
  have hc : chompCR (l ++ [13]) = l := by
    unfold chompCR; simp
  unfold Rd.readLine
  simp only [readLineAux, hn, if_true, hl, ha, hc]

theorem readCont_nosp (f : Nat) (line : B) (c : Nat) (R : B) (hc : isSpTab c = false) :
    readCont f line ⟨c :: R, []⟩ = (trim line, ⟨c :: R, []⟩) := by
  unfold readCont
  by_cases o : optimistic (c :: R) = true
  · simp only [o, if_true]
  · simp only [o, Bool.false_eq_true, if_false]
    cases f with
    | zero => rfl
    | succ f =>
      have hs : Rd.skipSpace ⟨c :: R, []⟩ = (0, ⟨c :: R, []⟩) := by
        simp [Rd.skipSpace, skipAux, List.takeWhile, List.dropWhile, hc]
      simp only [contLoop, hs, if_true]

/-- a header block followed by the blank line starts with a byte that is not a space or a tab -/
theorem wireBlock_head (hs : Headers) (hw : wfHeaders hs = true) (rest : B) :
    ∃ c R, wireBlock hs ++ 13 :: 10 :: rest = c :: R ∧ isSpTab c = false := by
  cases hs with
  | nil => exact ⟨13, 10 :: rest, rfl, by decide⟩
  | cons kv hs =>
    have hkv : wfHeader kv = true := by
      simp only [wfHeaders, List.all_cons, Bool.and_eq_true] at hw; exact hw.1
    simp only [wfHeader, Bool.and_eq_true] at hkv
    obtain ⟨⟨c, t, ek, hc⟩, _, _⟩ := wfName_spec hkv.1
    refine ⟨c, t ++ 58 :: (kv.2 ++ [13, 10]) ++ ((hs.map wireHeader).flatten ++ 13 :: 10 :: rest), ?_, hc⟩
    simp [wireBlock, wireHeader, ek]

theorem hdrLoop_wire (hs : Headers) (hw : wfHeaders hs = true) (f : Nat) (hf : hs.length < f)
    (acc : Headers) (rest : B) :
    hdrLoop f acc ⟨wireBlock hs ++ 13 :: 10 :: rest, []⟩ = some (acc.reverse ++ parsedHeaders hs, ⟨rest, []⟩) := by
  induction hs generalizing f acc with
  | nil =>
    cases f with
    | zero => omega
    | succ f =>
      have := readLine_crlf [] rest (by simp)
      simp only [List.nil_append] at this
      simp [hdrLoop, wireBlock, this, parsedHeaders]
  | cons kv hs ih =>
    cases f with
    | zero => omega
    | succ f =>
      have hw' : wfHeader kv = true ∧ wfHeaders hs = true := by
        simpa [wfHeaders, List.all_cons, Bool.and_eq_true] using hw
      have hkv := hw'.1
      simp only [wfHeader, Bool.and_eq_true] at hkv
      have n10 : (10 : Nat) ∉ kv.1 ++ 58 :: kv.2 := by
        intro hm
        rcases List.mem_append.mp hm with hm | hm
        · exact wfName_no kv.1 hkv.1 10 (by decide) (by decide) hm
        · rcases List.mem_cons.mp hm with hm | hm
          · cases hm
          · exact wfValue_no kv.2 hkv.2 10 (by decide) hm
      have e : wireBlock (kv :: hs) ++ 13 :: 10 :: rest =
          (kv.1 ++ 58 :: kv.2) ++ 13 :: 10 :: (wireBlock hs ++ 13 :: 10 :: rest) := by
        simp [wireBlock, wireHeader]
      obtain ⟨c, R, eR, hc⟩ := wireBlock_head hs hw'.2 rest
      rw [e, hdrLoop, readLine_crlf _ _ n10]
      have hne : (kv.1 ++ 58 :: kv.2).isEmpty = false := by
        cases h : kv.1 <;> simp
      have hcol : (kv.1 ++ 58 :: kv.2).contains 58 = true := by simp
      simp only [hne, Bool.false_eq_true, if_false, hcol, Bool.not_true]
      rw [eR, readCont_nosp f _ c R hc]
      simp only [cutHeader_wire kv hw'.1]
      rw [← eR, ih hw'.2 f (by simp at hf; omega)]
      simp [parsedHeaders]

theorem readMIME_wire (hs : Headers) (hw : wfHeaders hs = true) (f : Nat) (hf : hs.length < f) (rest : B) :
    readMIME f ⟨wireBlock hs ++ 13 :: 10 :: rest, []⟩ = some (parsedHeaders hs, ⟨rest, []⟩) := by
  have := hdrLoop_wire hs hw f hf [] rest
  obtain ⟨c, R, eR, hc⟩ := wireBlock_head hs hw rest
  rw [eR] at this ⊢
  unfold readMIME
  simp only [Rd.ensure, ensureAux, hc, Bool.false_eq_true, if_false]
  simpa using this

theorem readHeader_wire (line : B) (hl : 10 ∉ line) (hs : Headers) (hw : wfHeaders hs = true)
    (f : Nat) (hf : hs.length < f) (rest : B) :
    readHeader f ⟨wireMessage line hs ++ rest, []⟩ = some (line, parsedHeaders hs, ⟨rest, []⟩) := by
  have e : wireMessage line hs ++ rest = line ++ 13 :: 10 :: (wireBlock hs ++ 13 :: 10 :: rest) := by
    simp [wireMessage]
  rw [e]
  unfold readHeader
  rw [readLine_crlf _ _ hl]
  simp only [readMIME_wire hs hw f hf rest]

/-! ### Go's rendering is an instance -/

theorem wfHeaders_render (hs : Headers) (h : wfHeaders hs = true) : wfHeaders (renderHeaders hs) = true := by
  simp only [wfHeaders, renderHeaders, List.all_map, List.all_eq_true] at h ⊢
  intro kv hkv
  have := h kv hkv
  simp only [wfHeader, Bool.and_eq_true, Function.comp] at this ⊢
  refine ⟨this.1, ?_⟩
  simp only [wfValue, List.all_cons, Bool.and_eq_true]
  exact ⟨by decide, this.2⟩

theorem parsedHeaders_render (hs : Headers) : parsedHeaders (renderHeaders hs) = parsedHeaders hs := by
  simp only [parsedHeaders, renderHeaders, List.map_map]
  apply List.map_congr_left
  intro kv _
  simp [parsedHeader, Function.comp, trim_space_cons]

theorem length_le_wireBlock (hs : Headers) : hs.length ≤ (wireBlock hs).length := by
  induction hs with
  | nil => simp
  | cons kv hs ih =>
    have : wireBlock (kv :: hs) = wireHeader kv ++ wireBlock hs := by simp [wireBlock]
    rw [this, List.length_append, List.length_cons]
    have : 1 ≤ (wireHeader kv).length := by simp [wireHeader]; omega
    omega

theorem length_lt_wireMessage (line : B) (hs : Headers) : hs.length < (wireMessage line hs).length := by
  have := length_le_wireBlock hs
  simp only [wireMessage, List.length_append, List.length_cons]
  omega

end SA.Handshake

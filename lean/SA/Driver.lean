/-
  SA.Driver — line-protocol driver.  One op per line on stdin (first token names the
  component), one canonical result line on stdout.  Core-only so that it links as `sa-model`.
-/
import SA.Base.Util
import SA.Model.Wrappers
namespace SA

def dispatch (line : String) : String :=
  match tokens line with
  | "wrap" :: rest => Wrappers.handle rest
  | [] => ""
  | _ => "bad-component"

partial def loop (hin : IO.FS.Stream) (hout : IO.FS.Stream) : IO Unit := do
  let line ← hin.getLine
  if line.isEmpty then return ()
  let l := if line.back == '\n' then line.dropRight 1 else line
  hout.putStrLn (dispatch l)
  loop hin hout

end SA

def main : IO Unit := do
  let hin ← IO.getStdin
  let hout ← IO.getStdout
  SA.loop hin hout

/-
  SA.Base.Util — small, core-only helpers shared by the models and the driver:
  hex coding of byte lists, token parsing.  No proofs here.
-/
namespace SA

/-- A byte string in the models is a `List Nat`; `Bytes bs` says every element is < 256. -/
def Bytes (bs : List Nat) : Prop := ∀ b ∈ bs, b < 256

instance (bs : List Nat) : Decidable (Bytes bs) := by unfold Bytes; infer_instance

def hexDigit (n : Nat) : Char :=
  if n < 10 then Char.ofNat (48 + n) else Char.ofNat (87 + n)

def hexOfByte (b : Nat) : List Char := [hexDigit (b / 16 % 16), hexDigit (b % 16)]

/-- hex rendering of a byte list; the empty list renders as "-" so that it stays one token -/
def toHex (bs : List Nat) : String :=
  if bs.isEmpty then "-" else String.ofList (bs.flatMap hexOfByte)

def hexVal (c : Char) : Option Nat :=
  let n := c.toNat
  if 48 ≤ n ∧ n ≤ 57 then some (n - 48)
  else if 97 ≤ n ∧ n ≤ 102 then some (n - 87)
  else if 65 ≤ n ∧ n ≤ 70 then some (n - 55)
  else none

def fromHexChars : List Char → Option (List Nat)
  | [] => some []
  | [_] => none
  | a :: b :: rest => do
    let x ← hexVal a
    let y ← hexVal b
    let r ← fromHexChars rest
    pure ((x * 16 + y) :: r)

def fromHex (s : String) : Option (List Nat) :=
  if s = "-" then some [] else fromHexChars s.toList

/-- split on single spaces, dropping empty tokens -/
def tokens (s : String) : List String :=
  (s.splitOn " ").filter (fun t => t ≠ "")

def boolStr (b : Bool) : String := if b then "true" else "false"

def natList (xs : List Nat) : String :=
  ",".intercalate (xs.map toString)

end SA

import SA.Base.Util
import SA.Model.Wrappers
import SA.Proofs.Wrappers

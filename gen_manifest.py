#!/usr/bin/env python3
"""Regenerates MANIFEST.json from checks/props.py (claimed properties) + properties.jsonl."""
import json, sys, os
sys.path.insert(0, os.path.join(os.path.dirname(os.path.abspath(__file__)), "checks"))
import props
ids = [json.loads(l)["id"] for l in open("properties.jsonl")]
checks = []
na = []
for pid in ids:
    cfg = props.PROPS.get(pid)
    if cfg is None or cfg.get("unclaimed"):
        na.append({"property_id": pid, "reason": (cfg or {}).get("unclaimed", "check not built yet in this session (work in progress; the technique applies, see DESIGN.md §5)")})
        continue
    checks.append({
        "property_id": pid,
        "quick_cmd": "./check %s --tier quick" % pid,
        "thorough_cmd": "./check %s --tier thorough" % pid,
        "evidence_file": "evidence/%s.json" % pid,
        "replay_cmd_template": "./check %s --replay {path}" % pid,
        "engine": "lean-model",
        "level_claimed": {"category": "proof", "text": cfg.get("level_text", ""), "design_ref": "DESIGN.md §5 " + pid},
        "level_note": cfg.get("level_note", ""),
        "technique": cfg.get("technique", "Lean 4 theorems over an executable model + differential correspondence with the Go code"),
    })
m = {
    "version": 1,
    "setup_cmd": "./setup.sh",
    "hooks": {
        "guard": "verif",
        "enable": "cd /repo && go build -tags verif -overlay /verif/.build/overlay.json ./internal/zzverif/harness/ (overlay maps /verif/go/harness and /verif/go/export files into the module at build time; no file is added to /repo)",
        "baseline_off_cmd": "cd /repo && go build ./... && go test -mod=mod -json -vet=off -count=1 -timeout 25m ./...",
        "source_commits": [],
        "add_only": True,
    },
    "engines": [
        {"name": "lean-model", "path": "lean", "serves_properties": [c["property_id"] for c in checks], "kind_free_text": "Lean 4 project SA: executable models, property theorems (SA/Props), line-protocol driver sa-model"},
        {"name": "go-extract", "path": "go/extract", "serves_properties": [c["property_id"] for c in checks], "kind_free_text": "go/ast fact extractor regenerating SA/Gen/*.lean from /repo on every run"},
        {"name": "go-harness", "path": "go/harness", "serves_properties": [c["property_id"] for c in checks], "kind_free_text": "correspondence harness calling the real socketace code in-process, built into the /repo module via go build -overlay"},
    ],
    "checks": checks,
    "notes": "Family: machine-checked proof in Lean 4. See DESIGN.md. Known findings: known_findings.jsonl.",
    "not_applicable": na,
}
json.dump(m, open("MANIFEST.json", "w"), indent=1)
print("claimed:", [c["property_id"] for c in checks])

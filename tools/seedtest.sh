#!/bin/bash
# tools/seedtest.sh <PROPERTY> <seed dir> <demo dest dir (relative to repo)> '<demo go test cmd>' [tier] [extra props...]
# Confirms a seeded change in a scratch worktree of /repo (demo passes without, fails with the patch) and runs the
# property's check against the patched tree.  Nothing is applied to /repo itself.
V=${VERIF_HOME:-/verif}
set -u
P=$1; DIR=$2; DEST=$3; CMD=$4; TIER=${5:-quick}
export GOFLAGS=-mod=mod GOPROXY=off GOSUMDB=off GOTOOLCHAIN=local
W=/tmp/confirm-$P-$$
git -C /repo worktree add -q --detach $W HEAD || exit 2
trap 'cd /; git -C /repo worktree remove --force $W; $V/tools/rebuild.sh' EXIT
cd $W; mkdir -p $W/$DEST
for f in $DIR/*_test.go; do cp "$f" "$W/$DEST/"; done
echo "== demo WITHOUT patch:"; (timeout 300 bash -c "$CMD" 2>&1 | grep -E "^(ok|FAIL|---|PASS|panic)" | head -8)
git apply $DIR/patch.diff || { echo "patch does not apply"; exit 2; }
echo "== build with patch:"; go build ./... && echo ok
echo "== demo WITH patch:"; (timeout 300 bash -c "$CMD" 2>&1 | grep -E "^(ok|FAIL|---|PASS|panic)" | head -8)
for f in $DIR/*_test.go; do rm -f "$W/$DEST/$(basename $f)"; done
if [ $# -ge 5 ]; then shift 5; else shift $#; fi
for Q in $P "$@"; do
  echo "== check $Q ($TIER) against the patched tree:"
  (cd $V && VERIF_REPO=$W ./check $Q --tier $TIER 2>&1 | grep -v "^KNOWN" | tail -5 | cut -c1-800)
done

#!/bin/bash
# tools/seedtest.sh <PROPERTY> [<seed dir>] [--tier quick|thorough]
# Confirms a seeded change (patch.diff + demonstration) in a scratch worktree of /repo and runs the
# property's check against it.  Nothing is applied to /repo itself.
set -u
P=$1; DIR=${2:-/tmp/seed-out/$P}; TIER=${4:-quick}
export GOFLAGS=-mod=mod GOPROXY=off GOSUMDB=off GOTOOLCHAIN=local
W=/tmp/confirm-$P-$$
git -C /repo worktree add -q --detach $W HEAD || exit 2
trap 'git -C /repo worktree remove --force $W' EXIT
cd $W
DEMO_PATH=$(sed -n 's/^PATH: *//p' $DIR/demo.txt | head -1)
DEMO_CMD=$(sed -n 's/^CMD: *//p' $DIR/demo.txt | head -1)
echo "== demo: $DEMO_CMD (file -> $DEMO_PATH)"
for f in $DIR/*_test.go; do [ -f "$f" ] && cp "$f" "$W/$DEMO_PATH/"; done
echo "== without patch:"; (cd $W && timeout 300 bash -c "$DEMO_CMD" 2>&1 | tail -3)
git apply $DIR/patch.diff || { echo "patch does not apply"; exit 2; }
echo "== build with patch:"; go build ./... && echo ok
echo "== with patch:"; (cd $W && timeout 300 bash -c "$DEMO_CMD" 2>&1 | tail -3)
rm -f $W/$DEMO_PATH/zz_seed*_test.go
for f in $DIR/*_test.go; do rm -f "$W/$DEMO_PATH/$(basename $f)"; done
echo "== check $P against the patched tree:"
cd /verif && VERIF_REPO=$W ./check $P --tier $TIER 2>&1 | grep -v "^KNOWN" | tail -6 | cut -c1-700
echo "== restoring Gen facts from /repo"
cd /verif && ./.build/extract -repo /repo -out lean/SA/Gen >/dev/null

#!/bin/bash
# tools/seedall.sh <dir with Cnn/ subdirs> [ids...] : confirm every seeded change and run its property's quick check
V=${VERIF_HOME:-/verif}
D=$1; shift
IDS=${@:-$(ls $D)}
for p in $IDS; do
  cmd=$(grep -m1 -o 'go test .*' $D/$p/demo.txt | sed 's/`//g; s/ *$//')
  dest=$(echo "$cmd" | grep -o '\./internal/[A-Za-z0-9_/]*' | head -1 | sed 's#^\./##; s#/$##')
  echo "##### $p  dest=$dest  cmd=$cmd"
  $V/tools/seedtest.sh $p $V/$D/$p "$dest" "$cmd" quick 2>&1 | grep "^== demo\|^ok\|^FAIL\|VIOLATION\|obligations discharged\|does not apply" | cut -c1-230
done

#!/bin/bash
# tools/harmall.sh <dir with Cnn/patch.diff> [ids...] : apply every HARMLESS refactor in a scratch worktree of /repo, make
# sure it builds, and run the property's quick check against it (no violation search).  Expected: exit 0 everywhere; what
# breaks is a brittle tie (false alarm on a behaviour-preserving change) and is listed with the broken obligation.
V=${VERIF_HOME:-/verif}
D=$(realpath $1); shift
IDS=${@:-$(ls $D)}
export GOFLAGS=-mod=mod GOPROXY=off GOSUMDB=off GOTOOLCHAIN=local
for spec in $IDS; do
  p=${spec%%:*}; props=${spec#*:}; [ "$props" = "$spec" ] && props=$p   # "C02:C03,C14" = patch C02, checks C03 and C14
  [ -f $D/$p/patch.diff ] || continue
  W=/tmp/harm-confirm-$p-$$
  git -C /repo worktree add -q --detach $W HEAD || continue
  echo "##### $p"
  (cd $W && git apply $D/$p/patch.diff && go build ./... && echo "builds") || echo "patch does not apply / build fails"
  for q in $(echo $props | tr ',' ' '); do
  echo "--- patch $p, check $q"
  (cd $V && VERIF_NOSEARCH=1 VERIF_REPO=$W ./check $q --tier quick 2>&1 | grep -v "^KNOWN" | tail -4 | cut -c1-600)
  r=$(ls -t $V/replays/$q-*.json 2>/dev/null | head -1)
  if [ -n "$r" ] && [ $(( $(date +%s) - $(stat -c %Y $r) )) -lt 120 ]; then
    python3 -c "
import json,sys
d=json.load(open('$r'))
for b in d.get('broken',[])[:6]: print('   BROKEN:', b.get('what','')[:120], '|', str(b.get('detail'))[:300])
if d.get('op'): print('   INPUT:', str(d.get('op'))[:200], '|', str(d.get('reason'))[:200])
"
  fi
  done
  git -C /repo worktree remove --force $W
done
$V/tools/rebuild.sh | tail -1

#!/bin/bash
# Regenerate SA/Gen and rebuild the harness from /repo itself (after a run against another tree).
export V=${VERIF_HOME:-/verif}
cd $V && ./.build/extract -repo /repo -out lean/SA/Gen >/dev/null; rm -f lean/SA/Gen/FAILED.json
python3 - <<'PY'
import sys, importlib.machinery, importlib.util
sys.argv = ['check']
import os; V = os.environ.get('VERIF_HOME', '/verif'); loader = importlib.machinery.SourceFileLoader('check', V + '/check'); spec = importlib.util.spec_from_loader('check', loader)
m = importlib.util.module_from_spec(spec); loader.exec_module(m)
rc, out, exe = m.build_harness(); print("harness rebuilt from /repo rc=%d" % rc)
PY

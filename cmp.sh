#!/bin/sh
# usage: cmp.sh <component> [tier]  -- run harness gen + model and diff
cd /work/v-c06
c=$1; t=${2:-quick}
./.build/harness $c gen -seed ${SEED:-1} -tier $t -out /tmp/c06 -corpus /work/v-c06/corpus/${3:-C06} 2>&1 | tail -3
( time timeout 600 ./lean/.lake/build/bin/sa-model < /tmp/c06/$c.ops > /tmp/c06/$c.model ) 2>&1 | grep real
python3 - $c <<'PY'
import sys
c=sys.argv[1]
ops=open('/tmp/c06/%s.ops'%c).read().split('\n')
a=open('/tmp/c06/%s.impl'%c).read().split('\n')
b=open('/tmp/c06/%s.model'%c).read().split('\n')
print(len(ops),len(a),len(b))
n=0
for o,x,y in zip(ops,a,b):
    if x!=y:
        n+=1
        if n<=8: print("OP",o[:400]); print(" I",x[:400]); print(" M",y[:400])
print("diffs",n)
print("monitor failures:", len(open('/tmp/c06/%s.mon'%c).read().split('\n'))-1)
PY

#!/bin/bash
# usage: mut.sh <prop> <name> <file> <python-replace-old> <python-replace-new>
export GOFLAGS=-mod=mod GOPROXY=off GOSUMDB=off GOTOOLCHAIN=local
prop=$1; name=$2; file=$3
cd /work/r-c06
python3 - "$file" "$4" "$5" <<'PY'
import sys
p,old,new=sys.argv[1:4]
s=open(p).read()
assert old in s, "pattern not found"
s=s.replace(old,new,1)
open(p,'w').write(s)
PY
[ $? -ne 0 ] && { echo "MUTATION NOT APPLIED"; exit 1; }
cd /work/v-c06
out=$(VERIF_REPO=/work/r-c06 ./check $prop --tier quick 2>&1)
rc=$?
echo "== $name: exit=$rc"
echo "$out" | grep -E "VIOLATION|BROKEN|KNOWN|obligations" | cut -c1-420
rp=$(echo "$out" | grep -o "replay=[^ ]*" | head -1 | cut -d= -f2)
if [ -n "$rp" ]; then python3 -c "
import json,sys; d=json.load(open('$rp')); print('  reason:', d.get('reason')); print('  op:', (d.get('op') or '')[:200]); print('  impl:', (d.get('impl') or '')[:200])"; fi
git -C /work/r-c06 checkout -- .

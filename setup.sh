#!/bin/sh
# Build the framework from files on disk only (offline): extractor, SA/Gen, Lean project + driver, harness.
set -e
cd "$(dirname "$0")"
export GOPROXY=off GOSUMDB=off GOTOOLCHAIN=local CGO_ENABLED=0
mkdir -p .build evidence replays
(cd go/extract && GOFLAGS= go build -o ../../.build/extract .)
mkdir -p .build/gen.setup && ./.build/extract -repo "${VERIF_REPO:-/repo}" -out .build/gen.setup
for f in .build/gen.setup/*.lean; do
  cmp -s "$f" "lean/SA/Gen/$(basename "$f")" || cp "$f" "lean/SA/Gen/$(basename "$f")"
done
python3 gen_driver.py >/dev/null
(cd lean && lake build SA sa-model 2>&1 | grep -v '^✔' | grep -v "depends on axioms" | tail -20)
python3 - <<'PY'
import sys, os
sys.argv = ["check"]
sys.path.insert(0, "checks")
import importlib.machinery, importlib.util
loader = importlib.machinery.SourceFileLoader("check", os.path.join(os.getcwd(), "check"))
spec = importlib.util.spec_from_loader("check", loader)
m = importlib.util.module_from_spec(spec); loader.exec_module(m)
rc, out, exe = m.build_harness()
print("harness build rc=%d" % rc); print(out[-2000:])
sys.exit(rc)
PY
echo setup done
